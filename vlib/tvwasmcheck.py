"""Run a family of templates through the back-end agreement check (C02) and produce the report."""
import os
import re
import time
from . import tvwasm, build, runner


def run(prop, templates, assumptions, explanation, procs=None):
    tier_ = runner.tier()
    only = os.environ.get('VERIF_ONLY')
    if only:
        templates = [t for t in templates if re.search(only, t.id)]
    rep = runner.Report(prop, 'translation_validation', tier_)
    t0 = time.time()
    try:
        build.build_ferret()
        tvwasm.node_dir()
        provided = sorted(tvwasm.runtime_js_imports())
    except Exception as e:
        rep.inconc('build', str(e))
        return rep.finish({'explanation': 'build failed', 'programs': 0, 'disagreements_checked': 0}, assumptions), []
    build_s = time.time() - t0
    results = runner.pool_map(tvwasm.run_template, templates, procs)
    agg = {'queries': 0, 'sat': 0, 'unsat': 0, 'unknown': 0, 'solver_s': 0.0, 'paths': 0, 'instrs': 0}
    held = 0
    skipped = {'not-both-accepted': 0, 'wasm-unlinkable': 0}
    fam = {}
    funcs = set()
    summaries = set()
    replays = replays_ok = witnesses = disagreements = native_ub = 0
    missing = set()
    for t, r in zip(templates, results):
        for k in agg:
            agg[k] += (r['stats'] or {}).get(k, 0)
        funcs.update(r.get('funcs', []))
        summaries.update(r.get('summaries', []))
        replays += r.get('replays', 0)
        replays_ok += r.get('replays_ok', 0)
        native_ub += r.get('native_ub_paths', 0)
        fam.setdefault(t.family, [0, 0, 0])
        fam[t.family][0] += 1
        st = r['status']
        if r.get('witness'):
            witnesses += 1
        if st == 'held':
            held += 1
            fam[t.family][1] += 1
        elif st in skipped:
            skipped[st] += 1
            fam[t.family][2] += 1
            missing.update(r.get('missing_imports') or [])
        elif st == 'inconclusive':
            rep.inconc(t.id, r.get('reason'))
        if r.get('witness_mismatch') and not r['problems']:
            rep.inconc(t.id, 'encoder-mismatch on witness replay: inputs=%s %s' % (r.get('witness_inputs'), r['witness_mismatch']))
        seen_kinds = set()
        for p in r['problems']:
            disagreements += 1
            conf = p.get('confirmed')
            if conf in ('not-reproduced', 'replay-failed'):
                rep.inconc(t.id, 'counterexample %s did not reproduce (%s): qbe=%s wasm=%s native=%s node=%s' % (
                    p.get('inputs'), conf, p.get('qbe_predict'), p.get('wasm_predict'), p.get('native'), p.get('node')))
                continue
            if p.get('outside_regions', False) is None:
                rep.inconc(t.id, 'solver unknown when re-asking the obligation outside the known-finding region')
                continue
            key = (p['kind'], tuple(p.get('regions', ())), p.get('outside_regions', False))
            if key in seen_kinds:
                continue
            seen_kinds.add(key)
            what = '%s: inputs=%s native code=%s wasm code=%s; native run=%s node run=%s [%s]' % (
                p['kind'], p.get('inputs'), p.get('qbe_predict'), p.get('wasm_predict'), p.get('native'), p.get('node'), p.get('detail'))
            rep.violation(t.id, what, kind=p['kind'], regions=p.get('regions', ()), outside=p.get('outside_regions', False),
                          replay={'src': r.get('src'), 'inputs': p.get('inputs'), 'qbe': p.get('qbe_predict'), 'wasm': p.get('wasm_predict'),
                                  'native': p.get('native'), 'node': p.get('node'), 'template': t.id,
                                  'inputs_outside_known_region': p.get('inputs_outside')})
        if len(rep.samples) < 4 and st == 'held':
            rep.samples.append({'template': t.id, 'status': st, 'source': r.get('src'), 'paths': r.get('paths'), 'queries': (r['stats'] or {}).get('queries'),
                                'witness_inputs': r.get('witness_inputs'), 'witness_native': r.get('witness_native'), 'witness_node': r.get('witness_node')})
    cov = dict(rep.coverage)
    cov.update({
        'programs': len(templates), 'disagreements_checked': disagreements,
        'states': agg['paths'], 'transitions': agg['queries'], 'traces_validated_against_impl': replays,
        'explanation': explanation,
        'templates_held': held, 'templates_not_accepted_by_both_targets': skipped['not-both-accepted'],
        'templates_importing_a_function_runtime_js_lacks': skipped['wasm-unlinkable'], 'imports_missing_from_runtime_js': sorted(missing),
        'families': {k: {'templates': v[0], 'held': v[1], 'outside_c02': v[2]} for k, v in sorted(fam.items())},
        'functions_encoded': len(funcs), 'instructions_executed': agg['instrs'],
        'queries': agg['queries'], 'queries_sat': agg['sat'], 'queries_unsat': agg['unsat'], 'queries_unknown': agg['unknown'],
        'solver_s': round(agg['solver_s'], 2), 'build_s': round(build_s, 1),
        'vacuity_witnesses_sat': witnesses, 'replays_run': replays, 'replays_agreeing_with_encoding': replays_ok,
        'native_paths_with_undefined_behaviour_skipped': native_ub,
        'runtime_summaries_used': sorted(summaries), 'runtime_js_imports_offered': provided, 'exhaustive': False,
        'bounds': 'all 2^64 values of every template parameter on both targets (pointer size 8 and 4); loops unrolled per template with an unwinding assertion; template family listed under families',
    })
    return rep.finish(cov, assumptions), results
