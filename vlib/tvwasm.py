"""Back-end agreement (C02): one template is compiled for both targets by the freshly built compiler; the QBE IL of
its function and the same function inside the emitted .wasm binary are executed symbolically on the same 64-bit
inputs, and the solver decides, for every pair of paths, that the two agree on termination class, returned value
and printed values.  Counterexamples (and one witness per template) are replayed on the native executable and
under node with the shipped runtime/wasm/runtime.js."""
import json
import os
import re
import shutil
import subprocess
import time
import traceback
import z3

from lirsym import qbe, wasm
from lirsym.core import Solver, Stats, Inconclusive
from lirsym.rtsum import QBE_SUMMARIES
from . import build, tv

UB = ('falloff', 'oob', 'uaf', 'illtyped')

RUNNER_MJS = r'''
import { readFileSync, writeSync } from "node:fs";
import { createFerretRuntime } from "./runtime.mjs";
const say = (s) => writeSync(1, s + "\n");
console.log = (...a) => say(a.join(" "));
const bytes = readFileSync(process.argv[2]);
const rt = createFerretRuntime();
let instance;
try {
  const mod = new WebAssembly.Module(bytes);
  instance = new WebAssembly.Instance(mod, rt.imports);
} catch (e) {
  say("@@LINK " + e.name + ": " + String(e.message).replace(/\n/g, " "));
  process.exit(3);
}
rt.bind(instance);
try {
  instance.exports.main();
  say("@@DONE");
} catch (e) {
  if (e instanceof WebAssembly.RuntimeError) say("@@TRAP " + e.message);
  else say("@@PANIC " + String(e.message).replace(/\n/g, " "));
}
'''

_node_dir = None


def node_dir():
    """Scratch directory holding the node runner and a copy of the working tree's runtime.js."""
    global _node_dir
    if _node_dir is None:
        build.build_ferret()
        d = os.path.join(build.workdir(), 'node')
        os.makedirs(d, exist_ok=True)
        shutil.copy(os.path.join(build.workdir(), 'src', 'runtime', 'wasm', 'runtime.js'), os.path.join(d, 'runtime.mjs'))
        with open(os.path.join(d, 'run.mjs'), 'w') as f:
            f.write(RUNNER_MJS)
        _node_dir = d
    return _node_dir


_provided = None


def runtime_js_imports():
    """Names runtime.js offers under imports.ferret (read from the working tree on every run)."""
    global _provided
    if _provided is None:
        build.build_ferret()
        txt = open(os.path.join(build.workdir(), 'src', 'runtime', 'wasm', 'runtime.js')).read()
        m = re.search(r'imports:\s*\{\s*ferret:\s*\{([^}]*)\}', txt)
        _provided = set(re.findall(r'[A-Za-z_][A-Za-z0-9_]*', m.group(1))) if m else set()
    return _provided


def run_node(wasm_path, timeout=20):
    d = node_dir()
    r = None
    for attempt in range(3):
        try:
            # a loaded machine can stall node's start-up for a long time: the later attempts wait longer
            r = subprocess.run(['node', os.path.join(d, 'run.mjs'), wasm_path], capture_output=True, text=True, timeout=timeout * (1 + 2 * attempt))
        except subprocess.TimeoutExpired:
            if attempt == 2:
                raise
            continue
        if '@@' in r.stdout:
            break
    lines = [l for l in r.stdout.split('\n') if l != '']
    out = {'stdout': [l for l in lines if not l.startswith('@@')], 'rc': r.returncode}
    marks = [l for l in lines if l.startswith('@@')]
    if not marks:
        out['kind'] = 'crash'
        out['msg'] = (r.stderr or '')[-300:]
    elif marks[-1].startswith('@@DONE'):
        out['kind'] = 'ret'
    elif marks[-1].startswith('@@TRAP'):
        out['kind'] = 'trap'
        out['msg'] = marks[-1][7:]
    elif marks[-1].startswith('@@PANIC'):
        out['kind'] = 'panic'
        out['msg'] = marks[-1][8:]
    else:
        msg = marks[-1][7:]
        out['kind'] = 'invalid-module' if msg.startswith('CompileError') else 'link'
        out['msg'] = msg
    return out


def replay_wasm(t, vals):
    src = t.prog.src(main_body=tv.main_for(t.entry, vals))
    c = build.compile_fer(src, target='wasm')
    if c.wasm is None:
        return {'kind': 'nobuild', 'rc': c.rc, 'out': c.out[-300:]}
    try:
        return run_node(c.wasm)
    except Exception as e:
        return {'kind': 'timeout', 'err': str(e)}


def _cls(kind):
    return {'ret': 'normal', 'panic': 'abnormal', 'trap': 'abnormal', 'crash': 'abnormal'}.get(kind, kind)


def native_vs_node(n, w):
    """Do a native run and a node run differ observably (termination class or printed lines)?"""
    if _cls(n.get('kind')) != _cls(w.get('kind')):
        return True
    nl = n.get('stdout', [])
    wl = w.get('stdout', [])
    return [x.strip() for x in nl] != [x.strip() for x in wl]


def _differ(oq, ow):
    """z3 condition under which a QBE path outcome and a wasm path outcome are observably different."""
    if _cls(oq.kind) != _cls(ow.kind):
        return z3.BoolVal(True)
    conds = []
    if oq.kind == 'ret':
        if (oq.ret is None) != (ow.ret is None):
            return z3.BoolVal(True)
        if oq.ret is not None:
            if oq.ret.size() != ow.ret.size():
                raise Inconclusive('return widths differ between the targets')
            conds.append(oq.ret != ow.ret)
    p1 = [e for e in oq.events if e[0] == 'print']
    p2 = [e for e in ow.events if e[0] == 'print']
    if len(p1) != len(p2):
        return z3.BoolVal(True)
    for a, b in zip(p1, p2):
        if len(a[1]) != len(b[1]):
            return z3.BoolVal(True)
        for (k1, t1), (k2, t2) in zip(a[1], b[1]):
            if k1 != k2:
                return z3.BoolVal(True)
            if k1 == 'str':
                if t1 != t2:
                    return z3.BoolVal(True)
            elif k1 == 'bool':
                conds.append(z3.Xor(t1, t2))
            else:
                conds.append(t1 != t2)
    if not conds:
        return z3.BoolVal(False)
    return z3.Or(*conds)


def find_entry(qmod, wmod, entry):
    """Index of the template function inside the wasm module.  The emitter numbers functions by sorted name and emits
    no name section; the QBE module of the same program carries the names."""
    names = sorted(n[1:] for n in qmod.funcs)
    nimp = len(wmod.imports)
    if len(names) == len(wmod.funcs) and 'main' in names and entry in names:
        ex = wmod.exports.get('main')
        if ex and ex[0] == 0 and ex[1] - nimp == names.index('main'):
            return nimp + names.index(entry), names
    raise Inconclusive('cannot identify the template function inside the wasm module (functions: qbe %d, wasm %d)' % (len(names), len(wmod.funcs)))


def run_template(t):
    t0 = time.time()
    res = {'id': t.id, 'family': t.family, 'status': None, 'problems': [], 'stats': None, 'paths': 0, 'funcs': [],
           'ninstr': 0, 'wall_s': 0, 'src': None, 'replays': 0, 'replays_ok': 0}
    stats = Stats()
    try:
        src = t.prog.src()
        res['src'] = src
        cq = build.compile_fer(src)
        cw = build.compile_fer(src, target='wasm')
        okq = cq.rc == 0 and cq.il is not None and cq.exe is not None
        okw = cw.rc == 0 and cw.wasm is not None
        res['accepted'] = [okq, okw]
        if not (okq and okw):
            res['status'] = 'not-both-accepted'
            res['reject_out'] = (cw.out if okq else cq.out)[-300:]
            return res
        qmod = qbe.parse(cq.il)
        try:
            wmod = wasm.decode(open(cw.wasm, 'rb').read())
        except wasm.WasmError as e:
            raise Inconclusive('wasm decode: %s' % e)
        missing = sorted(n for (_, n, _) in wmod.imports if n not in runtime_js_imports())
        if missing:
            res['status'] = 'wasm-unlinkable'
            res['missing_imports'] = missing
            return res
        fname = '$' + t.entry
        if fname not in qmod.funcs:
            raise Inconclusive('function %s not in IL' % fname)
        fidx, names = find_entry(qmod, wmod, t.entry)
        nparams = len(qmod.funcs[fname].params)
        args = [z3.BitVec('x%d' % i, 64) for i in range(nparams)]
        pre = t.pre(args) if t.pre else z3.BoolVal(True)
        solver = Solver(timeout_ms=int(os.environ.get('VERIF_QUERY_MS', '20000')), stats=stats)
        exq = qbe.Executor(qmod, QBE_SUMMARIES, solver=solver, unroll=t.unroll)
        outq = exq.run(fname, args, pre=pre)
        exw = wasm.Executor(wmod, wasm.WASM_SUMMARIES, solver=solver, unroll=t.unroll)
        outw = exw.run(fidx, args, pre=pre)
        res['paths'] = len(outq) + len(outw)
        res['funcs'] = sorted({fname} | exq.encoded) + ['wasm:%s' % names[i - len(wmod.imports)] for i in sorted(exw.encoded)]
        res['ninstr'] = sum(qmod.funcs[f].ninstr for f in ({fname} | exq.encoded) if f in qmod.funcs) + sum(wmod.func(i).ninstr for i in exw.encoded)
        res['summaries'] = sorted(x for x in exq.called if x not in qmod.funcs) + ['wasm:' + x for x in sorted(exw.called)]
        if t.meta.get('nonterm_ok'):
            outq = [o for o in outq if o.kind != 'bound']
            outw = [o for o in outw if o.kind != 'bound']
        bound = [o for o in outq + outw if o.kind == 'bound']
        if bound:
            raise Inconclusive('unwinding bound exceeded: %s' % bound[0].detail)
        r, wm = solver.check([pre])
        res['witness'] = r == 'sat'
        res['native_ub_paths'] = sum(1 for o in outq if o.kind in UB)
        for oq in outq:
            if oq.kind in UB:
                continue      # undefined on the native side: C01/C04/C05 territory, nothing to agree with
            for ow in outw:
                d = _differ(oq, ow)
                if z3.is_false(z3.simplify(d)):
                    continue
                r, m = solver.check(list(oq.pc) + list(ow.pc) + [d])
                if r == 'unknown':
                    raise Inconclusive('solver unknown on agreement obligation')
                if r == 'sat':
                    vals = [m.eval(x, model_completion=True).as_long() for x in args]
                    pr = {'kind': 'backend-mismatch' if ow.kind not in UB else 'wasm-' + ow.kind, 'inputs': vals, 'regions': [],
                          'detail': ow.detail if ow.kind in UB or ow.kind == 'trap' else oq.detail,
                          'qbe_predict': tv._il_predict(oq, args, vals), 'wasm_predict': tv._il_predict(ow, args, vals)}
                    pr['qbe_predict']['prints'] = tv._il_prints(oq, args, vals)
                    pr['wasm_predict']['prints'] = tv._il_prints(ow, args, vals)
                    sub = tv._subst(args, vals)
                    for rn, rf in t.regions.items():
                        if z3.is_true(z3.simplify(z3.substitute(rf(args), *sub))):
                            pr['regions'].append(rn)
                    if t.regions:
                        excl = z3.Or(*[rf(args) for rf in t.regions.values()])
                        r2, m2 = solver.check(list(oq.pc) + list(ow.pc) + [d, z3.Not(excl)])
                        pr['outside_regions'] = None if r2 == 'unknown' else (r2 == 'sat')
                        if r2 == 'sat':
                            pr['inputs_outside'] = [m2.eval(x, model_completion=True).as_long() for x in args]
                    res['problems'].append(pr)
        for pr in res['problems']:
            n = tv.replay_native(t, pr['inputs'])
            w = replay_wasm(t, pr['inputs'])
            pr['native'], pr['node'] = n, w
            res['replays'] += 2
            if n.get('kind') in ('nobuild', 'timeout', 'error') or w.get('kind') in ('nobuild', 'timeout', 'link', 'crash'):
                pr['confirmed'] = 'replay-failed'
            elif w.get('kind') == 'invalid-module':
                # the wasm target wrote a module that fails validation while the native executable runs
                pr['confirmed'] = 'native' if pr['kind'] == 'wasm-illtyped' and n.get('kind') in ('ret', 'panic', 'crash') else 'replay-failed'
                res['replays_ok'] += 2 if pr['confirmed'] == 'native' else 0
            elif native_vs_node(n, w):
                pr['confirmed'] = 'native'
                res['replays_ok'] += 2
            else:
                pr['confirmed'] = 'not-reproduced'
        if wm is not None and not res['problems'] and t.meta.get('replay_witness', True):
            vals = [wm.eval(x, model_completion=True).as_long() for x in args]
            n = tv.replay_native(t, vals)
            w = replay_wasm(t, vals)
            res['replays'] += 2
            res['witness_inputs'] = vals
            res['witness_native'] = n
            res['witness_node'] = w
            sub = tv._subst(args, vals)
            # the two REAL runs on the witness input disagree although the symbolic comparison held: the difference
            # lies in a part that is under contract here (runtime.js / the C runtime), observed on a concrete input
            if n.get('kind') in ('ret', 'panic', 'crash') and w.get('kind') in ('ret', 'panic', 'trap') and native_vs_node(n, w):
                n2 = tv.replay_native(t, vals)
                w2 = replay_wasm(t, vals)
                if native_vs_node(n2, w2):
                    res['problems'].append({'kind': 'witness-disagreement', 'inputs': vals, 'regions': [], 'confirmed': 'native',
                                            'detail': 'native executable and node run (shipped runtime.js) differ on the witness input although the emitted code agrees symbolically: the runtimes differ',
                                            'qbe_predict': None, 'wasm_predict': None, 'native': n, 'node': w})
                    res['replays'] += 2
                    res['replays_ok'] += 2
            # encoder validation: each engine's prediction on the witness must agree with the real run of its target
            for outs, nat, which in ((outq, n, 'qbe'), (outw, w, 'wasm')):
                for o in outs:
                    if all(z3.is_true(z3.simplify(z3.substitute(c, *sub))) for c in o.pc):
                        pred = tv._il_predict(o, args, vals)
                        pred['prints'] = tv._il_prints(o, args, vals)
                        if o.kind in ('ret', 'panic') and pred.get('ret') != 'undef':
                            ok = tv.agree(pred, _as_native(nat))
                            res['replays_ok'] += 1 if ok else 0
                            if not ok:
                                res.setdefault('witness_mismatch', []).append({'target': which, 'predicted': pred, 'real': nat})
                        break
        res['status'] = 'violation' if res['problems'] else 'held'
    except Inconclusive as e:
        res['status'] = 'inconclusive'
        res['reason'] = str(e)
    except Exception as e:
        res['status'] = 'inconclusive'
        res['reason'] = 'internal: %s\n%s' % (e, traceback.format_exc()[-1500:])
    finally:
        res['stats'] = stats.as_dict()
        res['wall_s'] = round(time.time() - t0, 3)
    return res


def _as_native(run):
    """Give a node run the shape tv.agree expects of a native run (last printed line = the template's result)."""
    if 'ret' in run or run.get('kind') != 'ret':
        if run.get('kind') == 'trap':
            d = dict(run)
            d['kind'] = 'crash'
            return d
        return run
    d = dict(run)
    lines = run.get('stdout', [])
    if lines:
        try:
            d['ret'] = int(lines[-1])
            d['prints'] = lines[:-1]
        except ValueError:
            pass
    return d
