"""Run a family of templates through translation validation and produce the report for one property."""
import os
import time
from . import tv, build, runner

UB_KINDS = ('falloff', 'oob', 'uaf', 'illtyped')


def _worker(t):
    r = tv.run_template(t)
    r['replays'] = 0
    r['replays_ok'] = 0
    # witness replay = encoder validation
    if r.get('witness_inputs') is not None and r['status'] in ('held', 'violation') and 'witness_il' in r:
        try:
            nat = tv.replay_native(t, r['witness_inputs'])
            r['witness_native'] = nat
            r['replays'] += 1
            if r['witness_il']['kind'] in UB_KINDS or r['witness_il'].get('ret') == 'undef':
                r['witness_ok'] = None  # undefined behaviour: nothing to compare
            else:
                r['witness_ok'] = tv.agree(r['witness_il'], nat)
                r['replays_ok'] += 1 if r['witness_ok'] else 0
        except Exception as e:
            r['witness_native'] = {'kind': 'error', 'err': str(e)}
            r['witness_ok'] = False
    for p in r['problems']:
        if 'inputs' not in p:
            continue
        try:
            nat = tv.replay_native(t, p['inputs'])
        except Exception as e:
            nat = {'kind': 'error', 'err': str(e)}
        p['native'] = nat
        r['replays'] += 1
        a_il = tv.agree(p['il_predict'], nat)
        a_ref = tv.agree(p['ref_expect'], nat)
        if nat.get('kind') in ('error', 'nobuild', 'timeout'):
            p['confirmed'] = 'replay-failed'
        elif not a_ref:
            # the real executable departs from the reference semantics on the solver's input: genuine, whatever the
            # exact value the encoding predicted (address-dependent results differ from run to run)
            p['confirmed'] = 'native' if a_il else 'native-differs-from-both'
            r['replays_ok'] += 1 if a_il else 0
        elif p['kind'] in UB_KINDS:
            # the IL the real compiler emitted contains the event (fall-off, out-of-region access, ill-typed IL);
            # the native run happened to agree with the reference, which undefined behaviour is allowed to do
            p['confirmed'] = 'il-evidence'
        else:
            p['confirmed'] = 'not-reproduced'
    return r


def run(prop, templates, level, assumptions, explanation, reject_is_violation=True, extra_cov=None, procs=None, post=None):
    tier_ = runner.tier()
    only = os.environ.get('VERIF_ONLY')
    if only:
        import re as _re
        templates = [t for t in templates if _re.search(only, t.id)]
    rep = runner.Report(prop, level, tier_)
    t0 = time.time()
    try:
        build.build_ferret()
    except Exception as e:
        rep.inconc('build', str(e))
        return rep.finish({'explanation': 'build failed', 'programs': 0, 'disagreements_checked': 0, 'states': 0, 'transitions': 0, 'traces_validated_against_impl': 0}, assumptions)
    build_s = time.time() - t0
    results = runner.pool_map(_worker, templates, procs)
    agg = {'queries': 0, 'sat': 0, 'unsat': 0, 'unknown': 0, 'solver_s': 0.0, 'paths': 0, 'instrs': 0}
    held = rejected = 0
    funcs = set()
    summaries = set()
    replays = replays_ok = 0
    witnesses = 0
    fam = {}
    disagreements = 0
    for t, r in zip(templates, results):
        for k in agg:
            agg[k] += (r['stats'] or {}).get(k, 0)
        funcs.update(r.get('funcs', []))
        summaries.update(r.get('summaries', []))
        replays += r.get('replays', 0)
        replays_ok += r.get('replays_ok', 0)
        fam.setdefault(t.family, [0, 0])
        fam[t.family][0] += 1
        st = r['status']
        if r.get('witness'):
            witnesses += 1
        if st == 'held':
            held += 1
            fam[t.family][1] += 1
        if st == 'rejected':
            rejected += 1
            if t.expect == 'accept' and reject_is_violation:
                what = 'template rejected by the compiler (rc=%s, exe=%s): %s' % (r.get('compiler_rc'), r.get('exe'), (r.get('compiler_out') or '').strip()[-300:])
                rep.violation(t.id, what, kind='rejected-silent' if r.get('silent') else 'rejected',
                              replay={'src': r.get('src'), 'out': r.get('compiler_out')})
        elif st == 'inconclusive':
            rep.inconc(t.id, r.get('reason'))
        if r.get('witness_ok') is False and not any(p.get('confirmed') in ('native', 'native-differs-from-both') for p in r['problems']):
            rep.inconc(t.id, 'encoder-mismatch on witness replay: inputs=%s il=%s native=%s' % (r.get('witness_inputs'), r.get('witness_il'), r.get('witness_native')))
        for p in r['problems']:
            if p['kind'] in ('unknown', 'bound'):
                continue
            disagreements += 1
            conf = p.get('confirmed')
            if conf in ('not-reproduced', 'replay-failed'):
                rep.inconc(t.id, 'counterexample %s did not reproduce natively (%s): il=%s ref=%s native=%s' % (p.get('inputs'), conf, p.get('il_predict'), p.get('ref_expect'), p.get('native')))
                continue
            if p.get('outside_regions', False) is None:
                rep.inconc(t.id, 'solver unknown when re-asking the obligation outside the known-finding region')
                continue
            what = '%s: inputs=%s reference=%s compiled code=%s native run=%s [%s]' % (p['kind'], p.get('inputs'), p.get('ref_expect'), p.get('il_predict'), p.get('native'), p.get('detail'))
            rep.violation(t.id, what, kind=p['kind'], regions=p.get('regions', ()), outside=p.get('outside_regions', False),
                          replay={'src': r.get('src'), 'inputs': p.get('inputs'), 'ref': p.get('ref_expect'), 'il': p.get('il_predict'), 'native': p.get('native'), 'template': t.id,
                                  'inputs_outside_known_region': p.get('inputs_outside')})
        if len(rep.samples) < 4 and st in ('held', 'violation') and t.id.count('/') >= 1:
            rep.samples.append({'template': t.id, 'status': st, 'source': r.get('src'), 'paths': r.get('paths'), 'queries': (r['stats'] or {}).get('queries'),
                                'witness_inputs': r.get('witness_inputs'), 'witness_native': r.get('witness_native')})
    if post:
        post(rep, templates, results)
    cov = dict(rep.coverage)
    cov.update({
        'programs': len(templates), 'disagreements_checked': disagreements,
        'states': agg['paths'], 'transitions': agg['queries'], 'traces_validated_against_impl': replays,
        'explanation': explanation,
        'templates_held': held, 'templates_rejected': rejected, 'families': {k: {'templates': v[0], 'held': v[1]} for k, v in sorted(fam.items())},
        'functions_encoded': len(funcs), 'il_instructions_executed': agg['instrs'],
        'queries': agg['queries'], 'queries_sat': agg['sat'], 'queries_unsat': agg['unsat'], 'queries_unknown': agg['unknown'],
        'solver_s': round(agg['solver_s'], 2), 'build_s': round(build_s, 1),
        'vacuity_witnesses_sat': witnesses, 'replays_run': replays, 'replays_agreeing_with_encoding': replays_ok,
        'runtime_summaries_used': sorted(summaries), 'exhaustive': False,
        'bounds': 'all 2^64 values of every template parameter; loops unrolled per template (unwinding assertion: a path entering a block more than unroll+1 times is inconclusive); template family listed under families',
    })
    if extra_cov:
        cov.update(extra_cov)
    return rep.finish(cov, assumptions), results
