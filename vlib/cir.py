"""Helpers for the L3 checks: LLVM IR of the runtime C sources (clang -O0) and native replay through a C driver."""
import os
import subprocess
from . import build

_ir_cache = {}


def runtime_ir(rel, extra_flags=()):
    """LLVM IR text (clang-14 -O0) of /repo/runtime/<rel> from the current working tree."""
    key = (rel, tuple(extra_flags))
    if key in _ir_cache:
        return _ir_cache[key]
    src = os.path.join(build.REPO, 'runtime', rel)
    out = os.path.join(build.workdir(), rel.replace('/', '_') + '.ll')
    cmd = ['clang', '-std=c99', '-O0', '-S', '-emit-llvm', '-w', '-Xclang', '-disable-O0-optnone',
           '-I', os.path.join(build.REPO, 'runtime', 'core'), '-I', os.path.join(build.REPO, 'runtime', 'libs'), '-o', out, src] + list(extra_flags)
    r = subprocess.run(cmd, capture_output=True, text=True)
    if r.returncode != 0:
        raise build.BuildError('clang failed on %s: %s' % (rel, r.stderr[-1500:]))
    _ir_cache[key] = open(out).read()
    return _ir_cache[key]


def run_c_driver(name, body, sources, timeout=60):
    """Compile a C driver (text `body`) together with runtime sources (relative to /repo/runtime) under ASan/UBSan
    and run it; returns (rc, stdout, stderr)."""
    d = os.path.join(build.workdir(), 'cdrv_%s_%d' % (name, os.getpid()))
    os.makedirs(d, exist_ok=True)
    src = os.path.join(d, 'driver.c')
    open(src, 'w').write(body)
    exe = os.path.join(d, 'driver')
    cmd = ['clang', '-std=gnu99', '-O0', '-g', '-w', '-fsanitize=address,undefined', '-fno-sanitize-recover=undefined',
           '-I', os.path.join(build.REPO, 'runtime', 'core'), '-I', os.path.join(build.REPO, 'runtime', 'libs'), '-o', exe, src] + \
          [os.path.join(build.REPO, 'runtime', s) for s in sources] + ['-lm']
    r = subprocess.run(cmd, capture_output=True, text=True)
    if r.returncode != 0:
        return 99, '', 'driver build failed: ' + r.stderr[-1500:]
    r = subprocess.run([exe], capture_output=True, text=True, timeout=timeout)
    return r.returncode, r.stdout, r.stderr
