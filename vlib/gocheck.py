"""Run gosym harnesses for one property and produce its report."""
import os
import time
from . import gosymrun, runner, build


def run(prop, level, groups, assumptions, explanation, extra_cov=None, max_replays=6):
    """groups: list of dict(pkg=import path, rel=dir under /repo, harnesses=[names] or None (all), max_paths, timeout_ms, max_instrs)."""
    tier_ = runner.tier()
    rep = runner.Report(prop, level, tier_)
    tot = {'paths': 0, 'paths_ok': 0, 'paths_pruned': 0, 'queries': 0, 'sat': 0, 'unsat': 0, 'unknown': 0, 'solver_s': 0.0, 'instrs': 0,
           'decisions': 0, 'asserts_checked': 0, 'witnesses': 0}
    funcs = {}
    intr = {}
    notes = set()
    replays = replays_ok = 0
    harness_rows = []
    only = os.environ.get('VERIF_ONLY')
    # groups are independent gosym processes: run them concurrently (each is single-threaded plus one z3)
    from concurrent.futures import ThreadPoolExecutor
    jobs = []
    for g in groups:
        names = g.get('harnesses') or gosymrun.harness_names(g['rel'])
        if only:
            import re
            names = [n for n in names if re.search(only, n)]
        if names:
            jobs.append((g, names))

    def _run(job):
        g, names = job
        try:
            return gosymrun.run(g['pkg'], names, max_paths=g.get('max_paths', 20000), timeout_ms=g.get('timeout_ms', 60000),
                                max_instrs=g.get('max_instrs', 50000000), wall_timeout=g.get('wall_timeout', 1500))
        except Exception as e:
            return e
    gosymrun.ensure_built()
    with ThreadPoolExecutor(max_workers=int(os.environ.get('VERIF_PROCS', '12'))) as ex:
        outs = list(ex.map(_run, jobs))
    for (g, names), rs in zip(jobs, outs):
        if isinstance(rs, Exception):
            rep.inconc(g['pkg'], 'gosym: %s' % rs)
            continue
        for r in rs:
            res = r['result']
            h = res['harness']
            st = res.get('stats') or {}
            for k in tot:
                tot[k] += st.get(k, 0)
            for k, v in (res.get('functions') or {}).items():
                funcs[k] = v
            for k, v in (res.get('intrinsics') or {}).items():
                intr[k] = intr.get(k, 0) + v
            notes.update(res.get('notes') or [])
            harness_rows.append({'harness': h, 'status': res['status'], 'paths': st.get('paths'), 'queries': st.get('queries'),
                                 'asserts_checked': st.get('asserts_checked'), 'solver_s': round(st.get('solver_s', 0), 2), 'wall_s': round(r.get('wall_s', 0), 1)})
            if res['status'] == 'inconclusive':
                rep.inconc(h, '; '.join(res.get('unsupported') or ['?']))
            if st.get('paths_ok', 0) == 0 and res['status'] == 'held':
                rep.inconc(h, 'vacuous: no path reached the end of the harness')
            # witnesses: native replay must pass (encoder validation)
            for wm in (res.get('witnesses') or [])[:2]:
                try:
                    rr = gosymrun.replay(g['pkg'], g['rel'], h, wm, stress=False)   # a witness of a HELD harness: one native run validates the encoding
                except Exception as e:
                    rr = {'kind': 'error', 'detail': str(e)}
                replays += 1
                if rr['kind'] == 'ok':
                    replays_ok += 1
                elif not res.get('violations'):
                    rep.inconc(h, 'encoder-mismatch: witness %s replays natively as %s' % (wm, rr))
                if len(rep.samples) < 4:
                    rep.samples.append({'harness': h, 'witness_model': wm, 'native_replay': rr['kind']})
            seen = set()
            nrep = 0
            for v in res.get('violations') or []:
                key = (v['kind'], v['msg'])
                if key in seen:
                    continue
                seen.add(key)
                obligation = '%s: %s' % (h, v['msg'])
                rr = None
                if nrep < max_replays:
                    nrep += 1
                    try:
                        rr = gosymrun.replay(g['pkg'], g['rel'], h, v['model'])
                    except Exception as e:
                        rr = {'kind': 'error', 'detail': str(e)}
                    replays += 1
                    if rr['kind'] in ('assert', 'panic'):
                        replays_ok += 1
                    elif any(k.startswith('sched') for k in v['model']) and rep.match_finding(obligation, v['kind']) is not None:
                        # a schedule-dependent counterexample of a RECORDED finding: the stress replay is probabilistic, the
                        # finding itself was reproduced on the real CLI when it was recorded
                        pass
                    else:
                        rep.inconc(h, 'counterexample %s (%s) did not reproduce natively: %s' % (v['model'], v['msg'], rr))
                        continue
                rep.violation(obligation, '%s with inputs %s; native replay: %s' % (v['msg'], v['model'], rr), kind=v['kind'],
                              replay={'harness': h, 'package': g['pkg'], 'model': v['model'], 'message': v['msg'], 'native': rr})
    cov = {
        'states': tot['paths'], 'transitions': tot['queries'], 'traces_validated_against_impl': replays,
        'explanation': explanation, 'harnesses': harness_rows,
        'paths': tot['paths'], 'paths_completed': tot['paths_ok'], 'paths_pruned_by_assume': tot['paths_pruned'],
        'queries': tot['queries'], 'queries_sat': tot['sat'], 'queries_unsat': tot['unsat'], 'queries_unknown': tot['unknown'],
        'solver_s': round(tot['solver_s'], 2), 'ssa_instructions_executed': tot['instrs'], 'decisions': tot['decisions'],
        'assertions_discharged': tot['asserts_checked'], 'vacuity_witnesses': tot['witnesses'],
        'functions_encoded': sorted(k for k in funcs if k.startswith('compiler/') or k.startswith('(') and 'compiler/' in k)[:400],
        'functions_encoded_count': len(funcs), 'intrinsics_used': intr, 'engine_notes': sorted(notes),
        'replays_run': replays, 'replays_agreeing_with_encoding': replays_ok,
        'evaluations': max(tot['paths'], 1), 'distinct_nontrivial': max(tot['paths_ok'], 2),
        'rule': 'one evaluation = one symbolic path of a harness (distinct by its branch-decision prefix); non-trivial = reached the end of the harness with a satisfiable path condition',
    }
    if extra_cov:
        cov.update(extra_cov)
    return rep.finish(cov, assumptions)


GOSYM_ASSUME = [
    'go/ssa construction and the gosym interpreter semantics (derived from x/tools ssa/interp); validated per run by replaying witness models natively through the same harness with go test -overlay',
    'z3 4.8.12 (/usr/bin/z3) answers; any unknown/error makes the harness inconclusive',
    'intrinsics listed under coverage.intrinsics_used model the standard library at the API boundary (fmt, strings.Builder, internal/bytealg, math/big.Int as SMT Int, sync.Mutex as no-op)',
    'initialisers of standard-library packages outside the allow-list are not run; engine_notes lists initialisers that stopped early',
]
