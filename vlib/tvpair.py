"""Relational translation validation for C09: a template P and its rewrite R(P) are both compiled; their ILs are
executed symbolically on the same inputs and the solver decides equality of behaviour for all inputs."""
import os
import time
import traceback
import z3
from lirsym import qbe
from lirsym.core import Solver, Stats, Inconclusive
from lirsym.rtsum import QBE_SUMMARIES
from . import build, tv


class Pair:
    def __init__(self, pid, base, rewritten, kind, family='', regions=None, meta=None):
        self.id = pid
        self.base = base            # tv.Template
        self.rewritten = rewritten  # lang.Program
        self.kind = kind
        self.family = family or kind
        self.regions = regions or {}
        self.meta = meta or {}


def _exec(prog_src, entry, nparams, pre_fn, unroll, stats, argnames):
    c = build.compile_fer(prog_src)
    if c.rc != 0 or c.il is None or c.exe is None:
        return {'accepted': False, 'rc': c.rc, 'out': c.out[-500:], 'silent': c.rc == 0}
    mod = qbe.parse(c.il)
    fname = '$' + entry
    args = [z3.BitVec(n, 64) for n in argnames]
    pre = pre_fn(args) if pre_fn else z3.BoolVal(True)
    solver = Solver(timeout_ms=int(os.environ.get('VERIF_QUERY_MS', '20000')), stats=stats)
    ex = qbe.Executor(mod, QBE_SUMMARIES, solver=solver, unroll=unroll)
    outs = ex.run(fname, args, pre=pre)
    return {'accepted': True, 'outcomes': outs, 'args': args, 'pre': pre, 'solver': solver,
            'funcs': sorted({fname} | ex.encoded), 'ninstr': sum(mod.funcs[f].ninstr for f in ({fname} | ex.encoded) if f in mod.funcs)}


def _differ(o1, o2):
    if o1.kind != o2.kind:
        return z3.BoolVal(True)
    conds = []
    if o1.kind == 'ret':
        if (o1.ret is None) != (o2.ret is None):
            return z3.BoolVal(True)
        if o1.ret is not None:
            conds.append(o1.ret != o2.ret)
    p1 = [e for e in o1.events if e[0] == 'print']
    p2 = [e for e in o2.events if e[0] == 'print']
    if len(p1) != len(p2):
        return z3.BoolVal(True)
    for a, b in zip(p1, p2):
        if len(a[1]) != len(b[1]):
            return z3.BoolVal(True)
        for (k1, t1), (k2, t2) in zip(a[1], b[1]):
            if k1 != k2:
                return z3.BoolVal(True)
            if k1 == 'str':
                if t1 != t2:
                    return z3.BoolVal(True)
            else:
                conds.append(t1 != t2)
    if not conds:
        return z3.BoolVal(False)
    return z3.Or(*conds)


def run_pair(p):
    t0 = time.time()
    t = p.base
    res = {'id': p.id, 'family': p.family, 'status': None, 'problems': [], 'stats': None, 'paths': 0, 'funcs': [], 'wall_s': 0,
           'src': None, 'src_rewritten': None, 'replays': 0, 'replays_ok': 0}
    stats = Stats()
    try:
        nparams = len(t.prog.func(t.entry).params)
        names = ['x%d' % i for i in range(nparams)]
        s1 = t.prog.src()
        s2 = p.rewritten.src()
        res['src'], res['src_rewritten'] = s1, s2
        a = _exec(s1, t.entry, nparams, t.pre, t.unroll, stats, names)
        b = _exec(s2, t.entry, nparams, t.pre, t.unroll, stats, names)
        res['accepted'] = [a['accepted'], b['accepted']]
        if not a['accepted'] and not b['accepted']:
            res['status'] = 'both-rejected'
            return res
        if a['accepted'] != b['accepted']:
            res['status'] = 'violation'
            rej = b if a['accepted'] else a
            res['problems'].append({'kind': 'accept-mismatch', 'detail': 'base accepted=%s, rewritten accepted=%s: %s' % (a['accepted'], b['accepted'], rej.get('out', '')[-300:])})
            return res
        res['funcs'] = sorted(set(a['funcs']) | set(b['funcs']))
        res['paths'] = len(a['outcomes']) + len(b['outcomes'])
        solver = a['solver']
        args = a['args']
        pre = a['pre']
        r, wm = solver.check([pre])
        res['witness'] = r == 'sat'
        bound = [o for o in a['outcomes'] + b['outcomes'] if o.kind == 'bound']
        if bound:
            raise Inconclusive('unwinding bound exceeded: %s' % bound[0].detail)
        for o1 in a['outcomes']:
            for o2 in b['outcomes']:
                d = _differ(o1, o2)
                if z3.is_false(z3.simplify(d)):
                    continue
                r, m = solver.check(list(o1.pc) + list(o2.pc) + [d])
                if r == 'unknown':
                    raise Inconclusive('solver unknown on pair obligation')
                if r == 'sat':
                    vals = [m.eval(x, model_completion=True).as_long() for x in args]
                    pr = {'kind': 'pair-mismatch', 'inputs': vals, 'regions': [],
                          'base_predict': tv._il_predict(o1, args, vals), 'rewritten_predict': tv._il_predict(o2, args, vals)}
                    pr['base_predict']['prints'] = tv._il_prints(o1, args, vals)
                    pr['rewritten_predict']['prints'] = tv._il_prints(o2, args, vals)
                    sub = tv._subst(args, vals)
                    for rn, rf in p.regions.items():
                        if z3.is_true(z3.simplify(z3.substitute(rf(args), *sub))):
                            pr['regions'].append(rn)
                    if p.regions:
                        excl = z3.Or(*[rf(args) for rf in p.regions.values()])
                        r2, m2 = solver.check(list(o1.pc) + list(o2.pc) + [d, z3.Not(excl)])
                        pr['outside_regions'] = None if r2 == 'unknown' else (r2 == 'sat')
                        if r2 == 'sat':
                            pr['inputs_outside'] = [m2.eval(x, model_completion=True).as_long() for x in args]
                    res['problems'].append(pr)
        # native replay: both programs on the counterexample; they must differ natively too
        for pr in res['problems']:
            if 'inputs' not in pr:
                continue
            n1 = tv.replay_native(t, pr['inputs'])
            t2 = tv.Template(t.id + '#rw', p.rewritten, entry=t.entry)
            n2 = tv.replay_native(t2, pr['inputs'])
            pr['native_base'], pr['native_rewritten'] = n1, n2
            res['replays'] += 2
            same = (n1.get('kind'), n1.get('ret'), n1.get('prints'), n1.get('stdout') if n1.get('kind') != 'ret' else None) == \
                   (n2.get('kind'), n2.get('ret'), n2.get('prints'), n2.get('stdout') if n2.get('kind') != 'ret' else None)
            pr['confirmed'] = 'not-reproduced' if same else 'native'
            if not same:
                res['replays_ok'] += 2
        if wm is not None and not res['problems']:
            vals = [wm.eval(x, model_completion=True).as_long() for x in args]
            n1 = tv.replay_native(t, vals)
            t2 = tv.Template(t.id + '#rw', p.rewritten, entry=t.entry)
            n2 = tv.replay_native(t2, vals)
            res['replays'] += 2
            res['witness_inputs'] = vals
            res['witness_native'] = [n1, n2]
            sub = tv._subst(args, vals)
            for outs, nat in ((a['outcomes'], n1), (b['outcomes'], n2)):
                for o in outs:
                    if all(z3.is_true(z3.simplify(z3.substitute(c, *sub))) for c in o.pc):
                        pred = tv._il_predict(o, args, vals)
                        pred['prints'] = tv._il_prints(o, args, vals)
                        if o.kind in ('ret', 'panic') and pred.get('ret') != 'undef':
                            ok = tv.agree(pred, nat)
                            res['replays_ok'] += 1 if ok else 0
                            if not ok:
                                res.setdefault('witness_mismatch', []).append({'il': pred, 'native': nat})
                        break
        res['status'] = 'violation' if res['problems'] else 'held'
    except Inconclusive as e:
        res['status'] = 'inconclusive'
        res['reason'] = str(e)
    except Exception as e:
        res['status'] = 'inconclusive'
        res['reason'] = 'internal: %s\n%s' % (e, traceback.format_exc()[-1200:])
    finally:
        res['stats'] = stats.as_dict()
        res['wall_s'] = round(time.time() - t0, 3)
    return res
