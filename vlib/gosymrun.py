"""Drive the gosym engine (Go SSA symbolic interpreter) and replay its models natively with go test -overlay."""
import json
import os
import re
import subprocess
import tempfile
from . import build

VERIF = os.path.dirname(os.path.dirname(os.path.abspath(__file__)))
HARNESS = os.path.join(VERIF, 'harness', 'go')
GOSYM = os.path.join(VERIF, 'bin', 'gosym')
GO126 = '/opt/veriftools/go1.26.8/bin'


def ensure_built():
    if os.path.exists(GOSYM):
        src_m = max(os.path.getmtime(os.path.join(dp, f)) for dp, _, fs in os.walk(os.path.join(VERIF, 'gosym')) for f in fs)
        if os.path.getmtime(GOSYM) >= src_m:
            return
    env = dict(os.environ, GOFLAGS='-mod=mod', GOPROXY='off', GOSUMDB='off', GOTOOLCHAIN='local', PATH=GO126 + ':' + os.environ['PATH'])
    os.makedirs(os.path.join(VERIF, 'bin'), exist_ok=True)
    r = subprocess.run(['go1.26.8', 'build', '-o', GOSYM, '.'], cwd=os.path.join(VERIF, 'gosym'), env=env, capture_output=True, text=True)
    if r.returncode != 0:
        raise build.BuildError('gosym build failed: ' + r.stderr[-2000:])


def overlay_map(extra=None):
    """virtual path under /repo -> real path under /verif/harness/go, for every harness source file."""
    m = {}
    for dp, _, fs in os.walk(HARNESS):
        for f in fs:
            if f.endswith('.go'):
                real = os.path.join(dp, f)
                rel = os.path.relpath(real, HARNESS)
                m[os.path.join(build.REPO, rel)] = real
    if extra:
        m.update(extra)
    return m


def harness_names(pkg_rel):
    names = []
    d = os.path.join(HARNESS, pkg_rel)
    for f in sorted(os.listdir(d)):
        if f.startswith('zz_verif') and f.endswith('.go') and not f.endswith('_test.go'):
            names += re.findall(r'^func (Harness\w+)\(\)', open(os.path.join(d, f)).read(), re.M)
    return names


def run(pkg_path, harnesses, max_paths=20000, timeout_ms=60000, max_instrs=50000000, wall_timeout=1500):
    """Run gosym on harness functions of one package. Returns list of dict(result=..., wall_s=..)."""
    ensure_built()
    w = build.workdir()
    import threading
    ov = os.path.join(w, 'overlay_%d_%d.json' % (os.getpid(), threading.get_ident()))
    with open(ov, 'w') as fh:
        json.dump(overlay_map(), fh)
    env = dict(os.environ, GOFLAGS='-mod=mod', GOPROXY='off', GOTOOLCHAIN='local', PATH=GO126 + ':' + os.environ['PATH'])
    env.pop('GOSUMDB', None)
    from . import runner as _r
    env['VERIF_TIER'] = _r.tier()
    env['CGO_ENABLED'] = '0'   # the embedded-QBE package has a pure-Go variant; cgo files cannot be loaded as SSA
    cmd = [GOSYM, '-dir', build.REPO, '-pkg', pkg_path, '-overlay', ov, '-harness', ','.join(harnesses),
           '-max-paths', str(max_paths), '-timeout-ms', str(timeout_ms), '-max-instrs', str(max_instrs)]
    try:
        r = subprocess.run(cmd, capture_output=True, text=True, env=env, timeout=wall_timeout)
    except subprocess.TimeoutExpired:
        return [{'result': {'harness': h, 'status': 'inconclusive', 'unsupported': ['wall-clock timeout %ds' % wall_timeout], 'stats': {}, 'violations': []}, 'wall_s': wall_timeout} for h in harnesses]
    if r.returncode != 0:
        return [{'result': {'harness': h, 'status': 'inconclusive', 'unsupported': ['gosym failed: ' + r.stderr[-800:]], 'stats': {}, 'violations': []}, 'wall_s': 0} for h in harnesses]
    return json.loads(r.stdout)


_TEST_TMPL = '''package %(pkgname)s

import (
	"fmt"
	"os"
	"strconv"
	"testing"

	"compiler/internal/verifrt"
)

func TestZZVerifReplay(t *testing.T) {
	hs := map[string]func(){%(entries)s}
	name := os.Getenv("VERIF_HARNESS")
	fn := hs[name]
	if fn == nil {
		t.Fatalf("VERIF-REPLAY: unknown harness %%s", name)
	}
	defer func() {
		if r := recover(); r != nil {
			fmt.Printf("VERIF-REPLAY: panic: %%v\\n", r)
			t.Fail()
		}
	}()
	fn()
	if n, _ := strconv.Atoi(os.Getenv("VERIF_REPEAT")); n > 1 {
		// schedule-dependent counterexample: repeat the harness until the assertion fails once
		for i := 1; i < n && len(verifrt.Failures) == 0; i++ {
			fn()
		}
	}
	for _, f := range verifrt.Failures {
		fmt.Printf("VERIF-REPLAY: assertion failed: %%s\\n", f)
	}
	if len(verifrt.Failures) > 0 {
		t.Fail()
	} else {
		fmt.Println("VERIF-REPLAY: ok")
	}
}
'''


def _uses_maporder(pkg_rel, harness):
    """does the source of this harness function call verifrt.MapOrder?"""
    try:
        for f in os.listdir(os.path.join(HARNESS, pkg_rel)):
            if f.endswith('.go'):
                txt = open(os.path.join(HARNESS, pkg_rel, f)).read()
                m = re.search(r'^func %s\(\) \{.*?^\}' % re.escape(harness), txt, re.M | re.S)
                if m and 'verifrt.MapOrder(' in m.group(0):
                    return True
    except OSError:
        pass
    return False


def replay(pkg_path, pkg_rel, harness, model, stress=True):
    """Run the harness natively on a model.  Returns dict(kind= ok|assert|panic|assume|error, detail)."""
    w = build.workdir()
    d = tempfile.mkdtemp(prefix='replay', dir=w)
    names = harness_names(pkg_rel)
    pkgname = None
    for f in os.listdir(os.path.join(HARNESS, pkg_rel)):
        if f.endswith('.go'):
            pkgname = re.search(r'^package (\w+)', open(os.path.join(HARNESS, pkg_rel, f)).read(), re.M).group(1)
            break
    tf = os.path.join(d, 'zz_verif_replay_test.go')
    host_rel = pkg_rel
    if os.path.isdir(os.path.join(build.REPO, pkg_rel)):
        open(tf, 'w').write(_TEST_TMPL % {'pkgname': pkgname, 'entries': ', '.join('"%s": %s' % (n, n) for n in names)})
    else:
        # overlay-only package: go test needs a real directory to run in, so the wrapper is an external test of a small
        # existing package that imports the overlay package
        host_rel = 'internal/tokens'
        txt = _TEST_TMPL % {'pkgname': 'tokens_test', 'entries': ', '.join('"%s": zzh.%s' % (n, n) for n in names)}
        txt = txt.replace('"compiler/internal/verifrt"\n', '"compiler/internal/verifrt"\n\tzzh "%s"\n' % pkg_path)
        open(tf, 'w').write(txt)
    ovm = overlay_map({os.path.join(build.REPO, host_rel, 'zz_verif_replay_test.go'): tf})
    ovf = os.path.join(d, 'ov.json')
    json.dump({'Replace': ovm}, open(ovf, 'w'))
    mf = os.path.join(d, 'model.json')
    json.dump(model, open(mf, 'w'))
    env = build.goenv()
    env['VERIF_MODEL'] = mf
    env['VERIF_HARNESS'] = harness
    if stress and any(k.startswith('sched') for k in model):
        env['VERIF_REPEAT'] = '30000'     # the counterexample depends on the schedule: stress replay
    env['CGO_ENABLED'] = '0'
    from . import runner as _r
    env['VERIF_TIER'] = _r.tier()
    r = subprocess.run(['go', 'test', '-v', '-vet=off', '-count=1', '-overlay', ovf, '-run', 'TestZZVerifReplay', './' + host_rel],
                       cwd=build.REPO, env=env, capture_output=True, text=True, timeout=600)
    out = r.stdout + r.stderr
    if stress and 'VERIF-REPLAY: ok' in out and 'VERIF_REPEAT' not in env and _uses_maporder(pkg_rel, harness):
        # the harness fixes the iteration order of Go maps symbolically (verifrt.MapOrder); natively Go randomises it,
        # so the counterexample is order-dependent: repeat the harness until the assertion fails once
        env['VERIF_REPEAT'] = '3000'
        r = subprocess.run(['go', 'test', '-v', '-vet=off', '-count=1', '-overlay', ovf, '-run', 'TestZZVerifReplay', './' + host_rel],
                           cwd=build.REPO, env=env, capture_output=True, text=True, timeout=600)
        out = r.stdout + r.stderr
    if os.environ.get('VERIF_REPLAY_RAW'):
        return {'kind': 'raw', 'detail': out}
    if 'VERIF-REPLAY: ok' in out:
        return {'kind': 'ok'}
    m = re.search(r'VERIF-REPLAY: assertion failed: (.*)', out)
    if m:
        return {'kind': 'assert', 'detail': m.group(1)}
    m = re.search(r'VERIF-REPLAY: panic: (.*)', out)
    if m:
        if 'assumption false' in m.group(1):
            return {'kind': 'assume', 'detail': m.group(1)}
        return {'kind': 'panic', 'detail': m.group(1)}
    return {'kind': 'error', 'detail': out[-600:]}
