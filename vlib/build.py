"""Build products from /repo's *current working tree* into a scratch directory (removed at exit)."""
import atexit
import os
import shutil
import subprocess
import tempfile
import re

REPO = os.environ.get('VERIF_REPO', '/repo')
_ANSI = re.compile(r'\x1b\[[0-9;]*m')

_work = None


def workdir():
    global _work
    if _work is None:
        base = os.environ.get('VERIF_WORK_BASE') or tempfile.gettempdir()
        _work = tempfile.mkdtemp(prefix='verif-work-', dir=base)
        if not os.environ.get('VERIF_KEEP_WORK'):
            atexit.register(lambda: shutil.rmtree(_work, ignore_errors=True))
    return _work


def strip_ansi(s):
    return _ANSI.sub('', s)


def goenv():
    e = dict(os.environ)
    e.setdefault('GOFLAGS', '-mod=mod')
    e['GOPROXY'] = 'off'
    e.pop('GOSUMDB', None)  # GOSUMDB=off breaks the cached go1.25.4 toolchain switch /repo's go.mod asks for
    e['NO_COLOR'] = '1'
    return e


class BuildError(Exception):
    pass


_ferret = None


def build_ferret():
    """Copy the working tree, build libferret_runtime.a and the ferret binary.  Returns path of the binary."""
    global _ferret
    if _ferret:
        return _ferret
    w = workdir()
    src = os.path.join(w, 'src')
    subprocess.run(['rsync', '-a', '--exclude', '.git', '--exclude', '/bin', '--exclude', '/gen_keep', REPO + '/', src + '/'], check=True)
    r = subprocess.run(['go', 'run', './tools'], cwd=src, env=goenv(), capture_output=True, text=True)
    if r.returncode != 0:
        raise BuildError('runtime build failed: ' + strip_ansi(r.stdout + r.stderr)[-2000:])
    r = subprocess.run(['go', 'build', '-o', 'bin/ferret', '.'], cwd=src, env=goenv(), capture_output=True, text=True)
    if r.returncode != 0:
        raise BuildError('compiler build failed: ' + strip_ansi(r.stdout + r.stderr)[-2000:])
    _ferret = os.path.join(src, 'bin', 'ferret')
    return _ferret


class Compiled:
    def __init__(self):
        self.rc = None
        self.out = ''
        self.exe = None
        self.il = None     # text of the module's QBE IL
        self.wasm = None   # path
        self.dir = None
        self.diag_errors = 0


_cc = [0]


def compile_fer(text, target='native', name=None, keep=True):
    """Compile Ferret source text with the freshly built compiler.  Returns Compiled."""
    fer = build_ferret()
    _cc[0] += 1
    d = os.path.join(workdir(), 'c%d_%d' % (os.getpid(), _cc[0]))
    os.makedirs(d)
    modname = name or 'm'
    srcp = os.path.join(d, modname + '.fer')
    with open(srcp, 'w') as f:
        f.write(text)
    c = Compiled()
    c.dir = d
    if target == 'native':
        outp = os.path.join(d, 'out')
        cmd = [fer, '-keep-gen', '-o', outp, srcp]
    elif target == 'wasm':
        outp = os.path.join(d, 'out.wasm')
        cmd = [fer, '-target', 'wasm', '-o', outp, srcp]
    elif target == 'check':
        outp = None
        cmd = [fer, '-t', srcp]
    r = subprocess.run(cmd, cwd=d, capture_output=True, text=True, env=goenv(), timeout=120)
    c.rc = r.returncode
    c.out = strip_ansi(r.stdout + r.stderr)
    c.diag_errors = len(re.findall(r'^error', c.out, re.M))
    if target == 'native':
        if os.path.exists(outp):
            c.exe = outp
        gen = os.path.join(d, 'gen')
        if os.path.isdir(gen):
            for fn in os.listdir(gen):
                if fn.endswith('.ssa') and not fn.startswith('std_') and fn.endswith('_' + modname + '.ssa'):
                    c.il = open(os.path.join(gen, fn)).read()
            if c.il is None:
                cands = [fn for fn in os.listdir(gen) if fn.endswith('.ssa') and not fn.startswith('std_')]
                if len(cands) == 1:
                    c.il = open(os.path.join(gen, cands[0])).read()
    elif target == 'wasm':
        if os.path.exists(outp):
            c.wasm = outp
    return c


def cleanup(c):
    shutil.rmtree(c.dir, ignore_errors=True)


def run_exe(path, timeout=10, pty=False):
    """Run a produced executable; returns (exit status, stdout, stderr).  With pty=True stdout is a pseudo-terminal
    (line buffered, so lines printed before an abort() are delivered); the program is started directly, not through a
    shell, so no shell job-control message ("Aborted") is mixed into the output."""
    if pty:
        import pty as _pty
        import select
        import time as _time
        master, slave = _pty.openpty()
        p = subprocess.Popen([path], stdin=subprocess.DEVNULL, stdout=slave, stderr=subprocess.PIPE, close_fds=True)
        os.close(slave)
        chunks = []
        deadline = _time.time() + timeout
        err = b''
        try:
            while True:
                left = deadline - _time.time()
                if left <= 0:
                    p.kill()
                    raise subprocess.TimeoutExpired(path, timeout)
                r, _, _ = select.select([master], [], [], min(left, 0.5))
                if master in r:
                    try:
                        d = os.read(master, 65536)
                    except OSError:
                        d = b''
                    if not d:
                        break
                    chunks.append(d)
                elif p.poll() is not None:
                    # process ended and nothing more to read
                    r, _, _ = select.select([master], [], [], 0.05)
                    if master not in r:
                        break
            err = p.stderr.read() if p.stderr else b''
            p.wait(timeout=5)
        finally:
            os.close(master)
            if p.stderr:
                p.stderr.close()
        rc = p.returncode
        if rc is not None and rc < 0:
            rc = 128 - rc
        return rc, b''.join(chunks).decode(errors='replace').replace('\r\n', '\n'), err.decode(errors='replace')
    r = subprocess.run([path], capture_output=True, text=True, timeout=timeout)
    return r.returncode, r.stdout, r.stderr
