"""Shared check runner: evidence files, known findings, VIOLATION / KNOWN-FINDING lines, exit codes.

Exit codes: 0 held (possibly with KNOWN-FINDING lines), 1 violation (VIOLATION line), 2 inconclusive."""
import json
import multiprocessing as mp
import os
import re
import sys
import time

VERIF = os.path.dirname(os.path.dirname(os.path.abspath(__file__)))
FINDINGS = os.path.join(VERIF, 'known_findings.json')


def tier():
    t = os.environ.get('VERIF_TIER', 'quick')
    for i, a in enumerate(sys.argv):
        if a == '--tier' and i + 1 < len(sys.argv):
            t = sys.argv[i + 1]
    return t if t in ('quick', 'thorough') else 'quick'


def seed():
    try:
        return int(os.environ.get('VERIF_SEED', '0'))
    except ValueError:
        return 0


def load_findings(prop):
    if not os.path.exists(FINDINGS):
        return []
    d = json.load(open(FINDINGS))
    return [f for f in d.get('findings', []) if f['property'] == prop]


class Report:
    """Collects the verdicts of one check run and turns them into output lines, evidence and the exit code."""

    def __init__(self, prop, level, tier_, check_name=None):
        self.prop = prop
        self.level = level
        self.tier = tier_
        self.t0 = time.time()
        self.violations = []     # dict(obligation, what, replay(dict), signature)
        self.known = {}          # finding id -> list of obligations matched
        self.inconclusive = []   # (obligation, reason)
        self.findings = load_findings(prop)
        self.coverage = {}
        self.assumptions = []
        self.samples = []
        self.lines = []

    def match_finding(self, obligation, kind, regions=(), outside=False, extra=None):
        for f in self.findings:
            m = f.get('match', {})
            if 'obligation_re' in m and not re.search(m['obligation_re'], obligation):
                continue
            if 'kinds' in m and kind not in m['kinds']:
                continue
            if 'region' in m:
                if m['region'] not in regions or outside:
                    continue
            if 'extra' in m and m['extra'] != extra:
                continue
            return f
        return None

    def violation(self, obligation, what, kind='mismatch', regions=(), outside=False, replay=None, extra=None):
        f = self.match_finding(obligation, kind, regions, outside, extra)
        if f is not None:
            self.known.setdefault(f['id'], []).append(obligation)
            return f['id']
        self.violations.append({'obligation': obligation, 'what': what, 'kind': kind, 'replay': replay})
        return None

    def inconc(self, obligation, reason):
        self.inconclusive.append((obligation, reason))

    def finish(self, coverage, assumptions, max_inconclusive=0):
        wall = time.time() - self.t0
        rdir = os.path.join(VERIF, 'replays', self.prop + ('-exp%d' % os.getpid() if os.environ.get('VERIF_NO_EVIDENCE') else ''))
        rc = 0
        out = []
        for fid, obls in sorted(self.known.items()):
            f = [x for x in self.findings if x['id'] == fid][0]
            out.append('KNOWN-FINDING: property=%s %s [%s; %d obligation(s), e.g. %s]' % (self.prop, f['what'], fid, len(obls), obls[0]))
        import shutil
        shutil.rmtree(rdir, ignore_errors=True)
        if self.violations:
            os.makedirs(rdir, exist_ok=True)
            for i, v in enumerate(self.violations[:60]):
                safe = re.sub(r'[^A-Za-z0-9_.-]+', '_', v['obligation'])[:80]
                p = os.path.join(rdir, '%s.json' % safe)
                with open(p, 'w') as fh:
                    json.dump(v, fh, indent=1, default=str)
                out.append('VIOLATION property=%s replay=%s' % (self.prop, p))
                out.append('  # %s: %s' % (v['obligation'], v['what']))
            rc = 1
        elif len(self.inconclusive) > max_inconclusive:
            rc = 2
        for o, r in self.inconclusive[:10]:
            sys.stderr.write('INCONCLUSIVE %s: %s\n' % (o, str(r)[:400]))
        cov = dict(coverage)
        cov.setdefault('samples', self.samples[:5] or [{'note': 'no sample recorded'}])
        cov['known_findings_matched'] = {k: len(v) for k, v in self.known.items()}
        cov['inconclusive'] = len(self.inconclusive)
        cov['inconclusive_reasons'] = sorted({str(r)[:160] for _, r in self.inconclusive})[:8]
        ev = {'property_id': self.prop, 'tier': self.tier, 'seed': seed(), 'level': self.level, 'coverage': cov,
              'assumptions': assumptions, 'wall_s': round(wall, 2), 'violations': len(self.violations), 'exit_code': rc}
        evdir = os.path.join(VERIF, 'evidence')
        if os.environ.get('VERIF_NO_EVIDENCE'):
            # experiments against a modified copy of the repository (seeded changes) must not overwrite the evidence
            import tempfile
            evdir = tempfile.mkdtemp(prefix='verif-ev-')
        os.makedirs(evdir, exist_ok=True)
        with open(os.path.join(evdir, self.prop + '.json'), 'w') as fh:
            json.dump(ev, fh, indent=1, default=str)
        for l in out:
            print(l)
        print('%s %s: %s in %.1fs (violations=%d known=%d inconclusive=%d)' % (
            self.prop, self.tier, {0: 'HELD', 1: 'VIOLATED', 2: 'INCONCLUSIVE'}[rc], wall, len(self.violations), len(self.known), len(self.inconclusive)))
        return rc


_POOL_ITEMS = None
_POOL_FN = None


def _call_idx(i):
    return _POOL_FN(_POOL_ITEMS[i])


def pool_map(fn, items, procs=None):
    """Map fn over items in forked worker processes (items/fn are inherited through fork, never pickled)."""
    global _POOL_ITEMS, _POOL_FN
    procs = procs or int(os.environ.get('VERIF_PROCS', str(min(14, (os.cpu_count() or 4)))))
    if procs <= 1 or len(items) <= 1:
        return [fn(x) for x in items]
    _POOL_ITEMS, _POOL_FN = items, fn
    ctx = mp.get_context('fork')
    with ctx.Pool(procs) as p:
        return p.map(_call_idx, range(len(items)), chunksize=1)
