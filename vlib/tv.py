"""Translation validation driver: template program -> real compiler -> IL -> symbolic execution -> compare with the
reference evaluator, for all values of the template's parameters."""
import json
import os
import time
import traceback
import z3

from lirsym import qbe
from lirsym.core import Solver, Stats, Inconclusive
from lirsym.rtsum import QBE_SUMMARIES
from templates import lang
from . import build


class Template:
    def __init__(self, tid, prog, entry='t', pre=None, family='', expect='accept', regions=None, unroll=4, note='', meta=None):
        self.id = tid
        self.prog = prog
        self.entry = entry
        self.pre = pre            # function(args list of BV64) -> z3 Bool
        self.family = family
        self.expect = expect      # 'accept': rejection is a violation; 'any': rejection is fine
        self.regions = regions or {}   # name -> function(args) -> z3 Bool  (known-finding regions)
        self.unroll = unroll
        self.note = note
        self.meta = meta or {}


def lit64(v):
    """Ferret source for a 64-bit signed literal."""
    if v >= 1 << 63:
        v -= 1 << 64
    if v == -(1 << 63):
        return '(0 - 9223372036854775807 - 1)'
    if v < 0:
        return '(0 - %d)' % (-v)
    return str(v)


def main_for(entry, vals):
    return '    io::Println(%s(%s));\n' % (entry, ', '.join(lit64(v) for v in vals))


def _payload_matches(ty, v, item):
    kind, term = item
    if isinstance(ty, lang.BoolT):
        return term == v if kind == 'bool' else z3.BoolVal(False)
    if isinstance(ty, lang.IntT):
        want = ('byte8' if isinstance(ty, lang.ByteT) else ('i' if ty.signed else 'u') + str(ty.bits))
        if kind != want:
            return z3.BoolVal(False)
        return term == v
    if isinstance(ty, lang.StrT):
        return z3.BoolVal(kind == 'str' and term == v)
    return z3.BoolVal(False)


def compare(solver, outcomes, ref, pre, excl=None):
    """Compare IL path outcomes against the reference result.  Returns list of problems:
    dict(kind, detail, model) ; kind in mismatch|falloff|oob|trap|panic_mismatch|bound|..."""
    problems = []
    base = []
    if excl is not None:
        base.append(z3.Not(excl))
    for o in outcomes:
        pc = list(o.pc) + base
        il_prints = [e for e in o.events if e[0] == 'print']
        # resolve reference event guards under this path (split when undetermined)
        def cond_bad():
            if o.kind == 'ret':
                bad = [ref.panicked, ref.trapped]
                if ref.ret is not None:
                    if o.ret is None:
                        return z3.BoolVal(True)
                    bad.append(o.ret != ref.ret)
                return z3.Or(*bad)
            if o.kind == 'panic':
                return z3.Not(ref.panicked)
            if o.kind == 'trap':
                return z3.Not(ref.trapped)
            return z3.BoolVal(True)
        bad = cond_bad()
        # events: build "reference print sequence equals IL print sequence" as a formula
        ev_ok = _events_formula(il_prints, ref.events)
        bad = z3.Or(bad, z3.Not(ev_ok))
        r, m = solver.check(pc + [z3.Not(ref.exceeded), bad])
        if r == 'unknown':
            problems.append({'kind': 'unknown', 'detail': 'solver unknown on obligation for path %s' % o.kind, 'model': None, 'outcome': o})
        elif r == 'sat':
            problems.append({'kind': o.kind if o.kind != 'ret' else 'mismatch', 'detail': o.detail, 'model': m, 'outcome': o})
    return problems


def _events_formula(il_prints, ref_events):
    """Formula: the IL path's print sequence equals the reference's guarded print sequence."""
    ref_prints = [(g, p) for (g, k, p) in ref_events if k == 'print']
    n = len(il_prints)
    # position of each reference event = number of earlier active events; encode by dynamic programming over counts.
    # match(i, j): ref events j.. produce IL events i..
    memo = {}

    def match(i, j):
        key = (i, j)
        if key in memo:
            return memo[key]
        if j == len(ref_prints):
            r = z3.BoolVal(i == n)
        else:
            g, (ty, v) = ref_prints[j]
            skip = z3.And(z3.Not(g), match(i, j + 1))
            if i < n and len(il_prints[i][1]) == 1:
                take = z3.And(g, _payload_matches(ty, v, il_prints[i][1][0]), match(i + 1, j + 1))
                r = z3.Or(skip, take)
            else:
                r = skip
        memo[key] = r
        return r
    return match(0, 0)


def run_template(t, target='qbe'):
    """Compile and check one template.  Returns a JSON-able result dict (plus 'stats')."""
    t0 = time.time()
    res = {'id': t.id, 'family': t.family, 'status': None, 'problems': [], 'stats': None, 'paths': 0,
           'funcs': [], 'ninstr': 0, 'wall_s': 0, 'src': None}
    stats = Stats()
    try:
        src = t.prog.src()
        res['src'] = src
        c = build.compile_fer(src)
        if c.rc != 0 or c.il is None or c.exe is None:
            res['status'] = 'rejected'
            res['compiler_rc'] = c.rc
            res['compiler_out'] = c.out[-600:]
            res['exe'] = c.exe is not None
            res['silent'] = (c.rc == 0)
            return res
        mod = qbe.parse(c.il)
        fname = '$' + t.entry
        if fname not in mod.funcs:
            raise Inconclusive('function %s not in IL' % fname)
        fn = mod.funcs[fname]
        args = [z3.BitVec('x%d' % i, 64) for i in range(len(fn.params))]
        pre = t.pre(args) if t.pre else z3.BoolVal(True)
        solver = Solver(timeout_ms=int(os.environ.get('VERIF_QUERY_MS', '20000')), stats=stats)
        ex = qbe.Executor(mod, QBE_SUMMARIES, solver=solver, unroll=t.unroll)
        outcomes = ex.run(fname, args, pre=pre)
        res['paths'] = len(outcomes)
        res['funcs'] = sorted({fname} | ex.encoded)
        res['ninstr'] = sum(mod.funcs[f].ninstr for f in res['funcs'] if f in mod.funcs)
        res['summaries'] = sorted(x for x in ex.called if x not in mod.funcs)
        rv = lang.RefEval(t.prog, unroll=t.unroll)
        f = t.prog.func(t.entry)
        rargs = []
        for (pn, pt), a in zip(f.params, args):
            rargs.append(a)
        ref = rv.run(t.entry, rargs)
        # reference unwinding check: the precondition must keep the reference inside its bounds
        if t.meta.get('nonterm_ok'):
            # loop conditions of this family are loop-invariant: a run that exceeds the unrolling never terminates,
            # and non-terminating runs are outside the obligation ("if it returns at all")
            outcomes = [o for o in outcomes if o.kind != 'bound']
        else:
            r, _ = solver.check([pre, ref.exceeded])
            if r != 'unsat':
                raise Inconclusive('reference evaluator bound can be exceeded under the precondition')
        # vacuity witness: at least one path is feasible (they are, by construction) and pre is satisfiable
        r, wm = solver.check([pre])
        res['witness'] = (r == 'sat')
        probs = compare(solver, outcomes, ref, pre)
        out = []
        for p in probs:
            d = {'kind': p['kind'], 'detail': str(p['detail']) if p['detail'] is not None else None}
            if p['model'] is not None:
                vals = [p['model'].eval(a, model_completion=True).as_long() for a in args]
                d['inputs'] = vals
                d['regions'] = []
                sub = _subst(args, vals)
                for rn, rf in t.regions.items():
                    if z3.is_true(z3.simplify(z3.substitute(rf(args), *sub))):
                        d['regions'].append(rn)
                # does a violation exist outside all known regions?
                if t.regions:
                    excl = z3.Or(*[rf(args) for rf in t.regions.values()])
                    p2 = compare(solver, [p['outcome']], ref, pre, excl=excl)
                    if p2 and p2[0]['kind'] == 'unknown':
                        d['outside_regions'] = None
                    else:
                        d['outside_regions'] = bool(p2)
                    if p2 and p2[0]['model'] is not None:
                        d['inputs_outside'] = [p2[0]['model'].eval(a, model_completion=True).as_long() for a in args]
                d['ref_expect'] = _ref_expect(ref, args, vals)
                d['il_predict'] = _il_predict(p['outcome'], args, vals)
                d['il_predict']['prints'] = _il_prints(p['outcome'], args, vals)
            out.append(d)
        res['problems'] = out
        if any(p['kind'] in ('unknown',) for p in out):
            res['status'] = 'inconclusive'
            res['reason'] = 'solver unknown'
        elif any(p['kind'] == 'bound' for p in out):
            res['status'] = 'inconclusive'
            res['reason'] = 'unwinding bound exceeded: ' + str([p['detail'] for p in out if p['kind'] == 'bound'][:1])
        elif out:
            res['status'] = 'violation'
        else:
            res['status'] = 'held'
        # witness model for encoder validation (replayed by the caller)
        if wm is not None:
            vals = [wm.eval(a, model_completion=True).as_long() for a in args]
            res['witness_inputs'] = vals
            res['witness_ref'] = _ref_expect(ref, args, vals)
            sub = _subst(args, vals)
            for o in outcomes:
                if all(z3.is_true(z3.simplify(z3.substitute(c, *sub))) for c in o.pc):
                    res['witness_il'] = _il_predict(o, args, vals)
                    res['witness_il']['prints'] = _il_prints(o, args, vals)
                    break
    except lang.Unsupported as e:
        res['status'] = 'inconclusive'
        res['reason'] = 'reference: %s' % e
    except Inconclusive as e:
        res['status'] = 'inconclusive'
        res['reason'] = str(e)
    except Exception as e:
        res['status'] = 'inconclusive'
        res['reason'] = 'internal: %s\n%s' % (e, traceback.format_exc()[-1500:])
    finally:
        res['stats'] = stats.as_dict()
        res['wall_s'] = round(time.time() - t0, 3)
    return res


def _subst(args, vals):
    return [(a, z3.BitVecVal(v, 64)) for a, v in zip(args, vals)]


def _ref_expect(ref, args, vals):
    sub = _subst(args, vals)
    def ev(t):
        return z3.simplify(z3.substitute(t, *sub))
    if z3.is_true(ev(ref.panicked)):
        kind = 'panic'
    elif z3.is_true(ev(ref.trapped)):
        kind = 'trap'
    else:
        kind = 'ret'
    out = {'kind': kind}
    prints = []
    for g, k, (ty, v) in ref.events:
        if k == 'print' and z3.is_true(ev(g)):
            prints.append(_fmt(ty, ev(v)))
    out['prints'] = prints
    if kind == 'ret' and ref.ret is not None and z3.is_bv(ref.ret):
        r = ev(ref.ret)
        if z3.is_bv_value(r):
            out['ret'] = r.as_signed_long()
    return out


def _fmt(ty, v):
    if isinstance(ty, lang.BoolT):
        return 'true' if z3.is_true(v) else 'false'
    if isinstance(ty, lang.IntT):
        if z3.is_bv_value(v):
            return str(v.as_signed_long() if ty.signed else v.as_long())
    return str(v)


def _il_predict(o, args, vals):
    sub = _subst(args, vals)
    out = {'kind': o.kind}
    if o.kind == 'ret' and o.ret is not None:
        r = z3.simplify(z3.substitute(o.ret, *sub))
        if z3.is_bv_value(r):
            out['ret'] = r.as_signed_long()
        else:
            out['ret'] = 'undef'
    if o.kind == 'panic':
        out['msg'] = o.detail.decode() if isinstance(o.detail, bytes) else str(o.detail)
    return out


def _il_prints(o, args, vals):
    sub = _subst(args, vals)
    out = []
    for e in o.events:
        if e[0] != 'print':
            continue
        parts = []
        for kind, term in e[1]:
            if kind == 'str':
                parts.append(term.decode(errors='replace'))
                continue
            v = z3.simplify(z3.substitute(term, *sub))
            if kind == 'bool':
                parts.append('true' if z3.is_true(v) else 'false')
            elif z3.is_bv_value(v):
                parts.append(str(v.as_signed_long() if kind[0] == 'i' else v.as_long()))
            else:
                parts.append('undef')
        out.append(' '.join(parts))
    return out


def agree(pred, native):
    """Does a prediction (ref_expect / il_predict) agree with the native run?"""
    if pred is None:
        return False
    pk = pred['kind']
    nk = native['kind']
    if pk == 'ret':
        if nk != 'ret':
            return False
        if 'ret' in pred and pred['ret'] != 'undef' and native.get('ret') != pred['ret']:
            return False
        if 'prints' in pred and [str(x) for x in pred['prints']] != native.get('prints', []):
            return False
        return True
    if pk == 'panic':
        if nk != 'panic':
            return False
        if 'prints' in pred and [str(x) for x in pred['prints']] != native.get('stdout', []):
            return False
        return True
    if pk == 'trap':
        return nk == 'crash'
    return False


def replay_native(t, vals):
    """Run the template with concrete inputs through the real compiler + linker; returns dict(kind, ret, stdout)."""
    src = t.prog.src(main_body=main_for(t.entry, vals))
    c = build.compile_fer(src)
    if c.exe is None:
        return {'kind': 'nobuild', 'rc': c.rc, 'out': c.out[-400:]}
    try:
        rc, so, se = build.run_exe(c.exe, pty=True)
    except Exception as e:
        return {'kind': 'timeout', 'err': str(e)}
    lines = [l for l in so.split('\n') if l != '']
    if rc == 0:
        out = {'kind': 'ret', 'stdout': lines}
        if lines:
            try:
                out['ret'] = int(lines[-1])
                out['prints'] = lines[:-1]
            except ValueError:
                pass
        return out
    txt = so + se
    if 'panic' in txt:
        return {'kind': 'panic', 'rc': rc, 'stdout': [l for l in lines if not l.startswith('panic')], 'msg': txt.strip()[-200:]}
    return {'kind': 'crash', 'rc': rc, 'stdout': lines, 'msg': txt.strip()[-200:]}
