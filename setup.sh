#!/bin/bash
# Offline setup: build the Go-side engine (gosym) from the module cache, syntax-check the Python side.
set -e
cd "$(dirname "$0")"
export GOFLAGS=-mod=mod GOPROXY=off GOSUMDB=off GOTOOLCHAIN=local
mkdir -p bin
(cd gosym && PATH=/opt/veriftools/go1.26.8/bin:$PATH go1.26.8 build -o ../bin/gosym . )
python3-vt -m compileall -q vlib lirsym templates checks >/dev/null
echo setup ok
