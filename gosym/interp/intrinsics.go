package interp

import (
	"fmt"
	"math"
	"os"
	"path/filepath"
	"go/token"
	"go/types"
	"math/big"
	"strconv"
	"strings"
)

type intrinsic func(fr *frame, args []value) value

var intrinsics map[string]intrinsic

// VerifrtPath is the import path of the harness support package.
var VerifrtPath = "compiler/internal/verifrt"

func init() {
	v := VerifrtPath + "."
	intrinsics = map[string]intrinsic{
		v + "Int64":   func(fr *frame, a []value) value { return E.Fresh(a[0].(string), 64) },
		v + "Uint64":  func(fr *frame, a []value) value { return E.Fresh(a[0].(string), 64) },
		v + "Int":     func(fr *frame, a []value) value { return E.Fresh(a[0].(string), 64) },
		v + "Int32":   func(fr *frame, a []value) value { return E.Fresh(a[0].(string), 32) },
		v + "Uint32":  func(fr *frame, a []value) value { return E.Fresh(a[0].(string), 32) },
		v + "Int16":   func(fr *frame, a []value) value { return E.Fresh(a[0].(string), 16) },
		v + "Uint16":  func(fr *frame, a []value) value { return E.Fresh(a[0].(string), 16) },
		v + "Int8":    func(fr *frame, a []value) value { return E.Fresh(a[0].(string), 8) },
		v + "Uint8":   func(fr *frame, a []value) value { return E.Fresh(a[0].(string), 8) },
		v + "Bool":    func(fr *frame, a []value) value { return E.Fresh(a[0].(string), 0) },
		v + "Choice":  rtChoice,
		v + "Bytes":   rtBytes,
		v + "String":  func(fr *frame, a []value) value { return normStr(rtBytes(fr, a).([]value)) },
		v + "BigInt":  rtBigInt,
		v + "Assume":  func(fr *frame, a []value) value { E.Assume(toSym(a[0], 0)); return nil },
		v + "Assert":  rtAssert,
		v + "Note":    func(fr *frame, a []value) value { return nil },
		v + "Interleave": rtInterleave,
		v + "Threads":    func(fr *frame, a []value) value { return runSession(fr, []value{a[0]}) },
		v + "DelayBound": func(fr *frame, a []value) value { E.preemptBound = int(asInt64(a[0])); return nil },
		v + "SingleProc": func(fr *frame, a []value) value { return nil },
		v + "StepBudget": func(fr *frame, a []value) value {
			n := asInt64(a[0])
			if n <= 0 {
				E.budgetAt = 0
			} else {
				E.budgetAt = E.instrs + n
				E.budgetMsg = a[1].(string)
			}
			return nil
		},
		v + "Symbolic": func(fr *frame, a []value) value { return true },
		v + "MapOrder": func(fr *frame, a []value) value { E.mapOrder = int(asInt64(a[0])); return nil },
		v + "Thorough": func(fr *frame, a []value) value { return os.Getenv("VERIF_TIER") == "thorough" },
		v + "CaptureFile": func(fr *frame, a []value) value { var p *value; return p },
		v + "TakeOutput": func(fr *frame, a []value) value {
			r := normStr(E.captured)
			E.captured = nil
			return r
		},
		"strconv.Itoa":      func(fr *frame, a []value) value { return fmtInt(a[0], true) },
		"strconv.FormatInt": func(fr *frame, a []value) value {
			if b, ok := a[1].(int); !ok || b != 10 {
				if _, sym := a[0].(symv); sym {
					panic(pathUnsupported{"FormatInt of a symbolic value in a base other than 10"})
				}
				return strconv.FormatInt(asInt64(a[0]), int(asInt64(a[1])))
			}
			return fmtInt(a[0], true)
		},

		"fmt.Sprintf":  func(fr *frame, a []value) value { return fmtSprintf(fr, a[0], a[1].([]value)) },
		"fmt.Errorf":   fmtErrorf,
		"fmt.Sprint":   func(fr *frame, a []value) value { return fmtSprint(fr, a[0].([]value), false) },
		"fmt.Sprintln": func(fr *frame, a []value) value { return fmtSprint(fr, a[0].([]value), true) },
		"fmt.Fprintf": func(fr *frame, a []value) value {
			s := fmtSprintf(fr, a[1], a[2].([]value))
			return tuple{writeTo(fr, a[0], s), iface{}}
		},
		"fmt.Fprintln": func(fr *frame, a []value) value {
			s := fmtSprint(fr, a[1].([]value), true)
			return tuple{writeTo(fr, a[0], s), iface{}}
		},
		"fmt.Fprint": func(fr *frame, a []value) value {
			s := fmtSprint(fr, a[1].([]value), false)
			return tuple{writeTo(fr, a[0], s), iface{}}
		},
		// sync/atomic on concrete cells: plain read-modify-write (one logical thread; no pre-emption is modelled)
		"sync/atomic.AddInt64":  func(fr *frame, a []value) value { syncPoint("atomic", nil); c := a[0].(*value); n := asInt64(*c) + asInt64(a[1]); *c = n; return n },
		"sync/atomic.AddInt32":  func(fr *frame, a []value) value { c := a[0].(*value); n := int32(asInt64(*c) + asInt64(a[1])); *c = n; return n },
		"sync/atomic.AddUint64": func(fr *frame, a []value) value { c := a[0].(*value); n := uint64(asInt64(*c) + asInt64(a[1])); *c = n; return n },
		"sync/atomic.AddUint32": func(fr *frame, a []value) value { c := a[0].(*value); n := uint32(asInt64(*c) + asInt64(a[1])); *c = n; return n },
		"sync/atomic.LoadInt64":  func(fr *frame, a []value) value { return *a[0].(*value) },
		"sync/atomic.LoadInt32":  func(fr *frame, a []value) value { return *a[0].(*value) },
		"sync/atomic.LoadUint64": func(fr *frame, a []value) value { return *a[0].(*value) },
		"sync/atomic.LoadUint32": func(fr *frame, a []value) value { return *a[0].(*value) },
		"sync/atomic.StoreInt64":  func(fr *frame, a []value) value { *a[0].(*value) = a[1]; return nil },
		"sync/atomic.StoreInt32":  func(fr *frame, a []value) value { *a[0].(*value) = a[1]; return nil },
		"sync/atomic.StoreUint64": func(fr *frame, a []value) value { *a[0].(*value) = a[1]; return nil },
		"sync/atomic.StoreUint32": func(fr *frame, a []value) value { *a[0].(*value) = a[1]; return nil },
		"fmt.Sscanf": func(fr *frame, a []value) value {
			// concrete subject and the format "%d" with one *int64 / *int destination only
			str, ok1 := a[0].(string)
			f, ok2 := a[1].(string)
			args := a[2].([]value)
			if !ok1 || !ok2 || f != "%d" || len(args) != 1 {
				panic(pathUnsupported{"fmt.Sscanf outside the modelled form (concrete text, \"%d\", one destination)"})
			}
			dst, ok := args[0].(iface).v.(*value)
			if !ok || dst == nil {
				panic(pathUnsupported{"fmt.Sscanf destination"})
			}
			var n int64
			cnt, err := fmt.Sscanf(str, "%d", &n)
			if err == nil {
				switch (*dst).(type) {
				case int64:
					*dst = n
				case int:
					*dst = int(n)
				default:
					panic(pathUnsupported{"fmt.Sscanf destination type"})
				}
				return tuple{cnt, iface{}}
			}
			return tuple{cnt, iface{}}   // the caller ignores the error; the destination keeps its value
		},
		"fmt.Println": func(fr *frame, a []value) value { return tuple{0, iface{}} },
		"fmt.Printf":  func(fr *frame, a []value) value { return tuple{0, iface{}} },
		"fmt.Print":   func(fr *frame, a []value) value { return tuple{0, iface{}} },

		"(*strings.Builder).String":      sbString,
		"(*strings.Builder).WriteString": sbWriteString,
		"(*strings.Builder).WriteByte":   sbWriteByte,
		"(*strings.Builder).WriteRune":   sbWriteRune,
		"(*strings.Builder).Write":       sbWrite,
		"(*strings.Builder).Len":         func(fr *frame, a []value) value { return len(sbBuf(a[0])) },
		"(*strings.Builder).Grow":        func(fr *frame, a []value) value { return nil },
		"(*strings.Builder).Reset":       func(fr *frame, a []value) value { sbSet(a[0], nil); return nil },
		"strings.Clone":                  func(fr *frame, a []value) value { return a[0] },

		"internal/bytealg.IndexByteString":     func(fr *frame, a []value) value { return idxByte(strBytes(a[0]), a[1]) },
		"internal/bytealg.IndexByte":           func(fr *frame, a []value) value { return idxByte(a[0].([]value), a[1]) },
		"internal/bytealg.LastIndexByteString": func(fr *frame, a []value) value { return lastIdxByte(strBytes(a[0]), a[1]) },
		"internal/bytealg.LastIndexByte":       func(fr *frame, a []value) value { return lastIdxByte(a[0].([]value), a[1]) },
		"internal/bytealg.CountString":         func(fr *frame, a []value) value { return countByte(strBytes(a[0]), a[1]) },
		"internal/bytealg.Count":               func(fr *frame, a []value) value { return countByte(a[0].([]value), a[1]) },
		"internal/bytealg.IndexString":         func(fr *frame, a []value) value { return idxBytes(strBytes(a[0]), strBytes(a[1])) },
		"internal/bytealg.Index":               func(fr *frame, a []value) value { return idxBytes(a[0].([]value), a[1].([]value)) },
		"internal/bytealg.Equal": func(fr *frame, a []value) value {
			return condBool(boolOrSym(strEq(symstr{a[0].([]value)}, symstr{a[1].([]value)})))
		},
		"internal/bytealg.Compare": func(fr *frame, a []value) value {
			x, y := symstr{a[0].([]value)}, symstr{a[1].([]value)}
			if condBool(boolOrSym(strLess(x, y))) {
				return -1
			}
			if condBool(boolOrSym(strEq(x, y))) {
				return 0
			}
			return 1
		},
		"internal/bytealg.CompareString": func(fr *frame, a []value) value {
			if condBool(boolOrSym(strLess(a[0], a[1]))) {
				return -1
			}
			if condBool(boolOrSym(strEq(a[0], a[1]))) {
				return 0
			}
			return 1
		},
		"internal/bytealg.MakeNoZero": func(fr *frame, a []value) value {
			n := int(asInt64(a[0]))
			s := make([]value, n)
			for i := range s {
				s[i] = uint8(0)
			}
			return s
		},
		"internal/bytealg.Cutover":    func(fr *frame, a []value) value { return 1 << 30 },
		"internal/stringslite.Clone":  func(fr *frame, a []value) value { return a[0] },
		"strings.Index":               func(fr *frame, a []value) value { return idxBytes(strBytes(a[0]), strBytes(a[1])) },
		"strings.IndexByte":           func(fr *frame, a []value) value { return idxByte(strBytes(a[0]), a[1]) },
		"strings.Count":               nil, // use the Go source
		"strings.EqualFold":           nil,
		"strings.Replace":             nil,
		"strings.ToLower":             nil,
		"strconv.Atoi":                nil,
		"unicode/utf8.DecodeRuneInString": nil,
		"bytes.Equal":                 nil,
		"bytes.IndexByte":             nil,

		"strconv.ParseFloat":                    parseFloat,
		"internal/strconv.float64frombits":      func(fr *frame, a []value) value { return math.Float64frombits(concU64(a[0])) },
		"internal/strconv.float32frombits":      func(fr *frame, a []value) value { return math.Float32frombits(uint32(concU64(a[0]))) },
		"internal/strconv.float64bits":          func(fr *frame, a []value) value { return math.Float64bits(a[0].(float64)) },
		"internal/strconv.float32bits":          func(fr *frame, a []value) value { return math.Float32bits(a[0].(float32)) },
		"path/filepath.ToSlash":   func(fr *frame, a []value) value { return a[0] },
		"path/filepath.FromSlash": func(fr *frame, a []value) value { return a[0] },
		"path/filepath.Base":      nativeStr1(filepath.Base),
		"path/filepath.Dir":       nativeStr1(filepath.Dir),
		"path/filepath.Clean":     nativeStr1(filepath.Clean),
		"path/filepath.Ext":       nativeStr1(filepath.Ext),
		"path/filepath.IsAbs":     func(fr *frame, a []value) value { return filepath.IsAbs(concStr(a[0])) },
		"path/filepath.Join": func(fr *frame, a []value) value {
			var parts []string
			for _, p := range a[0].([]value) {
				parts = append(parts, concStr(p))
			}
			return filepath.Join(parts...)
		},
		"regexp.MustCompile": func(fr *frame, a []value) value { return opaque{"regexp"} },
		"regexp.Compile":     func(fr *frame, a []value) value { return tuple{opaque{"regexp"}, iface{}} },

		"(*sync.Mutex).Lock":      func(fr *frame, a []value) value { syncPoint("lock", a[0].(*value)); return nil },
		"(*sync.Mutex).Unlock":    func(fr *frame, a []value) value { syncPoint("unlock", a[0].(*value)); return nil },
		"(*sync.Mutex).TryLock":   func(fr *frame, a []value) value { return true },
		"(*sync.RWMutex).Lock":    func(fr *frame, a []value) value { syncPoint("lock", a[0].(*value)); return nil },
		"(*sync.RWMutex).Unlock":  func(fr *frame, a []value) value { syncPoint("unlock", a[0].(*value)); return nil },
		"(*sync.RWMutex).RLock":   func(fr *frame, a []value) value { syncPoint("rlock", a[0].(*value)); return nil },
		"(*sync.RWMutex).RUnlock": func(fr *frame, a []value) value { syncPoint("runlock", a[0].(*value)); return nil },
		"(*sync.Once).Do":         onceDo,
		"(*sync.WaitGroup).Add":   wgAdd,
		"(*sync.WaitGroup).Done":  wgDone,
		"(*sync.WaitGroup).Wait":  wgWait,
		"(*sync.Map).LoadOrStore": smLoadOrStore,
		"(*sync.Map).Load":        smLoad,
		"(*sync.Map).Store":       smStore,
		"(*sync.Map).Delete":      smDelete,
		"sort.Slice":              sortSliceUnstable,
		"sort.SliceStable":        sortSlice,
		"sort.Strings":            sortStrings,
		"os.Getenv":               func(fr *frame, a []value) value { return "" },
		"runtime.NumCPU":          func(fr *frame, a []value) value { return 1 },

		"math/big.NewInt":            bigNewInt,
		"(*math/big.Int).SetString":  bigSetString,
		"(*math/big.Int).SetInt64":   func(fr *frame, a []value) value { bigPut(a[0], bigFromInt(a[1], true)); return a[0] },
		"(*math/big.Int).SetUint64":  func(fr *frame, a []value) value { bigPut(a[0], bigFromInt(a[1], false)); return a[0] },
		"(*math/big.Int).Set":        func(fr *frame, a []value) value { bigPut(a[0], bigGet(a[1])); return a[0] },
		"(*math/big.Int).Add":        func(fr *frame, a []value) value { return bigBin(a, "+") },
		"(*math/big.Int).Sub":        func(fr *frame, a []value) value { return bigBin(a, "-") },
		"(*math/big.Int).Mul":        func(fr *frame, a []value) value { return bigBin(a, "*") },
		"(*math/big.Int).Div":        func(fr *frame, a []value) value { return bigBin(a, "div") },
		"(*math/big.Int).Mod":        func(fr *frame, a []value) value { return bigBin(a, "mod") },
		"(*math/big.Int).Quo":        func(fr *frame, a []value) value { return bigBin(a, "quo") },
		"(*math/big.Int).Rem":        func(fr *frame, a []value) value { return bigBin(a, "rem") },
		"(*math/big.Int).Neg":        bigNeg,
		"(*math/big.Int).Abs":        bigAbs,
		"(*math/big.Int).Lsh":        bigLsh,
		"(*math/big.Int).Exp":        bigExp,
		"(*math/big.Int).Cmp":        bigCmp,
		"(*math/big.Int).Sign":       bigSign,
		"(*math/big.Int).IsInt64":    bigIsInt64,
		"(*math/big.Int).IsUint64":   bigIsUint64,
		"(*math/big.Int).Int64":      bigInt64,
		"(*math/big.Int).Uint64":     bigUint64,
		"(*math/big.Int).BitLen":     bigBitLen,
		"(*math/big.Int).String":     bigString,
		"(*math/big.Int).Text":       bigString,
	}
	for k, f := range intrinsics {
		if f == nil {
			delete(intrinsics, k)
			delete(externals, k)
		}
	}
	registerEnvStubs()
}

func nop(fr *frame, a []value) value { return nil }

func concStr(x value) string {
	s, ok := x.(string)
	if !ok {
		panic(pathUnsupported{"path operation on a symbolic string"})
	}
	return s
}

func nativeStr1(f func(string) string) intrinsic {
	return func(fr *frame, a []value) value { return f(concStr(a[0])) }
}

func concU64(x value) uint64 {
	if _, ok := x.(symv); ok {
		panic(pathUnsupported{"float bit pattern built from symbolic data"})
	}
	return asUint64Conc(x)
}

// parseFloat: native on concrete text.  On symbolic text the result is over-approximated: either an error or some
// float (0.0 stands for "a float"); strconv.ParseFloat itself is trusted not to panic.
func parseFloat(fr *frame, a []value) value {
	if s, ok := a[0].(string); ok {
		f, err := strconv.ParseFloat(s, int(asInt64(a[1])))
		if err != nil {
			return tuple{f, mkError(fr, err.Error())}
		}
		return tuple{f, iface{}}
	}
	E.nfresh++
	c := E.Fresh(fmt.Sprintf("parsefloat!%d", E.nfresh), 0)
	if E.Decide(c) {
		return tuple{float64(0), iface{}}
	}
	return tuple{float64(0), mkError(fr, "strconv.ParseFloat: invalid syntax")}
}

func mkError(fr *frame, msg string) value {
	ep := fr.i.prog.ImportedPackage("errors")
	if ep == nil {
		panic(pathUnsupported{"package errors not loaded"})
	}
	return call(fr.i, fr, token.NoPos, ep.Func("New"), []value{msg})
}

func rtChoice(fr *frame, a []value) value {
	name := a[0].(string)
	n := int(asInt64(a[1]))
	if n <= 0 {
		panic(pathAbort{"empty choice"})
	}
	if _, dup := E.decls[name]; dup && E.choiceSeen[name] {
		panic(pathUnsupported{"choice " + name + " drawn twice on one path"})
	}
	E.choiceSeen[name] = true
	x := E.Fresh(name, 32)
	e := E
	e.push(mk(0, "bvult", x, symv{32, bvLit(uint64(n), 32)}).t)
	for k := 0; k < n-1; k++ {
		if E.decideFree(mk(0, "=", x, symv{32, bvLit(uint64(k), 32)})) {
			return k
		}
	}
	return n - 1
}

func rtBytes(fr *frame, a []value) value {
	name := a[0].(string)
	n := int(asInt64(a[1]))
	out := make([]value, n)
	for i := 0; i < n; i++ {
		out[i] = E.Fresh(fmt.Sprintf("%s_%d", name, i), 8)
	}
	return out
}

func rtAssert(fr *frame, a []value) value {
	where := ""
	if fr.caller != nil {
		where = fr.caller.fn.String()
	}
	E.Assert(toSym(a[0], 0), a[1].(string), where)
	if s, ok := a[0].(symv); ok {
		E.Assume(s)
	} else if !a[0].(bool) {
		panic(pathAbort{"assert false (reported)"})
	}
	return nil
}

// ---------------------------------------------------------------------------------------------------------
// bytes / strings helpers with symbolic bytes

func idxByte(b []value, c value) value {
	for i, x := range b {
		if condBool(boolOrSym(byteEq(x, c))) {
			return i
		}
	}
	return -1
}

func lastIdxByte(b []value, c value) value {
	for i := len(b) - 1; i >= 0; i-- {
		if condBool(boolOrSym(byteEq(b[i], c))) {
			return i
		}
	}
	return -1
}

func countByte(b []value, c value) value {
	n := 0
	for _, x := range b {
		if condBool(boolOrSym(byteEq(x, c))) {
			n++
		}
	}
	return n
}

func idxBytes(s, sep []value) value {
	if len(sep) == 0 {
		return 0
	}
	for i := 0; i+len(sep) <= len(s); i++ {
		if condBool(boolOrSym(strEq(symstr{s[i : i+len(sep)]}, symstr{sep}))) {
			return i
		}
	}
	return -1
}

// strings.Builder: struct { addr *Builder; buf []byte }
func sbBuf(recv value) []value {
	st := (*recv.(*value)).(structure)
	if st[1] == nil {
		return nil
	}
	return st[1].([]value)
}

func sbSet(recv value, b []value) {
	st := (*recv.(*value)).(structure)
	st[1] = b
}

func sbString(fr *frame, a []value) value { return normStr(append([]value{}, sbBuf(a[0])...)) }

func sbWriteString(fr *frame, a []value) value {
	b := strBytes(a[1])
	sbSet(a[0], append(sbBuf(a[0]), b...))
	return tuple{len(b), iface{}}
}

func sbWrite(fr *frame, a []value) value {
	b := a[1].([]value)
	sbSet(a[0], append(sbBuf(a[0]), b...))
	return tuple{len(b), iface{}}
}

func sbWriteByte(fr *frame, a []value) value {
	sbSet(a[0], append(sbBuf(a[0]), a[1]))
	return iface{}
}

func sbWriteRune(fr *frame, a []value) value {
	r, ok := a[1].(int32)
	if !ok {
		sr := a[1].(symv)
		if !E.Decide(mk(0, "bvult", sr, symv{32, bvLit(0x80, 32)})) {
			panic(pathUnsupported{"WriteRune of a symbolic non-ASCII rune"})
		}
		sbSet(a[0], append(sbBuf(a[0]), E.name(symv{8, "((_ extract 7 0) " + sr.t + ")"})))
		return tuple{1, iface{}}
	}
	s := string(rune(r))
	sbSet(a[0], append(sbBuf(a[0]), strBytes(s)...))
	return tuple{len(s), iface{}}
}

// writeTo appends s to an io.Writer value when it is a *strings.Builder or *bytes.Buffer-like capture; other
// writers (os.Stdout, os.Stderr, files) swallow the text.
func writeTo(fr *frame, w value, s value) value {
	n := strLen(s)
	capture := true
	defer func() {
		if capture {
			E.captured = append(E.captured, strBytes(s)...)
		}
	}()
	if it, ok := w.(iface); ok && it.t != nil {
		if it.t.String() == "*strings.Builder" {
			sbSet(it.v, append(sbBuf(it.v), strBytes(s)...))
			capture = false
			return n
		}
		// a writer implemented by the module under test: call its Write method
		if p, ok := it.t.(*types.Pointer); ok {
			if named, ok := p.Elem().(*types.Named); ok && named.Obj().Pkg() != nil && strings.HasPrefix(named.Obj().Pkg().Path(), ModulePrefix) {
				if m := fr.i.prog.LookupMethod(it.t, named.Obj().Pkg(), "Write"); m != nil {
					call(fr.i, fr, token.NoPos, m, []value{it.v, append([]value{}, strBytes(s)...)})
				}
			}
		}
	}
	return n
}

func onceDo(fr *frame, a []value) value {
	st := (*a[0].(*value)).(structure)
	// sync.Once { _ noCopy; done atomic.Uint32; m Mutex }: use a marker in field 0
	if st[0] != nil {
		if b, ok := st[0].(bool); ok && b {
			return nil
		}
	}
	st[0] = true
	call(fr.i, fr, token.NoPos, a[1], nil)
	return nil
}

// hostFunc is a function value implemented by the engine (callable from interpreted code).
type hostFunc func(args []value) value

// sortSliceUnstable runs Go's own pattern-defeating quicksort (sort.pdqsort_func, interpreted from source) with the
// caller's less closure, so that sort.Slice has exactly the (unstable) behaviour of the real library.
func sortSliceUnstable(fr *frame, a []value) value {
	sl := a[0].(iface).v.([]value)
	n := len(sl)
	sp := fr.i.prog.ImportedPackage("sort")
	if sp == nil || sp.Func("pdqsort_func") == nil {
		return sortSlice(fr, a)
	}
	swap := hostFunc(func(args []value) value {
		i, j := int(asInt64(args[0])), int(asInt64(args[1]))
		sl[i], sl[j] = sl[j], sl[i]
		return nil
	})
	limit := 0
	for x := n; x > 0; x >>= 1 {
		limit++
	}
	ls := structure{a[1], swap}
	call(fr.i, fr, token.NoPos, sp.Func("pdqsort_func"), []value{ls, 0, n, limit})
	return nil
}

func sortSlice(fr *frame, a []value) value {
	sl := a[0].(iface).v.([]value)
	less := a[1]
	// insertion sort calling the real less closure (stable)
	for i := 1; i < len(sl); i++ {
		for j := i; j > 0; j-- {
			if !condBool(call(fr.i, fr, token.NoPos, less, []value{j, j - 1})) {
				break
			}
			sl[j], sl[j-1] = sl[j-1], sl[j]
		}
	}
	return nil
}

func sortStrings(fr *frame, a []value) value {
	sl := a[0].([]value)
	for i := 1; i < len(sl); i++ {
		for j := i; j > 0; j-- {
			if !condBool(boolOrSym(strLess(sl[j], sl[j-1]))) {
				break
			}
			sl[j], sl[j-1] = sl[j-1], sl[j]
		}
	}
	return nil
}

// ---------------------------------------------------------------------------------------------------------
// fmt (exact for %s %d %v %q %t %x %c %% on strings, integers, bools, errors; other arguments become "<?>")

func fmtArg(fr *frame, v value, verb byte) value {
	if it, ok := v.(iface); ok {
		if it.t == nil {
			return "<nil>"
		}
		// error / Stringer implemented by interpreted code
		for _, mname := range []string{"Error", "String"} {
			ms := fr.i.prog.MethodSets.MethodSet(it.t)
			if sel := ms.Lookup(nil, mname); sel != nil {
				if f := fr.i.prog.MethodValue(sel); f != nil && f.Blocks != nil && f.Signature.Params().Len() == 0 {
					r := call(fr.i, fr, token.NoPos, f, []value{it.v})
					if _, ok := r.(string); ok {
						return r
					}
					if _, ok := r.(symstr); ok {
						return r
					}
				}
			}
		}
		v = it.v
	}
	switch x := v.(type) {
	case string:
		if verb == 'q' {
			return strconv.Quote(x)
		}
		return x
	case symstr:
		if verb == 'q' {
			b := append([]value{uint8('"')}, x.b...)
			return symstr{append(b, uint8('"'))}
		}
		return x
	case bool:
		return strconv.FormatBool(x)
	case int, int8, int16, int32, int64:
		if verb == 'c' {
			return string(rune(asInt64(x)))
		}
		if verb == 'x' {
			return strconv.FormatInt(asInt64(x), 16)
		}
		return strconv.FormatInt(asInt64(x), 10)
	case uint, uint8, uint16, uint32, uint64, uintptr:
		if verb == 'c' {
			return string(rune(asUint64Conc(x)))
		}
		if verb == 'x' {
			return strconv.FormatUint(asUint64Conc(x), 16)
		}
		return strconv.FormatUint(asUint64Conc(x), 10)
	case float64:
		return strconv.FormatFloat(x, 'g', -1, 64)
	case float32:
		return strconv.FormatFloat(float64(x), 'g', -1, 32)
	case symv:
		if verb == 'c' && x.w > 0 {
			if !E.Decide(mk(0, "bvult", x, symv{x.w, bvLit(0x80, x.w)})) {
				return "?"
			}
			if x.w == 8 {
				return symstr{[]value{x}}
			}
			return symstr{[]value{E.name(symv{8, fmt.Sprintf("((_ extract 7 0) %s)", x.t)})}}
		}
		return "<symbolic>" // only ever used in message texts; never parsed back by the code under test
	case *value:
		if x != nil {
			if bv, ok := (*x).(bigv); ok {
				if bv.c != nil {
					return bv.c.String()
				}
				panic(pathUnsupported{"formatting a symbolic big.Int"})
			}
		}
	}
	return "<?>"
}

func fmtSprintf(fr *frame, format value, args []value) value {
	f, ok := format.(string)
	if !ok {
		panic(pathUnsupported{"symbolic format string"})
	}
	var out []value
	ai := 0
	for i := 0; i < len(f); i++ {
		c := f[i]
		if c != '%' {
			out = append(out, c)
			continue
		}
		i++
		if i >= len(f) {
			break
		}
		// skip flags / width
		for i < len(f) && strings.IndexByte("+-# 0123456789.", f[i]) >= 0 {
			i++
		}
		if i >= len(f) {
			break
		}
		verb := f[i]
		if verb == '%' {
			out = append(out, uint8('%'))
			continue
		}
		if ai >= len(args) {
			out = append(out, strBytes("%!"+string(verb)+"(MISSING)")...)
			continue
		}
		if verb == 'w' {
			verb = 'v'
		}
		out = append(out, strBytes(fmtArg(fr, args[ai], verb))...)
		ai++
	}
	return normStr(out)
}

func fmtSprint(fr *frame, args []value, ln bool) value {
	var out []value
	for i, a := range args {
		if i > 0 && ln {
			out = append(out, uint8(' '))
		}
		out = append(out, strBytes(fmtArg(fr, a, 'v'))...)
	}
	if ln {
		out = append(out, uint8('\n'))
	}
	return normStr(out)
}

func fmtErrorf(fr *frame, a []value) value {
	s := fmtSprintf(fr, a[0], a[1].([]value))
	// errors.New(s): *errors.errorString
	ep := fr.i.prog.ImportedPackage("errors")
	if ep == nil {
		panic(pathUnsupported{"fmt.Errorf without package errors"})
	}
	return call(fr.i, fr, token.NoPos, ep.Func("New"), []value{s})
}

// ---------------------------------------------------------------------------------------------------------
// math/big.Int: concrete *big.Int or an SMT Int term

type bigv struct {
	c *big.Int
	t string // SMT Int term when c == nil
}

func bigGet(p value) bigv {
	cell := p.(*value)
	if cell == nil {
		panic(runtimeErr("nil *big.Int dereference"))
	}
	if b, ok := (*cell).(bigv); ok {
		return b
	}
	return bigv{c: new(big.Int)} // zero value of big.Int
}

func bigPut(p value, b bigv) { *p.(*value) = b }

func bigNew(b bigv) value {
	var cell value = b
	return &cell
}

func (b bigv) term() string {
	if b.c != nil {
		if b.c.Sign() < 0 {
			return "(- " + new(big.Int).Neg(b.c).String() + ")"
		}
		return b.c.String()
	}
	return b.t
}

func bigFromInt(x value, signed bool) bigv {
	if s, ok := x.(symv); ok {
		if signed {
			// two's complement to Int
			u := fmt.Sprintf("(bv2nat %s)", s.t)
			half := new(big.Int).Lsh(big.NewInt(1), uint(s.w-1)).String()
			full := new(big.Int).Lsh(big.NewInt(1), uint(s.w)).String()
			return bigv{t: E.name(symv{-1, fmt.Sprintf("(ite (>= %s %s) (- %s %s) %s)", u, half, u, full, u)}).t}
		}
		return bigv{t: E.name(symv{-1, fmt.Sprintf("(bv2nat %s)", s.t)}).t}
	}
	if signed {
		return bigv{c: big.NewInt(asInt64(x))}
	}
	return bigv{c: new(big.Int).SetUint64(asUint64Conc(x))}
}

func rtBigInt(fr *frame, a []value) value {
	s := E.Fresh(a[0].(string), -1)
	return bigNew(bigv{t: s.t})
}

func bigNewInt(fr *frame, a []value) value { return bigNew(bigFromInt(a[0], true)) }

func bigSetString(fr *frame, a []value) value {
	base := int(asInt64(a[2]))
	if s, ok := a[1].(string); ok {
		n, ok := new(big.Int).SetString(s, base)
		if !ok {
			var nilp *value
			return tuple{nilp, false}
		}
		bigPut(a[0], bigv{c: n})
		return tuple{a[0], true}
	}
	// symbolic text: digit-wise model for bases 2, 8, 10, 16 (no prefixes, no underscores: base != 0)
	if base != 2 && base != 8 && base != 10 && base != 16 {
		panic(pathUnsupported{"big.Int.SetString on symbolic text with base 0 or an unusual base"})
	}
	var nilp *value
	b := strBytes(a[1])
	neg := false
	if len(b) > 0 {
		if condBool(boolOrSym(byteEq(b[0], uint8('-')))) {
			neg = true
			b = b[1:]
		} else if condBool(boolOrSym(byteEq(b[0], uint8('+')))) {
			b = b[1:]
		}
	}
	if len(b) == 0 {
		return tuple{nilp, false}
	}
	acc := "0"
	for _, c := range b {
		var dv string
		switch cv := c.(type) {
		case uint8:
			d := -1
			switch {
			case cv >= '0' && cv <= '9':
				d = int(cv - '0')
			case cv >= 'a' && cv <= 'z':
				d = int(cv-'a') + 10
			case cv >= 'A' && cv <= 'Z':
				d = int(cv-'A') + 10
			}
			if d < 0 || d >= base {
				return tuple{nilp, false}
			}
			dv = strconv.Itoa(d)
		case symv:
			inr := func(lo, hi uint8) symv {
				return symAnd(mk(0, "bvuge", cv, symv{8, bvLit(uint64(lo), 8)}), mk(0, "bvule", cv, symv{8, bvLit(uint64(hi), 8)}))
			}
			hiDigit := uint8('0' + base - 1)
			if base > 10 {
				hiDigit = '9'
			}
			switch {
			case E.Decide(inr('0', hiDigit)):
				dv = fmt.Sprintf("(bv2nat (bvsub %s #x30))", cv.t)
			case base == 16 && E.Decide(inr('a', 'f')):
				dv = fmt.Sprintf("(bv2nat (bvsub %s #x57))", cv.t)
			case base == 16 && E.Decide(inr('A', 'F')):
				dv = fmt.Sprintf("(bv2nat (bvsub %s #x37))", cv.t)
			default:
				return tuple{nilp, false}
			}
		}
		acc = E.name(symv{-1, fmt.Sprintf("(+ (* %s %d) %s)", acc, base, dv)}).t
	}
	if neg {
		acc = "(- " + acc + ")"
	}
	bigPut(a[0], bigv{t: acc})
	return tuple{a[0], true}
}

func bigBin(a []value, op string) value {
	x, y := bigGet(a[1]), bigGet(a[2])
	if x.c != nil && y.c != nil {
		r := new(big.Int)
		switch op {
		case "+":
			r.Add(x.c, y.c)
		case "-":
			r.Sub(x.c, y.c)
		case "*":
			r.Mul(x.c, y.c)
		case "div", "mod", "quo", "rem":
			if y.c.Sign() == 0 {
				panic(runtimeErr("division by zero (big.Int)"))
			}
			switch op {
			case "div":
				r.Div(x.c, y.c)
			case "mod":
				r.Mod(x.c, y.c)
			case "quo":
				r.Quo(x.c, y.c)
			case "rem":
				r.Rem(x.c, y.c)
			}
		}
		bigPut(a[0], bigv{c: r})
		return a[0]
	}
	xt, yt := x.term(), y.term()
	var t string
	switch op {
	case "+", "-", "*":
		t = fmt.Sprintf("(%s %s %s)", op, xt, yt)
	default:
		if E.Decide(symv{0, fmt.Sprintf("(= %s 0)", yt)}) {
			panic(runtimeErr("division by zero (big.Int)"))
		}
		switch op {
		case "div":
			t = fmt.Sprintf("(div %s %s)", xt, yt) // SMT-LIB div/mod are Euclidean, like big.Int.Div/Mod
		case "mod":
			t = fmt.Sprintf("(mod %s %s)", xt, yt)
		case "quo":
			// truncated: sign(x)*sign(y) * (|x| div |y|)
			q := fmt.Sprintf("(div (abs %s) (abs %s))", xt, yt)
			t = fmt.Sprintf("(ite (= (>= %s 0) (>= %s 0)) %s (- %s))", xt, yt, q, q)
		case "rem":
			r := fmt.Sprintf("(mod (abs %s) (abs %s))", xt, yt)
			t = fmt.Sprintf("(ite (>= %s 0) %s (- %s))", xt, r, r)
		}
	}
	bigPut(a[0], bigv{t: E.name(symv{-1, t}).t})
	return a[0]
}

func bigNeg(fr *frame, a []value) value {
	x := bigGet(a[1])
	if x.c != nil {
		bigPut(a[0], bigv{c: new(big.Int).Neg(x.c)})
	} else {
		bigPut(a[0], bigv{t: "(- " + x.t + ")"})
	}
	return a[0]
}

func bigAbs(fr *frame, a []value) value {
	x := bigGet(a[1])
	if x.c != nil {
		bigPut(a[0], bigv{c: new(big.Int).Abs(x.c)})
	} else {
		bigPut(a[0], bigv{t: "(abs " + x.t + ")"})
	}
	return a[0]
}

func bigLsh(fr *frame, a []value) value {
	x := bigGet(a[1])
	n := uint(asUint64Conc(a[2]))
	if x.c != nil {
		bigPut(a[0], bigv{c: new(big.Int).Lsh(x.c, n)})
	} else {
		bigPut(a[0], bigv{t: fmt.Sprintf("(* %s %s)", x.t, new(big.Int).Lsh(big.NewInt(1), n).String())})
	}
	return a[0]
}

func bigExp(fr *frame, a []value) value {
	x, y := bigGet(a[1]), bigGet(a[2])
	var m *big.Int
	if mp, ok := a[3].(*value); ok && mp != nil {
		mv := bigGet(a[3])
		if mv.c == nil {
			panic(pathUnsupported{"big.Int.Exp with symbolic modulus"})
		}
		m = mv.c
	}
	if x.c == nil || y.c == nil {
		panic(pathUnsupported{"big.Int.Exp on symbolic operands"})
	}
	bigPut(a[0], bigv{c: new(big.Int).Exp(x.c, y.c, m)})
	return a[0]
}

func bigCmp(fr *frame, a []value) value {
	x, y := bigGet(a[0]), bigGet(a[1])
	if x.c != nil && y.c != nil {
		return x.c.Cmp(y.c)
	}
	if E.Decide(symv{0, fmt.Sprintf("(< %s %s)", x.term(), y.term())}) {
		return -1
	}
	if E.Decide(symv{0, fmt.Sprintf("(= %s %s)", x.term(), y.term())}) {
		return 0
	}
	return 1
}

func bigSign(fr *frame, a []value) value {
	x := bigGet(a[0])
	if x.c != nil {
		return x.c.Sign()
	}
	if E.Decide(symv{0, fmt.Sprintf("(< %s 0)", x.t)}) {
		return -1
	}
	if E.Decide(symv{0, fmt.Sprintf("(= %s 0)", x.t)}) {
		return 0
	}
	return 1
}

func bigIsInt64(fr *frame, a []value) value {
	x := bigGet(a[0])
	if x.c != nil {
		return x.c.IsInt64()
	}
	return E.Decide(symv{0, fmt.Sprintf("(and (>= %s (- 9223372036854775808)) (<= %s 9223372036854775807))", x.t, x.t)})
}

func bigIsUint64(fr *frame, a []value) value {
	x := bigGet(a[0])
	if x.c != nil {
		return x.c.IsUint64()
	}
	return E.Decide(symv{0, fmt.Sprintf("(and (>= %s 0) (<= %s 18446744073709551615))", x.t, x.t)})
}

func bigToBV(x bigv) symv {
	// low 64 bits of a symbolic Int as a bit-vector
	return E.name(symv{64, fmt.Sprintf("((_ int2bv 64) %s)", x.t)})
}

func bigInt64(fr *frame, a []value) value {
	x := bigGet(a[0])
	if x.c != nil {
		return x.c.Int64()
	}
	return bigToBV(x)
}

func bigUint64(fr *frame, a []value) value {
	x := bigGet(a[0])
	if x.c != nil {
		return x.c.Uint64()
	}
	return bigToBV(x)
}

func bigBitLen(fr *frame, a []value) value {
	x := bigGet(a[0])
	if x.c != nil {
		return x.c.BitLen()
	}
	// fork over the bit length up to 300 bits
	ab := "(abs " + x.t + ")"
	for n := 0; n <= 300; n++ {
		lim := new(big.Int).Lsh(big.NewInt(1), uint(n)).String()
		if E.Decide(symv{0, fmt.Sprintf("(< %s %s)", ab, lim)}) {
			return n
		}
	}
	panic(pathUnsupported{"BitLen of a symbolic big.Int beyond 300 bits"})
}

func bigString(fr *frame, a []value) value {
	x := bigGet(a[0])
	if x.c != nil {
		if len(a) > 1 {
			return x.c.Text(int(asInt64(a[1])))
		}
		return x.c.String()
	}
	panic(pathUnsupported{"String() of a symbolic big.Int"})
}

// fmtInt renders a (possibly symbolic) int in decimal.  A symbolic value is forked on its sign and digit count;
// each digit is the term '0' + (|v| / 10^k) mod 10.
func fmtInt(x value, signed bool) value {
	s, ok := x.(symv)
	if !ok {
		return strconv.FormatInt(asInt64(x), 10)
	}
	w := s.w
	var out []value
	abs := s
	if signed {
		if E.Decide(mk(0, "bvslt", s, symv{w, bvLit(0, w)})) {
			out = append(out, uint8('-'))
			abs = mk(w, "bvneg", s)
		}
	}
	// digit count
	nd := 1
	pow := uint64(10)
	for nd < 20 {
		if pow > (uint64(1)<<uint(w-1))-1 && w < 64 {
			break
		}
		if E.Decide(mk(0, "bvult", abs, symv{w, bvLit(pow, w)})) {
			break
		}
		nd++
		if pow > ^uint64(0)/10 {
			break
		}
		pow *= 10
	}
	// digits as fresh bytes d_k in 0..9 tied to the value by abs = sum d_k * 10^k (unique solution for nd digits);
	// this avoids 64-bit division by constants, which bit-blasting solvers handle poorly.
	E.nfresh++
	digits := make([]value, nd)
	sum := symv{w, bvLit(0, w)}
	p := uint64(1)
	for k := 0; k < nd; k++ {
		d := E.Fresh(fmt.Sprintf("itoa!%d!%d", E.nfresh, k), 8)
		E.Assume(mk(0, "bvule", d, symv{8, bvLit(9, 8)}))
		dz := symv{w, fmt.Sprintf("((_ zero_extend %d) %s)", w-8, d.t)}
		sum = mk(w, "bvadd", sum, mk(w, "bvmul", dz, symv{w, bvLit(p, w)}))
		digits[nd-1-k] = E.name(symv{8, "(bvadd #x30 " + d.t + ")"})
		p *= 10
	}
	E.Assume(mk(0, "=", sum, abs))
	out = append(out, digits...)
	return normStr(out)
}
