package interp

import "fmt"

// Environment stubs: file-system calls, the embedded QBE back end and the external assembler / linker return an
// arbitrary outcome of their contract (success, or failure with an error value), chosen by a free symbolic choice.
// They are only reached by harnesses that drive a compiler phase which talks to the environment.

// envFail: nil error, or an error, by free choice "env:<what>"
func envFail(fr *frame, what string) value {
	if envChoice(fr, what, 2) == 1 {
		return mkError(fr, what+" failed (environment stub)")
	}
	return iface{}
}

// envChoice draws a fresh choice named env:<what>[#k] (k counts the calls of that stub on the path).
func envChoice(fr *frame, what string, n int) int {
	clean := ""
	for _, c := range what {
		if (c >= 'a' && c <= 'z') || (c >= 'A' && c <= 'Z') || (c >= '0' && c <= '9') {
			clean += string(c)
		} else {
			clean += "_"
		}
	}
	name := "env_" + clean
	for k := 2; E.choiceSeen[name]; k++ {
		name = fmt.Sprintf("env_%s_%d", clean, k)
	}
	return rtChoice(fr, []value{name, n}).(int)
}

func registerEnvStubs() {
	intrinsics["os.MkdirAll"] = func(fr *frame, a []value) value { return envFail(fr, "os.MkdirAll") }
	intrinsics["os.WriteFile"] = func(fr *frame, a []value) value { return envFail(fr, "os.WriteFile") }
	intrinsics["os.Executable"] = func(fr *frame, a []value) value { return tuple{"/zz/bin/ferret", iface{}} }
	intrinsics["os.Stat"] = func(fr *frame, a []value) value { return tuple{iface{}, mkError(fr, "stat: no such file (environment stub)")} }
	intrinsics["os.Getwd"] = func(fr *frame, a []value) value { return tuple{"/zz", iface{}} }
	intrinsics["os.RemoveAll"] = func(fr *frame, a []value) value { return iface{} }
	intrinsics["compiler/internal/codegen/qbe_embeddings.runQBE"] = func(fr *frame, a []value) value {
		// the embedded QBE: exit code 0 or 1 (it rejected the IL), no Go-level error
		return tuple{envChoice(fr, "qbe-exit-code", 2), iface{}}
	}
	intrinsics["compiler/internal/codegen.BuildExecutable"] = func(fr *frame, a []value) value { return envFail(fr, "assembler/linker") }
}
