package interp

import "fmt"

// Environment stubs: file-system calls, the embedded QBE back end and the external assembler / linker return an
// arbitrary outcome of their contract (success, or failure with an error value), chosen by a free symbolic choice.
// They are only reached by harnesses that drive a compiler phase which talks to the environment.

// envFail: nil error, or an error, by free choice "env:<what>"
func envFail(fr *frame, what string) value {
	if envChoice(fr, what, 2) == 1 {
		return mkError(fr, what+" failed (environment stub)")
	}
	return iface{}
}

// envChoice draws a fresh choice named env:<what>[#k] (k counts the calls of that stub on the path).
func envChoice(fr *frame, what string, n int) int {
	clean := ""
	for _, c := range what {
		if (c >= 'a' && c <= 'z') || (c >= 'A' && c <= 'Z') || (c >= '0' && c <= '9') {
			clean += string(c)
		} else {
			clean += "_"
		}
	}
	name := "env_" + clean
	for k := 2; E.choiceSeen[name]; k++ {
		name = fmt.Sprintf("env_%s_%d", clean, k)
	}
	return rtChoice(fr, []value{name, n}).(int)
}

func registerEnvStubs() {
	// a tiny file-system model: what was created successfully exists until RemoveAll takes it away
	created := func(fr *frame, what string, path value) value {
		r := envFail(fr, what)
		if p, ok := path.(string); ok {
			if i, isI := r.(iface); isI && i.t == nil {
				E.envFS[p] = true
			}
		}
		return r
	}
	intrinsics["os.MkdirAll"] = func(fr *frame, a []value) value { return created(fr, "os.MkdirAll", a[0]) }
	intrinsics["os.WriteFile"] = func(fr *frame, a []value) value { return created(fr, "os.WriteFile", a[0]) }
	intrinsics[VerifrtPath+".EnvExists"] = func(fr *frame, a []value) value {
		p, _ := a[0].(string)
		for q := range E.envFS {
			if q == p || (len(q) > len(p) && q[:len(p)] == p && q[len(p)] == '/') {
				return true
			}
		}
		return false
	}
	// files the harness registers (verifrt.EnvFile): fs.IsValidFile and os.ReadFile answer from this table
	intrinsics[VerifrtPath+".EnvFile"] = func(fr *frame, a []value) value {
		p, _ := a[0].(string)
		c, _ := a[1].(string)
		E.envFiles[p] = c
		E.envFS[p] = true
		return nil
	}
	intrinsics["compiler/internal/utils/fs.IsValidFile"] = func(fr *frame, a []value) value {
		p, ok := a[0].(string)
		if !ok {
			panic(pathUnsupported{"fs.IsValidFile on a symbolic path"})
		}
		_, have := E.envFiles[p]
		return have
	}
	intrinsics["os.ReadFile"] = func(fr *frame, a []value) value {
		p, ok := a[0].(string)
		if !ok {
			panic(pathUnsupported{"os.ReadFile on a symbolic path"})
		}
		c, have := E.envFiles[p]
		if !have {
			return tuple{[]value(nil), mkError(fr, "open "+p+": no such file (environment stub)")}
		}
		out := make([]value, len(c))
		for i := 0; i < len(c); i++ {
			out[i] = c[i]
		}
		return tuple{out, iface{}}
	}
	intrinsics["os.TempDir"] = func(fr *frame, a []value) value { return "/zz/tmp" }
	intrinsics["os.Executable"] = func(fr *frame, a []value) value { return tuple{"/zz/bin/ferret", iface{}} }
	intrinsics["os.Stat"] = func(fr *frame, a []value) value { return tuple{iface{}, mkError(fr, "stat: no such file (environment stub)")} }
	intrinsics["os.Getwd"] = func(fr *frame, a []value) value { return tuple{"/zz", iface{}} }
	intrinsics["os.RemoveAll"] = func(fr *frame, a []value) value {
		if p, ok := a[0].(string); ok {
			for q := range E.envFS {
				if q == p || (len(q) > len(p) && q[:len(p)] == p && q[len(p)] == '/') {
					delete(E.envFS, q)
				}
			}
		}
		return iface{}
	}
	intrinsics["compiler/internal/codegen/qbe_embeddings.runQBE"] = func(fr *frame, a []value) value {
		// the embedded QBE: exit code 0 or 1 (it rejected the IL), no Go-level error
		return tuple{envChoice(fr, "qbe-exit-code", 2), iface{}}
	}
	intrinsics["compiler/internal/codegen.BuildExecutable"] = func(fr *frame, a []value) value { return envFail(fr, "assembler/linker") }
}
