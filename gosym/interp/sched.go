package interp

// Cooperative scheduling of logical threads for verifrt.Interleave / verifrt.Threads.
//
// Each logical thread runs in its own goroutine, but only one of them runs at any time (a baton is handed over through
// channels), so the single global engine is never used concurrently.  A thread can be pre-empted only immediately
// before a synchronisation operation: Lock / Unlock / RLock / RUnlock of sync.Mutex / sync.RWMutex, sync/atomic
// read-modify-write operations, sync.Map operations, WaitGroup Add / Done / Wait, a send or receive on a buffered
// channel, and the start of a goroutine created by a `go` statement.  At each such point the scheduler picks, by a
// free symbolic choice, which of the threads whose pending operation is enabled runs next.  All interleavings at that
// granularity are explored, optionally bounded by the number of DELAYS (Emmi, Qadeer, Rakamaric, "Delay-bounded
// scheduling", POPL 2011): the default scheduler lets the running thread continue while it can and otherwise takes the
// next enabled thread in round-robin order; a delay skips the thread the default scheduler would run.  With
// verifrt.DelayBound(k) every schedule reachable with at most k delays is explored (k < 0: every schedule).  A state
// where some thread is unfinished and none is enabled is reported as a deadlock.

import (
	"fmt"
	"go/token"
)

type lockState struct {
	writer  int // id of the thread holding the write lock, -1 if none
	readers map[int]int
}

type schedOp struct {
	kind string // start, lock, unlock, rlock, runlock, atomic, wgwait, send, recv, done, panic
	mu   *value
	ch   chan value
	pv   any // panic value forwarded from a thread
}

type schedThread struct {
	id      int
	pending *schedOp
	grant   chan struct{}
	done    bool
}

type scheduler struct {
	threads    []*schedThread
	report     chan *schedThread
	locks      map[*value]*lockState
	wgs        map[*value]int64
	dead       chan struct{}
	cur        *schedThread
	last       *schedThread
	nsched     int
	preempts   int
	maxPreempt int // < 0: unbounded
	fr         *frame
}

func (s *scheduler) lock(mu *value) *lockState {
	l := s.locks[mu]
	if l == nil {
		l = &lockState{writer: -1, readers: map[int]int{}}
		s.locks[mu] = l
	}
	return l
}

func (s *scheduler) enabled(t *schedThread) bool {
	op := t.pending
	switch op.kind {
	case "lock":
		l := s.lock(op.mu)
		return l.writer == -1 && len(l.readers) == 0
	case "rlock":
		return s.lock(op.mu).writer == -1
	case "wgwait":
		return s.wgs[op.mu] <= 0
	case "send":
		return len(op.ch) < cap(op.ch)
	case "recv":
		return len(op.ch) > 0
	default:
		return true
	}
}

func (s *scheduler) apply(t *schedThread) {
	op := t.pending
	switch op.kind {
	case "lock":
		s.lock(op.mu).writer = t.id
	case "unlock":
		l := s.lock(op.mu)
		if l.writer != t.id {
			// Go allows unlocking from another goroutine; only an unlock of an unlocked mutex is fatal
			if l.writer == -1 {
				panic(runtimeErr("sync: unlock of unlocked mutex"))
			}
		}
		l.writer = -1
	case "rlock":
		s.lock(op.mu).readers[t.id]++
	case "runlock":
		l := s.lock(op.mu)
		if len(l.readers) == 0 {
			panic(runtimeErr("sync: RUnlock of unlocked RWMutex"))
		}
		if l.readers[t.id] > 0 {
			l.readers[t.id]--
			if l.readers[t.id] == 0 {
				delete(l.readers, t.id)
			}
		} else {
			for k := range l.readers {
				l.readers[k]--
				if l.readers[k] == 0 {
					delete(l.readers, k)
				}
				break
			}
		}
	}
}

// syncPoint is called by the lock / atomic / channel intrinsics.  Outside a scheduling session it does nothing.
func syncPoint(kind string, mu *value) { syncPointOp(&schedOp{kind: kind, mu: mu}) }

func syncPointOp(op *schedOp) {
	s := E.sched
	if s == nil || s.cur == nil {
		return
	}
	t := s.cur
	t.pending = op
	s.report <- t
	select {
	case <-t.grant:
	case <-s.dead:
		// the path was abandoned (violation, deadlock, end of the session): unwind this goroutine WITHOUT running the
		// interpreted program's deferred calls (runFrame re-panics engine control flow untouched)
		panic(pathAbort{"logical thread abandoned"})
	}
}

// inSession reports whether the calling code runs as a logical thread of a scheduling session.
func inSession() bool { return E.sched != nil && E.sched.cur != nil }

func (s *scheduler) spawn(fn value, args []value) *schedThread {
	t := &schedThread{id: len(s.threads), grant: make(chan struct{}), pending: &schedOp{kind: "start"}}
	s.threads = append(s.threads, t)
	fr := s.fr
	go func() {
		select {
		case <-t.grant:
		case <-s.dead:
			return
		}
		defer func() {
			if r := recover(); r != nil {
				t.pending = &schedOp{kind: "panic", pv: r}
			} else {
				t.pending = &schedOp{kind: "done"}
			}
			select {
			case s.report <- t:
			case <-s.dead:
			}
		}()
		call(fr.i, fr, token.NoPos, fn, args)
	}()
	return t
}

func runSession(fr *frame, fns []value) value {
	if E.sched != nil {
		panic(pathUnsupported{"nested scheduling session"})
	}
	s := &scheduler{report: make(chan *schedThread), locks: map[*value]*lockState{}, wgs: map[*value]int64{}, dead: make(chan struct{}),
		maxPreempt: E.preemptBound, fr: fr}
	E.sched = s
	defer func() {
		E.sched = nil
		close(s.dead)
	}()
	for _, fn := range fns {
		s.spawn(fn, nil)
	}
	step := func(t *schedThread) {
		s.cur = t
		s.last = t
		t.grant <- struct{}{}
		r := <-s.report
		s.cur = nil
		if r.pending.kind == "panic" {
			panic(r.pending.pv)
		}
		if r.pending.kind == "done" {
			r.done = true
			r.pending = nil
		}
	}
	for {
		var en []*schedThread
		pend := 0
		for _, t := range s.threads {
			if t.done {
				continue
			}
			pend++
			if s.enabled(t) {
				en = append(en, t)
			}
		}
		if pend == 0 {
			return nil
		}
		if len(en) == 0 {
			m := map[string]string{}
			if E.checkSat("") == "sat" {
				m = E.model()
			}
			panic(pathViolation{Violation{Kind: "assert", Msg: "deadlock: every unfinished logical thread waits (lock, WaitGroup or channel)", Model: m, Prefix: append([]bool{}, E.trace...)}})
		}
		// default order: the last-run thread first if it can continue, then round-robin by thread id after it
		lastID := -1
		if s.last != nil {
			lastID = s.last.id
		}
		n := len(s.threads)
		var order []*schedThread
		for off := 0; off < n; off++ {
			t := s.threads[(lastID+off+n)%n]
			if lastID < 0 {
				t = s.threads[off]
			}
			if !t.done && s.enabled(t) {
				order = append(order, t)
			}
		}
		pick := order[0]
		if len(order) > 1 {
			if s.maxPreempt < 0 {
				s.nsched++
				pick = order[rtChoice(fr, []value{fmt.Sprintf("sched%d", s.nsched), len(order)}).(int)]
			} else {
				left := s.maxPreempt - s.preempts
				if left > len(order)-1 {
					left = len(order) - 1
				}
				if left > 0 {
					s.nsched++
					k := rtChoice(fr, []value{fmt.Sprintf("sched%d", s.nsched), left + 1}).(int) // number of delays spent here
					s.preempts += k
					pick = order[k]
				}
			}
		}
		s.apply(pick)
		step(pick)
	}
}

func rtInterleave(fr *frame, a []value) value {
	fns, ok := a[0].([]value)
	if !ok {
		fns = a
	}
	return runSession(fr, fns)
}

// ---------------------------------------------------------------------------------------------------------
// sync.WaitGroup, sync.Map and `go` inside a session

func wgCell(p value) *value { return p.(*value) }

func wgAdd(fr *frame, a []value) value {
	if !inSession() {
		return nil
	}
	syncPoint("atomic", nil)
	s := E.sched
	s.wgs[wgCell(a[0])] += asInt64(a[1])
	if s.wgs[wgCell(a[0])] < 0 {
		panic(runtimeErr("sync: negative WaitGroup counter"))
	}
	return nil
}

func wgDone(fr *frame, a []value) value {
	return wgAdd(fr, []value{a[0], int64(-1)})
}

func wgWait(fr *frame, a []value) value {
	if !inSession() {
		return nil
	}
	syncPoint("wgwait", wgCell(a[0]))
	return nil
}

// sync.Map with concrete keys: one Go map per sync.Map object and path
func smap(p value) map[any]value {
	cell := p.(*value)
	m := E.syncMaps[cell]
	if m == nil {
		m = map[any]value{}
		E.syncMaps[cell] = m
	}
	return m
}

func smKey(v value) any {
	if i, ok := v.(iface); ok {
		if k, ok := smConcrete(i.v); ok {
			return i.t.String() + "\x00" + k
		}
	}
	panic(pathUnsupported{"sync.Map key that is not a concrete string / integer / struct of those"})
}

// smConcrete renders a concrete comparable value (basic values and structs / arrays of them) as a canonical string.
func smConcrete(v value) (string, bool) {
	switch k := v.(type) {
	case string:
		return fmt.Sprintf("s%d:%s", len(k), k), true
	case bool, int, int8, int16, int32, int64, uint, uint8, uint16, uint32, uint64, uintptr:
		return fmt.Sprintf("%T:%v", k, k), true
	case structure:
		out := "{"
		for _, f := range k {
			c, ok := smConcrete(f)
			if !ok {
				return "", false
			}
			out += c + ","
		}
		return out + "}", true
	case array:
		out := "["
		for _, f := range k {
			c, ok := smConcrete(f)
			if !ok {
				return "", false
			}
			out += c + ","
		}
		return out + "]", true
	}
	return "", false
}

func smLoadOrStore(fr *frame, a []value) value {
	syncPoint("atomic", nil)
	m := smap(a[0])
	k := smKey(a[1])
	if v, ok := m[k]; ok {
		return tuple{v, true}
	}
	m[k] = a[2]
	return tuple{a[2], false}
}

func smLoad(fr *frame, a []value) value {
	syncPoint("atomic", nil)
	if v, ok := smap(a[0])[smKey(a[1])]; ok {
		return tuple{v, true}
	}
	return tuple{iface{}, false}
}

func smStore(fr *frame, a []value) value {
	syncPoint("atomic", nil)
	smap(a[0])[smKey(a[1])] = a[2]
	return nil
}

func smDelete(fr *frame, a []value) value {
	syncPoint("atomic", nil)
	delete(smap(a[0]), smKey(a[1]))
	return nil
}
