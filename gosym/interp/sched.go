package interp

// Cooperative interleaving of two (or more) logical threads for verifrt.Interleave.
//
// Each logical thread runs in its own goroutine, but only one of them runs at any time (a baton is handed over through
// channels), so the single global engine is never used concurrently.  A thread can be pre-empted only immediately
// before a synchronisation operation (Lock / Unlock / RLock / RUnlock of sync.Mutex / sync.RWMutex and the sync/atomic
// read-modify-write operations); at each such point the scheduler picks, by a free symbolic choice, which of the
// threads whose pending operation is enabled runs next.  All interleavings at that granularity are explored.  A state
// where some thread is pending and none is enabled is reported as a deadlock.

import (
	"fmt"
	"go/token"
	"runtime"
)

type lockState struct {
	writer  int // id of the thread holding the write lock, -1 if none
	readers map[int]int
}

type schedOp struct {
	kind string // lock, unlock, rlock, runlock, atomic, done, panic
	mu   *value
	pv   any // panic value forwarded from a thread
}

type schedThread struct {
	id      int
	pending *schedOp
	grant   chan struct{}
	done    bool
}

type scheduler struct {
	threads []*schedThread
	report  chan *schedThread
	locks   map[*value]*lockState
	dead    chan struct{}
	cur     *schedThread
	nsched  int
}

func (s *scheduler) lock(mu *value) *lockState {
	l := s.locks[mu]
	if l == nil {
		l = &lockState{writer: -1, readers: map[int]int{}}
		s.locks[mu] = l
	}
	return l
}

func (s *scheduler) enabled(t *schedThread) bool {
	op := t.pending
	switch op.kind {
	case "lock":
		l := s.lock(op.mu)
		return l.writer == -1 && len(l.readers) == 0
	case "rlock":
		return s.lock(op.mu).writer == -1
	default:
		return true
	}
}

func (s *scheduler) apply(t *schedThread) {
	op := t.pending
	switch op.kind {
	case "lock":
		s.lock(op.mu).writer = t.id
	case "unlock":
		l := s.lock(op.mu)
		if l.writer != t.id {
			panic(runtimeErr("sync: unlock of a mutex not locked by this thread"))
		}
		l.writer = -1
	case "rlock":
		s.lock(op.mu).readers[t.id]++
	case "runlock":
		l := s.lock(op.mu)
		if l.readers[t.id] == 0 {
			panic(runtimeErr("sync: RUnlock of a mutex not read-locked by this thread"))
		}
		l.readers[t.id]--
		if l.readers[t.id] == 0 {
			delete(l.readers, t.id)
		}
	}
}

// syncPoint is called by the lock / atomic intrinsics.  Outside Interleave it does nothing.
func syncPoint(kind string, mu *value) {
	s := E.sched
	if s == nil || s.cur == nil {
		return
	}
	t := s.cur
	t.pending = &schedOp{kind: kind, mu: mu}
	s.report <- t
	select {
	case <-t.grant:
	case <-s.dead:
		runtime.Goexit()
	}
}

func rtInterleave(fr *frame, a []value) value {
	if E.sched != nil {
		panic(pathUnsupported{"nested verifrt.Interleave"})
	}
	s := &scheduler{report: make(chan *schedThread), locks: map[*value]*lockState{}, dead: make(chan struct{})}
	E.sched = s
	defer func() {
		E.sched = nil
		close(s.dead)
	}()
	fns, ok := a[0].([]value)
	if !ok {
		fns = a
	}
	for i, fn := range fns {
		t := &schedThread{id: i, grant: make(chan struct{})}
		s.threads = append(s.threads, t)
		f := fn
		go func() {
			select {
			case <-t.grant:
			case <-s.dead:
				return
			}
			defer func() {
				if r := recover(); r != nil {
					t.pending = &schedOp{kind: "panic", pv: r}
				} else {
					t.pending = &schedOp{kind: "done"}
				}
				select {
				case s.report <- t:
				case <-s.dead:
				}
			}()
			call(fr.i, fr, token.NoPos, f, nil)
		}()
	}
	// run one thread until its next report
	step := func(t *schedThread) {
		s.cur = t
		t.grant <- struct{}{}
		r := <-s.report
		s.cur = nil
		if r.pending.kind == "panic" {
			panic(r.pending.pv)
		}
		if r.pending.kind == "done" {
			r.done = true
			r.pending = nil
		}
	}
	// start every thread: each runs up to its first synchronisation point
	for _, t := range s.threads {
		step(t)
	}
	for {
		var en []*schedThread
		pend := 0
		for _, t := range s.threads {
			if t.done {
				continue
			}
			pend++
			if s.enabled(t) {
				en = append(en, t)
			}
		}
		if pend == 0 {
			return nil
		}
		if len(en) == 0 {
			m := map[string]string{}
			if E.checkSat("") == "sat" {
				m = E.model()
			}
			panic(pathViolation{Violation{Kind: "assert", Msg: "deadlock: every unfinished logical thread waits for a lock", Model: m, Prefix: append([]bool{}, E.trace...)}})
		}
		pick := en[0]
		if len(en) > 1 {
			s.nsched++
			k := rtChoice(fr, []value{fmt.Sprintf("sched%d", s.nsched), len(en)}).(int)
			pick = en[k]
		}
		s.apply(pick)
		step(pick)
	}
}
