package interp

import (
	"regexp/syntax"
)

// Symbolic regular-expression matching: a backtracking matcher over regexp/syntax trees with Go's leftmost-first
// (Perl-like) semantics.  Tests of a symbolic byte against a character class fork through the engine.  Subject
// strings are treated bytewise; a symbolic byte >= 0x80 is outside the model (harnesses assume ASCII).

type rxValue struct {
	pat string
	re  *syntax.Regexp
}

func rxCompile(pat string) value {
	re, err := syntax.Parse(pat, syntax.Perl)
	if err != nil {
		panic(pathUnsupported{"regexp does not parse: " + pat})
	}
	return &rxValue{pat: pat, re: re.Simplify()}
}

func rxByteIs(b value, pred func(c uint8) bool, classTerm func(s symv) symv) bool {
	if c, ok := b.(uint8); ok {
		return pred(c)
	}
	s := b.(symv)
	if !E.Decide(mk(0, "bvult", s, symv{8, bvLit(0x80, 8)})) {
		panic(pathUnsupported{"regexp on a symbolic non-ASCII byte"})
	}
	return E.Decide(classTerm(s))
}

func rxClass(ranges []rune, b value, fold bool) bool {
	pred := func(c uint8) bool {
		for i := 0; i+1 < len(ranges); i += 2 {
			if rune(c) >= ranges[i] && rune(c) <= ranges[i+1] {
				return true
			}
		}
		return false
	}
	term := func(s symv) symv {
		r := symv{0, "false"}
		for i := 0; i+1 < len(ranges); i += 2 {
			lo, hi := ranges[i], ranges[i+1]
			if lo > 0x7f {
				continue
			}
			if hi > 0x7f {
				hi = 0x7f
			}
			var c symv
			if lo == hi {
				c = mk(0, "=", s, symv{8, bvLit(uint64(lo), 8)})
			} else {
				c = symAnd(mk(0, "bvuge", s, symv{8, bvLit(uint64(lo), 8)}), mk(0, "bvule", s, symv{8, bvLit(uint64(hi), 8)}))
			}
			r = symOr(r, c)
		}
		return r
	}
	return rxByteIs(b, pred, term)
}

// rxMatch tries to match re at position pos of subject s and calls k with the end position of each candidate match
// in preference order; it returns true as soon as k does.
func rxMatch(re *syntax.Regexp, s []value, pos int, k func(int) bool) bool {
	switch re.Op {
	case syntax.OpEmptyMatch:
		return k(pos)
	case syntax.OpNoMatch:
		return false
	case syntax.OpLiteral:
		p := pos
		for _, r := range re.Rune {
			if r > 0x7f {
				panic(pathUnsupported{"non-ASCII literal in regexp"})
			}
			if p >= len(s) {
				return false
			}
			r := r
			fold := re.Flags&syntax.FoldCase != 0
			ok := rxByteIs(s[p], func(c uint8) bool {
				if fold {
					return lower(c) == lower(uint8(r))
				}
				return c == uint8(r)
			}, func(sv symv) symv {
				eq := mk(0, "=", sv, symv{8, bvLit(uint64(r), 8)})
				if fold && ((r >= 'a' && r <= 'z') || (r >= 'A' && r <= 'Z')) {
					eq = symOr(eq, mk(0, "=", sv, symv{8, bvLit(uint64(r^0x20), 8)}))
				}
				return eq
			})
			if !ok {
				return false
			}
			p++
		}
		return k(p)
	case syntax.OpCharClass:
		if pos >= len(s) {
			return false
		}
		if !rxClass(re.Rune, s[pos], false) {
			return false
		}
		return k(pos + 1)
	case syntax.OpAnyChar:
		if pos >= len(s) {
			return false
		}
		return k(pos + 1)
	case syntax.OpAnyCharNotNL:
		if pos >= len(s) {
			return false
		}
		if rxClass([]rune{'\n', '\n'}, s[pos], false) {
			return false
		}
		return k(pos + 1)
	case syntax.OpBeginText:
		if pos != 0 {
			return false
		}
		return k(pos)
	case syntax.OpEndText:
		if pos != len(s) {
			return false
		}
		return k(pos)
	case syntax.OpBeginLine:
		if pos == 0 || rxClass([]rune{'\n', '\n'}, s[pos-1], false) {
			return k(pos)
		}
		return false
	case syntax.OpEndLine:
		if pos == len(s) || rxClass([]rune{'\n', '\n'}, s[pos], false) {
			return k(pos)
		}
		return false
	case syntax.OpCapture:
		return rxMatch(re.Sub[0], s, pos, k)
	case syntax.OpConcat:
		var seq func(i, p int) bool
		seq = func(i, p int) bool {
			if i == len(re.Sub) {
				return k(p)
			}
			return rxMatch(re.Sub[i], s, p, func(q int) bool { return seq(i+1, q) })
		}
		return seq(0, pos)
	case syntax.OpAlternate:
		for _, sub := range re.Sub {
			if rxMatch(sub, s, pos, k) {
				return true
			}
		}
		return false
	case syntax.OpQuest:
		if re.Flags&syntax.NonGreedy != 0 {
			return k(pos) || rxMatch(re.Sub[0], s, pos, k)
		}
		return rxMatch(re.Sub[0], s, pos, k) || k(pos)
	case syntax.OpStar, syntax.OpPlus:
		var loop func(p int, first bool) bool
		loop = func(p int, first bool) bool {
			more := func() bool {
				return rxMatch(re.Sub[0], s, p, func(q int) bool {
					if q == p {
						return false // empty iteration: stop
					}
					return loop(q, false)
				})
			}
			if first && re.Op == syntax.OpPlus {
				return more()
			}
			if re.Flags&syntax.NonGreedy != 0 {
				return k(p) || more()
			}
			return more() || k(p)
		}
		return loop(pos, true)
	case syntax.OpRepeat:
		// Simplify() rewrites counted repetition; reaching here means an unsupported form
		panic(pathUnsupported{"counted repetition in regexp"})
	}
	panic(pathUnsupported{"regexp operator " + re.Op.String()})
}

func lower(c uint8) uint8 {
	if c >= 'A' && c <= 'Z' {
		return c + 32
	}
	return c
}

// rxFind returns the leftmost-first match [start,end) or (-1,-1).
func rxFind(rx *rxValue, s []value) (int, int) {
	for start := 0; start <= len(s); start++ {
		end := -1
		if rxMatch(rx.re, s, start, func(e int) bool { end = e; return true }) {
			return start, end
		}
	}
	return -1, -1
}

func rxRecv(v value) *rxValue {
	if p, ok := v.(*rxValue); ok {
		return p
	}
	panic(pathUnsupported{"method call on an unmodelled regexp value"})
}

func init() {
	rxIntr := map[string]intrinsic{
		"regexp.MustCompile": func(fr *frame, a []value) value { return rxCompile(concStr(a[0])) },
		"regexp.Compile":     func(fr *frame, a []value) value { return tuple{rxCompile(concStr(a[0])), iface{}} },
		"(*regexp.Regexp).MatchString": func(fr *frame, a []value) value {
			st, _ := rxFind(rxRecv(a[0]), strBytes(a[1]))
			return st >= 0
		},
		"(*regexp.Regexp).FindString": func(fr *frame, a []value) value {
			b := strBytes(a[1])
			st, en := rxFind(rxRecv(a[0]), b)
			if st < 0 {
				return ""
			}
			return normStr(b[st:en])
		},
		"(*regexp.Regexp).FindStringIndex": func(fr *frame, a []value) value {
			st, en := rxFind(rxRecv(a[0]), strBytes(a[1]))
			if st < 0 {
				var nilslice []value
				return nilslice
			}
			return []value{st, en}
		},
		"(*regexp.Regexp).String": func(fr *frame, a []value) value { return rxRecv(a[0]).pat },
	}
	for k, v := range rxIntr {
		intrinsics[k] = v
	}
}
