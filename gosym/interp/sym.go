// gosym: symbolic extension of the x/tools SSA interpreter (see /verif/DESIGN.md section 2.1).
//
// Symbolic scalars are SMT-LIB2 terms (bit-vectors of the Go width, Bool, Int for *big.Int); everything else
// stays a concrete interpreter value.  A branch on a symbolic condition asks one long-lived `z3 -in` which
// sides are feasible and forks by re-execution with a decision prefix.
package interp

import (
	"bufio"
	"fmt"
	"io"
	"os"
	"os/exec"
	"sort"
	"strconv"
	"strings"
	"time"
)

// symv is a symbolic scalar.  w == 0: Bool; w > 0: bit-vector of w bits; w == -1: mathematical Int.
type symv struct {
	w int
	t string
}

// symstr is a string (or the content of a string) whose bytes may be symbolic; length is concrete.
type symstr struct {
	b []value // each uint8 or symv{w:8}
}

func isSym(x value) bool {
	switch x.(type) {
	case symv, symstr:
		return true
	}
	return false
}

// ---------------------------------------------------------------------------------------------------------
// Engine: solver process, decision prefix, statistics.

type Violation struct {
	Kind   string            `json:"kind"`
	Msg    string            `json:"msg"`
	Model  map[string]string `json:"model"`
	Prefix []bool            `json:"decisions"`
	Where  string            `json:"where,omitempty"`
}

type Stats struct {
	Paths       int     `json:"paths"`
	PathsOK     int     `json:"paths_ok"`
	PathsPruned int     `json:"paths_pruned"`
	Queries     int     `json:"queries"`
	Sat         int     `json:"sat"`
	Unsat       int     `json:"unsat"`
	Unknown     int     `json:"unknown"`
	SolverS     float64 `json:"solver_s"`
	Instrs      int64   `json:"instrs"`
	Decisions   int     `json:"decisions"`
	Asserts     int     `json:"asserts_checked"`
	Witnesses   int     `json:"witnesses"`
}

type Engine struct {
	cmd    *exec.Cmd
	in     io.WriteCloser
	out    *bufio.Reader
	Stats  Stats
	decls  map[string]int // symbolic input name -> width
	order  []string
	depth  int // current push depth
	prefix []bool
	trace  []bool
	// pending alternative prefixes (DFS stack)
	work        [][]bool
	Violations  []Violation
	Unsupported []string
	Observed    []map[string]string // witness models (one per completed path, capped)
	MaxPaths    int
	MaxInstrs   int64
	MaxDecisions int
	decided      map[string]bool
	sched        *scheduler
	preemptBound int
	syncMaps     map[*value]map[any]value
	envFS        map[string]bool // environment-stub file system: paths created on this path
	envFiles     map[string]string // environment-stub file system: contents of the files registered by the harness
	budgetAt     int64
	budgetMsg    string
	TimeoutMs   int
	instrs      int64
	defs        map[string]string
	ndefs       int
	Funcs       map[string]int // functions interpreted (name -> instruction count)
	Intrinsics  map[string]int
	pathAssumes int
	SolverPath  string
	Trace       bool
	WantWitness bool
	pathConds   []string
	nfresh      int
	choiceSeen  map[string]bool
	mapOrder    int // 0: ascending key order, 1: descending (harness-selected map iteration order)
	nkeys       int
	symKeys     map[int]symstr
	snaps       map[*value]bool // read-only snapshot cells standing for container[symbolic index]
	captured    []value // text written through fmt.Fprint* to writers that are not captured otherwise
}

var E *Engine

type pathAbort struct{ reason string }   // assume(false) / infeasible: silently prune
type pathUnsupported struct{ reason string }
type pathViolation struct{ v Violation }

func NewEngine(solver string, timeoutMs int) (*Engine, error) {
	e := &Engine{decls: map[string]int{}, defs: map[string]string{}, Funcs: map[string]int{}, Intrinsics: map[string]int{},
		MaxPaths: 20000, MaxInstrs: 50_000_000, MaxDecisions: 4000, TimeoutMs: timeoutMs, SolverPath: solver}
	if err := e.start(); err != nil {
		return nil, err
	}
	return e, nil
}

func (e *Engine) start() error {
	e.cmd = exec.Command(e.SolverPath, "-in", fmt.Sprintf("-t:%d", e.TimeoutMs))
	in, err := e.cmd.StdinPipe()
	if err != nil {
		return err
	}
	out, err := e.cmd.StdoutPipe()
	if err != nil {
		return err
	}
	e.cmd.Stderr = os.Stderr
	if err := e.cmd.Start(); err != nil {
		return err
	}
	e.in = in
	e.out = bufio.NewReaderSize(out, 1<<20)
	e.send("(set-option :global-decls true)")
	e.send("(set-option :produce-models true)")
	return nil
}

func (e *Engine) Close() {
	if e.in != nil {
		e.in.Close()
	}
	if e.cmd != nil {
		e.cmd.Wait()
	}
}

func (e *Engine) send(s string) {
	if e.Trace {
		fmt.Fprintln(os.Stderr, "SMT>", s)
	}
	io.WriteString(e.in, s)
	io.WriteString(e.in, "\n")
}

func (e *Engine) readLine() string {
	l, err := e.out.ReadString('\n')
	if err != nil {
		panic(pathUnsupported{"solver died: " + err.Error()})
	}
	return strings.TrimSpace(l)
}

// readSexpr reads one balanced s-expression (possibly multi-line) from the solver.
func (e *Engine) readSexpr() string {
	var sb strings.Builder
	depth := 0
	started := false
	for {
		l, err := e.out.ReadString('\n')
		if err != nil {
			panic(pathUnsupported{"solver died: " + err.Error()})
		}
		sb.WriteString(l)
		inStr := false
		for _, c := range l {
			if c == '"' {
				inStr = !inStr
			}
			if inStr {
				continue
			}
			if c == '(' {
				depth++
				started = true
			} else if c == ')' {
				depth--
			}
		}
		if started && depth <= 0 {
			break
		}
		if !started && strings.TrimSpace(l) != "" {
			break
		}
	}
	return sb.String()
}

func sortOf(w int) string {
	switch {
	case w == 0:
		return "Bool"
	case w < 0:
		return "Int"
	}
	return fmt.Sprintf("(_ BitVec %d)", w)
}

// Fresh declares (once) a named symbolic input.
func (e *Engine) Fresh(name string, w int) symv {
	if ow, ok := e.decls[name]; ok {
		if ow != w {
			panic(pathUnsupported{"input " + name + " declared with two sorts"})
		}
		return symv{w, name}
	}
	e.decls[name] = w
	e.order = append(e.order, name)
	e.send(fmt.Sprintf("(declare-const %s %s)", name, sortOf(w)))
	return symv{w, name}
}

// name gives long terms a solver-side name so that term strings stay small (DAG sharing).
func (e *Engine) name(s symv) symv {
	if len(s.t) < 160 {
		return s
	}
	if n, ok := e.defs[s.t]; ok {
		return symv{s.w, n}
	}
	e.ndefs++
	n := fmt.Sprintf("d!%d", e.ndefs)
	e.send(fmt.Sprintf("(define-fun %s () %s %s)", n, sortOf(s.w), s.t))
	e.defs[s.t] = n
	return symv{s.w, n}
}

func (e *Engine) push(c string) {
	e.send("(push 1)")
	e.send("(assert " + c + ")")
	e.depth++
	e.pathConds = append(e.pathConds, c)
}

func (e *Engine) resetPath() {
	e.nfresh = 0
	e.choiceSeen = map[string]bool{}
	e.mapOrder = 0
	e.nkeys = 0
	e.symKeys = map[int]symstr{}
	e.captured = nil
	e.snaps = map[*value]bool{}
	e.decided = map[string]bool{}
	e.budgetAt = 0
	e.sched = nil
	e.preemptBound = -1
	e.syncMaps = map[*value]map[any]value{}
	e.envFS = map[string]bool{}
	e.envFiles = map[string]string{}
	if e.depth > 0 {
		e.send(fmt.Sprintf("(pop %d)", e.depth))
	}
	e.depth = 0
	e.pathConds = e.pathConds[:0]
}

// checkSat under the current path condition plus extra.
func (e *Engine) checkSat(extra string) string {
	t0 := time.Now()
	if extra != "" {
		e.send("(push 1)")
		e.send("(assert " + extra + ")")
	}
	e.send("(check-sat)")
	r := e.readLine()
	for strings.HasPrefix(r, "(error") || r == "" {
		if strings.HasPrefix(r, "(error") {
			e.Stats.Unknown++
			if extra != "" {
				e.send("(pop 1)")
			}
			panic(pathUnsupported{"solver error: " + r})
		}
		r = e.readLine()
	}
	e.Stats.Queries++
	e.Stats.SolverS += time.Since(t0).Seconds()
	switch r {
	case "sat":
		e.Stats.Sat++
	case "unsat":
		e.Stats.Unsat++
	default:
		e.Stats.Unknown++
	}
	return r
	// caller pops when extra != "" (after optionally reading the model)
}

func (e *Engine) popExtra(extra string) {
	if extra != "" {
		e.send("(pop 1)")
	}
}

// model reads the values of all declared inputs after a sat answer.
func (e *Engine) model() map[string]string {
	m := map[string]string{}
	if len(e.order) == 0 {
		return m
	}
	e.send("(get-value (" + strings.Join(e.order, " ") + "))")
	s := e.readSexpr()
	// parse ((name value) (name value) ...)
	toks := tokenize(s)
	i := 0
	var parse func() any
	parse = func() any {
		if toks[i] == "(" {
			i++
			var l []any
			for toks[i] != ")" {
				l = append(l, parse())
			}
			i++
			return l
		}
		t := toks[i]
		i++
		return t
	}
	if len(toks) == 0 {
		return m
	}
	top, _ := parse().([]any)
	for _, p := range top {
		pl, ok := p.([]any)
		if !ok || len(pl) != 2 {
			continue
		}
		name, _ := pl[0].(string)
		m[name] = smtValue(pl[1])
	}
	return m
}

func tokenize(s string) []string {
	var out []string
	cur := strings.Builder{}
	flush := func() {
		if cur.Len() > 0 {
			out = append(out, cur.String())
			cur.Reset()
		}
	}
	for _, c := range s {
		switch c {
		case '(', ')':
			flush()
			out = append(out, string(c))
		case ' ', '\n', '\t', '\r':
			flush()
		default:
			cur.WriteRune(c)
		}
	}
	flush()
	return out
}

// smtValue renders a solver value as a decimal (unsigned for bit-vectors) or true/false.
func smtValue(v any) string {
	switch v := v.(type) {
	case string:
		if strings.HasPrefix(v, "#x") {
			n, ok := new(bigInt).SetString(v[2:], 16)
			if ok {
				return n.String()
			}
		}
		if strings.HasPrefix(v, "#b") {
			n, ok := new(bigInt).SetString(v[2:], 2)
			if ok {
				return n.String()
			}
		}
		return v
	case []any:
		// (- 5) or (_ bv5 8)
		if len(v) == 2 {
			if s, ok := v[0].(string); ok && s == "-" {
				return "-" + smtValue(v[1])
			}
		}
		if len(v) == 3 {
			if s, ok := v[0].(string); ok && s == "_" {
				if b, ok := v[1].(string); ok && strings.HasPrefix(b, "bv") {
					return b[2:]
				}
			}
		}
	}
	return fmt.Sprint(v)
}

// Decide forks on a symbolic boolean; returns the side taken on this run.
func (e *Engine) Decide(c symv) bool {
	if c.w != 0 {
		panic("Decide on non-bool")
	}
	if c.t == "true" {
		return true
	}
	if c.t == "false" {
		return false
	}
	c = e.name(c)
	// a condition already decided on this path (the same term is tested again, e.g. a symbolic byte compared by
	// several regular expressions) keeps its value: no query, no new decision.  Replay is unaffected because the
	// cache is rebuilt by the same deterministic sequence of decisions.
	if d, ok := e.decided[c.t]; ok {
		return d
	}
	k := len(e.trace)
	if k >= e.MaxDecisions {
		panic(pathUnsupported{fmt.Sprintf("more than %d decisions on one path", e.MaxDecisions)})
	}
	e.Stats.Decisions++
	if k < len(e.prefix) {
		d := e.prefix[k]
		e.trace = append(e.trace, d)
		if d {
			e.push(c.t)
		} else {
			e.push("(not " + c.t + ")")
		}
		e.decided[c.t] = d
		return d
	}
	rt := e.checkSat(c.t)
	e.popExtra(c.t)
	rf := e.checkSat("(not " + c.t + ")")
	e.popExtra("x")
	if rt == "unknown" || rf == "unknown" {
		panic(pathUnsupported{"solver unknown on a branch feasibility query"})
	}
	switch {
	case rt == "sat" && rf == "sat":
		alt := append(append([]bool{}, e.trace...), false)
		e.work = append(e.work, alt)
		e.trace = append(e.trace, true)
		e.push(c.t)
		e.decided[c.t] = true
		return true
	case rt == "sat":
		e.trace = append(e.trace, true)
		e.push(c.t)
		e.decided[c.t] = true
		return true
	case rf == "sat":
		e.trace = append(e.trace, false)
		e.push("(not " + c.t + ")")
		e.decided[c.t] = false
		return false
	}
	panic(pathAbort{"infeasible"})
}

// decideFree is Decide for a condition over a fresh, otherwise unconstrained choice variable: both sides are
// feasible by construction, so no solver query is needed.
func (e *Engine) decideFree(c symv) bool {
	k := len(e.trace)
	if k >= e.MaxDecisions {
		panic(pathUnsupported{fmt.Sprintf("more than %d decisions on one path", e.MaxDecisions)})
	}
	e.Stats.Decisions++
	d := true
	if k < len(e.prefix) {
		d = e.prefix[k]
	} else {
		e.work = append(e.work, append(append([]bool{}, e.trace...), false))
	}
	e.trace = append(e.trace, d)
	if d {
		e.push(c.t)
	} else {
		e.push("(not " + c.t + ")")
	}
	return d
}

// Assume adds a constraint to the path; prunes the path when it becomes infeasible.
func (e *Engine) Assume(c symv) {
	if c.t == "true" {
		return
	}
	if c.t == "false" {
		panic(pathAbort{"assume false"})
	}
	c = e.name(c)
	e.push(c.t)
	if e.checkSat("") != "sat" {
		panic(pathAbort{"assumption infeasible"})
	}
}

// Assert checks that c holds on every input of the current path.
func (e *Engine) Assert(c symv, msg string, where string) {
	e.Stats.Asserts++
	if c.t == "true" {
		return
	}
	neg := "(not " + c.t + ")"
	if c.t == "false" {
		neg = "true"
	}
	r := e.checkSat(neg)
	if r == "sat" {
		m := e.model()
		e.popExtra(neg)
		panic(pathViolation{Violation{Kind: "assert", Msg: msg, Model: m, Prefix: append([]bool{}, e.trace...), Where: where}})
	}
	e.popExtra(neg)
	if r != "unsat" {
		panic(pathUnsupported{"solver unknown on assertion: " + msg})
	}
}

// Concretize enumerates the feasible values of a bit-vector term (forking), at most limit values.
func (e *Engine) Concretize(x symv, signed bool, limit int) int64 {
	x = e.name(x)
	for n := 0; n < limit; n++ {
		r := e.checkSat("")
		if r != "sat" {
			panic(pathAbort{"infeasible during concretisation"})
		}
		e.send("(get-value (" + x.t + "))")
		s := e.readSexpr()
		toks := tokenize(s)
		// ((term value))
		val := ""
		if len(toks) >= 5 {
			// value is last token(s) before the two closing parens
			j := len(toks) - 3
			if toks[j] == ")" { // (_ bvN w)
				val = strings.TrimPrefix(toks[j-2], "bv")
			} else {
				val = smtValue(toks[j])
			}
		}
		u, err := strconv.ParseUint(val, 10, 64)
		if err != nil {
			panic(pathUnsupported{"cannot parse solver value " + s})
		}
		lit := bvLit(u, x.w)
		if e.Decide(symv{0, "(= " + x.t + " " + lit + ")"}) {
			if signed && x.w < 64 && u&(1<<(uint(x.w)-1)) != 0 {
				return int64(u) - (1 << uint(x.w))
			}
			return int64(u)
		}
	}
	panic(pathUnsupported{fmt.Sprintf("more than %d feasible values while concretising a symbolic integer", limit)})
}

func bvLit(u uint64, w int) string {
	if w < 64 {
		u &= (1 << uint(w)) - 1
	}
	return fmt.Sprintf("(_ bv%d %d)", u, w)
}

func (e *Engine) SortedFuncs() []string {
	var l []string
	for k := range e.Funcs {
		l = append(l, k)
	}
	sort.Strings(l)
	return l
}

func snapCell(v value) *value {
	c := new(value)
	*c = v
	E.snaps[c] = true
	return c
}
