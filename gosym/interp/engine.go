package interp

import (
	"fmt"
	"go/token"
	"go/types"
	"os"
	"runtime"
	"runtime/debug"
	"strings"

	"golang.org/x/tools/go/ssa"
	
)

// opaque is the result of a call that is modelled as "some value nobody may look into".
type opaque struct{ what string }

var stdAllowed = map[string]bool{
	"strings": true, "strconv": true, "unicode": true, "unicode/utf8": true, "unicode/utf16": true, "sort": true, "slices": true,
	"errors": true, "math/bits": true, "bytes": true, "cmp": true, "maps": true, "math": true, "iter": true,
	"internal/bytealg": true, "internal/stringslite": true, "internal/byteorder": true, "internal/itoa": true,
	"internal/strconv": true, "container/list": true, "container/heap": true, "path": true, "internal/unsafeheader": true,
}

// packages whose init function is skipped although their functions may be interpreted
var skipInit = map[string]bool{"errors": true, "math": true, "bytes": true, "strings": false, "internal/bytealg": true}

func isStd(pkg *ssa.Package) bool {
	if pkg == nil {
		return true
	}
	p := pkg.Pkg.Path()
	first := p
	if i := strings.IndexByte(p, '/'); i >= 0 {
		first = p[:i]
	}
	return !strings.Contains(first, ".") && !strings.HasPrefix(p, ModulePrefix)
}

// ModulePrefix is the import path prefix of the module under analysis ("compiler").
var ModulePrefix = "compiler"

func denied(pkg *ssa.Package) bool {
	if pkg == nil {
		return false
	}
	if !isStd(pkg) {
		return false
	}
	return !stdAllowed[pkg.Pkg.Path()]
}

func (i *interpreter) global(g *ssa.Global) *value {
	if r, ok := i.globals[g]; ok {
		return r
	}
	cell := zero(mustDeref(g.Type()))
	i.globals[g] = &cell
	return &cell
}

// callHook intercepts calls before the interpreter proper: intrinsics, package initialisers, opaque packages.
func callHook(fr *frame, fn *ssa.Function, args []value) (value, bool) {
	if noHook == fn {
		noHook = nil
		return nil, false
	}
	name := fn.String()
	if in := intrinsics[name]; in != nil {
		E.Intrinsics[name]++
		return in(fr, args), true
	}
	if fn.Synthetic == "package initializer" && fn.Pkg != nil {
		path := fn.Pkg.Pkg.Path()
		if denied(fn.Pkg) || skipInit[path] {
			return nil, true
		}
		if isStd(fn.Pkg) {
			if fr.i.stdInit[fn.Pkg] {
				return nil, true
			}
			fr.i.stdInit[fn.Pkg] = true
			// a std initialiser that runs into an unmodelled call is recorded, not fatal
			func() {
				defer func() {
					if r := recover(); r != nil {
						if u, ok := r.(pathUnsupported); ok {
							E.note("init of " + path + " incomplete: " + u.reason)
							return
						}
						panic(r)
					}
				}()
				callSSAbody(fr.i, fr.caller, fn, args, nil)
			}()
			return nil, true
		}
		return nil, false
	}
	if fn.Pkg != nil && denied(fn.Pkg) {
		if fn.Parent() == nil {
			if ext := externals[name]; ext != nil {
				return nil, false
			}
		}
		panic(pathUnsupported{"call into unmodelled package: " + name})
	}
	return nil, false
}

func (e *Engine) note(s string) {
	for _, x := range e.Unsupported {
		if x == s {
			return
		}
	}
	e.Unsupported = append(e.Unsupported, s)
}

// callSSAbody runs fn without consulting callHook again.
func callSSAbody(i *interpreter, caller *frame, fn *ssa.Function, args []value, env []value) value {
	noHook = fn
	defer func() { noHook = nil }()
	return callSSA(i, caller, token.NoPos, fn, args, env)
}

var noHook *ssa.Function

// ---------------------------------------------------------------------------------------------------------

type Result struct {
	Harness     string              `json:"harness"`
	Status      string              `json:"status"` // held | violated | inconclusive
	Stats       Stats               `json:"stats"`
	Violations  []Violation         `json:"violations"`
	Unsupported []string            `json:"unsupported"`
	Notes       []string            `json:"notes"`
	Funcs       map[string]int      `json:"functions"`
	Intrinsics  map[string]int      `json:"intrinsics"`
	Witnesses   []map[string]string `json:"witnesses"`
	Inputs      []string            `json:"inputs"`
}

type Options struct {
	MaxPaths    int
	MaxInstrs   int64
	MaxWitness  int
	StopAtFirst bool
	Trace       bool
}

// RunHarness explores all paths of function `name` of package pkg.
func RunHarness(prog *ssa.Program, pkg *ssa.Package, name string, e *Engine, opt Options) Result {
	E = e
	fn := pkg.Func(name)
	res := Result{Harness: name}
	if fn == nil {
		res.Status = "inconclusive"
		res.Unsupported = []string{"harness function not found: " + name}
		return res
	}
	in := &interpreter{
		prog:    prog,
		globals: make(map[*ssa.Global]*value),
		sizes:   &types.StdSizes{WordSize: 8, MaxAlign: 8},
		stdInit: map[*ssa.Package]bool{},
	}
	if rt := prog.ImportedPackage("runtime"); rt != nil {
		in.runtimeErrorString = rt.Type("errorString").Object().Type()
	}
	initReflect(in)
	if opt.MaxPaths > 0 {
		e.MaxPaths = opt.MaxPaths
	}
	if opt.MaxInstrs > 0 {
		e.MaxInstrs = opt.MaxInstrs
	}
	if opt.MaxWitness == 0 {
		opt.MaxWitness = 3
	}
	e.work = [][]bool{{}}
	inconclusive := false
	for len(e.work) > 0 {
		if e.Stats.Paths >= e.MaxPaths {
			e.note(fmt.Sprintf("path budget %d exhausted with %d prefixes pending", e.MaxPaths, len(e.work)))
			inconclusive = true
			break
		}
		pre := e.work[len(e.work)-1]
		e.work = e.work[:len(e.work)-1]
		e.prefix = pre
		e.trace = e.trace[:0]
		e.instrs = 0
		e.resetPath()
		// fresh state for module packages
		for g := range in.globals {
			if g.Pkg != nil && !isStd(g.Pkg) {
				delete(in.globals, g)
			}
		}
		e.Stats.Paths++
		outcome := runPath(in, pkg, fn)
		e.Stats.Instrs += e.instrs
		switch o := outcome.(type) {
		case nil:
			e.Stats.PathsOK++
			if len(e.Observed) < opt.MaxWitness {
				if e.checkSat("") == "sat" {
					e.Observed = append(e.Observed, e.model())
					e.Stats.Witnesses++
				}
			}
		case pathAbort:
			e.Stats.PathsPruned++
		case pathUnsupported:
			e.note(o.reason)
			inconclusive = true
		case pathViolation:
			e.Violations = append(e.Violations, o.v)
			if opt.StopAtFirst || len(e.Violations) >= 25 {
				e.work = nil
			}
		}
	}
	e.resetPath()
	res.Stats = e.Stats
	res.Violations = e.Violations
	res.Funcs = e.Funcs
	res.Intrinsics = e.Intrinsics
	res.Witnesses = e.Observed
	res.Inputs = e.order
	for _, u := range e.Unsupported {
		if strings.HasPrefix(u, "init of ") {
			res.Notes = append(res.Notes, u)
		} else {
			res.Unsupported = append(res.Unsupported, u)
		}
	}
	switch {
	case len(e.Violations) > 0:
		res.Status = "violated"
	case inconclusive:
		res.Status = "inconclusive"
	default:
		res.Status = "held"
	}
	return res
}

// runPath executes one path; returns nil (completed) or the control panic that ended it.
func runPath(in *interpreter, pkg *ssa.Package, fn *ssa.Function) (outcome any) {
	defer func() {
		r := recover()
		if r == nil {
			return
		}
		switch p := r.(type) {
		case pathAbort, pathUnsupported, pathViolation:
			outcome = p
		case targetPanic:
			outcome = violationFromPanic("panic: " + toString(p.v))
		case runtime.Error:
			msg := p.Error()
			if os.Getenv("GOSYM_DEBUG") != "" {
				fmt.Fprintln(os.Stderr, msg, string(debug.Stack()))
			}
			outcome = violationFromPanic("runtime error in target: " + msg)
		case runtimeErr:
			outcome = violationFromPanic(p.Error())
		case string:
			// interpreter-internal panic (unexpected value shape etc.): the engine, not the target, is at fault
			if os.Getenv("GOSYM_DEBUG") != "" {
				fmt.Fprintln(os.Stderr, p, string(debug.Stack()))
			}
			outcome = pathUnsupported{"interpreter: " + p}
		default:
			if os.Getenv("GOSYM_DEBUG") != "" {
				fmt.Fprintln(os.Stderr, p, string(debug.Stack()))
			}
			outcome = pathUnsupported{fmt.Sprintf("interpreter: %v", p)}
		}
	}()
	if init := pkg.Func("init"); init != nil {
		call(in, nil, token.NoPos, init, nil)
	}
	call(in, nil, token.NoPos, fn, nil)
	return nil
}

func violationFromPanic(msg string) any {
	// a panic of the target program on a feasible path: report with a model of the path condition
	m := map[string]string{}
	if E.checkSat("") == "sat" {
		m = E.model()
	}
	return pathViolation{Violation{Kind: "panic", Msg: msg, Model: m, Prefix: append([]bool{}, E.trace...)}}
}

func mustDeref(t types.Type) types.Type {
	if p, ok := t.Underlying().(*types.Pointer); ok {
		return p.Elem()
	}
	panic(fmt.Sprintf("%v is not a pointer", t))
}
