package interp

import (
	"fmt"
	"go/token"
	"go/types"
	"math/big"
)

type bigInt = big.Int

// intInfo returns width and signedness of an integer type (int/uint/uintptr are 64 bit).
func intInfo(t types.Type) (w int, signed bool, ok bool) {
	b, isb := t.Underlying().(*types.Basic)
	if !isb {
		return 0, false, false
	}
	switch b.Kind() {
	case types.Int, types.Int64, types.UntypedInt:
		return 64, true, true
	case types.Int8:
		return 8, true, true
	case types.Int16:
		return 16, true, true
	case types.Int32, types.UntypedRune:
		return 32, true, true
	case types.Uint, types.Uint64, types.Uintptr:
		return 64, false, true
	case types.Uint8:
		return 8, false, true
	case types.Uint16:
		return 16, false, true
	case types.Uint32:
		return 32, false, true
	}
	return 0, false, false
}

// toSym converts a concrete scalar to a term of the given width (0 = bool).
func toSym(x value, w int) symv {
	switch x := x.(type) {
	case symv:
		return x
	case bool:
		if x {
			return symv{0, "true"}
		}
		return symv{0, "false"}
	case int:
		return symv{w, bvLit(uint64(x), w)}
	case int8:
		return symv{w, bvLit(uint64(x), w)}
	case int16:
		return symv{w, bvLit(uint64(x), w)}
	case int32:
		return symv{w, bvLit(uint64(x), w)}
	case int64:
		return symv{w, bvLit(uint64(x), w)}
	case uint:
		return symv{w, bvLit(uint64(x), w)}
	case uint8:
		return symv{w, bvLit(uint64(x), w)}
	case uint16:
		return symv{w, bvLit(uint64(x), w)}
	case uint32:
		return symv{w, bvLit(uint64(x), w)}
	case uint64:
		return symv{w, bvLit(x, w)}
	case uintptr:
		return symv{w, bvLit(uint64(x), w)}
	}
	panic(pathUnsupported{fmt.Sprintf("cannot make a term from %T", x)})
}

func mk(w int, op string, args ...symv) symv {
	s := "(" + op
	for _, a := range args {
		s += " " + a.t
	}
	s += ")"
	return E.name(symv{w, s})
}

func symNot(c symv) symv {
	switch c.t {
	case "true":
		return symv{0, "false"}
	case "false":
		return symv{0, "true"}
	}
	return mk(0, "not", c)
}

func symAnd(a, b symv) symv {
	if a.t == "true" {
		return b
	}
	if b.t == "true" {
		return a
	}
	if a.t == "false" || b.t == "false" {
		return symv{0, "false"}
	}
	return mk(0, "and", a, b)
}

func symOr(a, b symv) symv {
	if a.t == "false" {
		return b
	}
	if b.t == "false" {
		return a
	}
	if a.t == "true" || b.t == "true" {
		return symv{0, "true"}
	}
	return mk(0, "or", a, b)
}

func symIte(c, a, b symv) symv {
	if c.t == "true" {
		return a
	}
	if c.t == "false" {
		return b
	}
	if a.t == b.t {
		return a
	}
	return mk(a.w, "ite", c, a, b)
}

func boolToSym(b bool) symv {
	if b {
		return symv{0, "true"}
	}
	return symv{0, "false"}
}

// symBinop: at least one operand is symbolic (symv).  t is the static operand type.
func symBinop(op token.Token, t types.Type, x, y value) value {
	if b, ok := t.Underlying().(*types.Basic); ok && b.Info()&types.IsBoolean != 0 {
		a, c := toSym(x, 0), toSym(y, 0)
		switch op {
		case token.EQL:
			return mk(0, "=", a, c)
		case token.NEQ:
			return symNot(mk(0, "=", a, c))
		case token.AND:
			return symAnd(a, c)
		case token.OR:
			return symOr(a, c)
		}
		panic(pathUnsupported{"boolean operator " + op.String()})
	}
	w, signed, ok := intInfo(t)
	if !ok {
		panic(pathUnsupported{"symbolic operand of type " + t.String() + " in " + op.String()})
	}
	a := toSym(x, w)
	switch op {
	case token.SHL, token.SHR:
		// shift count may have any unsigned/signed integer type: normalise to width w
		var cnt symv
		switch yv := y.(type) {
		case symv:
			cnt = yv
			if cnt.w < w {
				cnt = symv{w, fmt.Sprintf("((_ zero_extend %d) %s)", w-cnt.w, cnt.t)}
			} else if cnt.w > w {
				// counts >= w give 0 / sign; saturate
				big := mk(0, "bvuge", cnt, symv{cnt.w, bvLit(uint64(w), cnt.w)})
				low := symv{w, fmt.Sprintf("((_ extract %d 0) %s)", w-1, cnt.t)}
				cnt = symIte(big, symv{w, bvLit(uint64(w), w)}, low)
			}
		default:
			c := asUint64Conc(y)
			if c > uint64(w) {
				c = uint64(w)
			}
			cnt = symv{w, bvLit(c, w)}
		}
		if op == token.SHL {
			return mk(w, "bvshl", a, cnt)
		}
		if signed {
			return mk(w, "bvashr", a, cnt)
		}
		return mk(w, "bvlshr", a, cnt)
	}
	b := toSym(y, w)
	switch op {
	case token.ADD:
		return mk(w, "bvadd", a, b)
	case token.SUB:
		return mk(w, "bvsub", a, b)
	case token.MUL:
		return mk(w, "bvmul", a, b)
	case token.QUO, token.REM:
		// division by zero panics in Go
		if E.Decide(mk(0, "=", b, symv{w, bvLit(0, w)})) {
			panic(targetPanic{iface{t: types.Typ[types.String], v: "runtime error: integer divide by zero"}})
		}
		if op == token.QUO {
			if signed {
				return mk(w, "bvsdiv", a, b)
			}
			return mk(w, "bvudiv", a, b)
		}
		if signed {
			return mk(w, "bvsrem", a, b)
		}
		return mk(w, "bvurem", a, b)
	case token.AND:
		return mk(w, "bvand", a, b)
	case token.OR:
		return mk(w, "bvor", a, b)
	case token.XOR:
		return mk(w, "bvxor", a, b)
	case token.AND_NOT:
		return mk(w, "bvand", a, mk(w, "bvnot", b))
	case token.EQL:
		return mk(0, "=", a, b)
	case token.NEQ:
		return symNot(mk(0, "=", a, b))
	case token.LSS:
		if signed {
			return mk(0, "bvslt", a, b)
		}
		return mk(0, "bvult", a, b)
	case token.LEQ:
		if signed {
			return mk(0, "bvsle", a, b)
		}
		return mk(0, "bvule", a, b)
	case token.GTR:
		if signed {
			return mk(0, "bvsgt", a, b)
		}
		return mk(0, "bvugt", a, b)
	case token.GEQ:
		if signed {
			return mk(0, "bvsge", a, b)
		}
		return mk(0, "bvuge", a, b)
	}
	panic(pathUnsupported{"symbolic binop " + op.String()})
}

func asUint64Conc(x value) uint64 {
	switch x := x.(type) {
	case int:
		return uint64(x)
	case int8:
		return uint64(x)
	case int16:
		return uint64(x)
	case int32:
		return uint64(x)
	case int64:
		return uint64(x)
	case uint:
		return uint64(x)
	case uint8:
		return uint64(x)
	case uint16:
		return uint64(x)
	case uint32:
		return uint64(x)
	case uint64:
		return x
	case uintptr:
		return uint64(x)
	}
	panic(fmt.Sprintf("asUint64Conc: %T", x))
}

func symUnop(op token.Token, t types.Type, x symv) value {
	switch op {
	case token.NOT:
		return symNot(x)
	case token.SUB:
		return mk(x.w, "bvneg", x)
	case token.XOR:
		return mk(x.w, "bvnot", x)
	}
	panic(pathUnsupported{"symbolic unop " + op.String()})
}

// symConv converts a symbolic scalar between integer types.
func symConv(tdst, tsrc types.Type, x symv) value {
	wd, _, okd := intInfo(tdst)
	ws, ssrc, oks := intInfo(tsrc)
	if !okd || !oks {
		if b, ok := tdst.Underlying().(*types.Basic); ok && b.Info()&types.IsString != 0 && oks {
			// string(rune) with a symbolic rune: one byte when it is ASCII
			if !E.Decide(mk(0, "bvult", x, symv{x.w, bvLit(0x80, x.w)})) {
				panic(pathUnsupported{"string(symbolic non-ASCII rune)"})
			}
			if x.w == 8 {
				return symstr{[]value{x}}
			}
			return symstr{[]value{E.name(symv{8, fmt.Sprintf("((_ extract 7 0) %s)", x.t)})}}
		}
		panic(pathUnsupported{"conversion " + tsrc.String() + " -> " + tdst.String() + " of a symbolic value"})
	}
	if x.w != ws {
		panic(fmt.Sprintf("symConv: width %d for %s", x.w, tsrc))
	}
	switch {
	case wd == ws:
		return x
	case wd < ws:
		return E.name(symv{wd, fmt.Sprintf("((_ extract %d 0) %s)", wd-1, x.t)})
	case ssrc:
		return E.name(symv{wd, fmt.Sprintf("((_ sign_extend %d) %s)", wd-ws, x.t)})
	}
	return E.name(symv{wd, fmt.Sprintf("((_ zero_extend %d) %s)", wd-ws, x.t)})
}

// ---------------------------------------------------------------------------------------------------------
// strings

func strBytes(x value) []value {
	switch x := x.(type) {
	case string:
		b := make([]value, len(x))
		for i := 0; i < len(x); i++ {
			b[i] = x[i]
		}
		return b
	case symstr:
		return x.b
	}
	panic(fmt.Sprintf("strBytes: %T", x))
}

func strLen(x value) int {
	switch x := x.(type) {
	case string:
		return len(x)
	case symstr:
		return len(x.b)
	}
	panic(fmt.Sprintf("strLen: %T", x))
}

// normStr returns a native string when all bytes are concrete.
func normStr(b []value) value {
	out := make([]byte, len(b))
	for i, v := range b {
		c, ok := v.(uint8)
		if !ok {
			return symstr{b}
		}
		out[i] = c
	}
	return string(out)
}

func byteEq(a, b value) symv {
	ca, oka := a.(uint8)
	cb, okb := b.(uint8)
	if oka && okb {
		return boolToSym(ca == cb)
	}
	return mk(0, "=", toSym(a, 8), toSym(b, 8))
}

func byteLt(a, b value) symv {
	ca, oka := a.(uint8)
	cb, okb := b.(uint8)
	if oka && okb {
		return boolToSym(ca < cb)
	}
	return mk(0, "bvult", toSym(a, 8), toSym(b, 8))
}

func strEq(x, y value) symv {
	a, b := strBytes(x), strBytes(y)
	if len(a) != len(b) {
		return symv{0, "false"}
	}
	r := symv{0, "true"}
	for i := range a {
		r = symAnd(r, byteEq(a[i], b[i]))
	}
	return r
}

// strLess: lexicographic x < y
func strLess(x, y value) symv {
	a, b := strBytes(x), strBytes(y)
	n := len(a)
	if len(b) < n {
		n = len(b)
	}
	// result = OR_i (prefix equal up to i AND a[i] < b[i])  OR (all n equal AND len(a) < len(b))
	res := symv{0, "false"}
	eq := symv{0, "true"}
	for i := 0; i < n; i++ {
		res = symOr(res, symAnd(eq, byteLt(a[i], b[i])))
		eq = symAnd(eq, byteEq(a[i], b[i]))
	}
	if len(a) < len(b) {
		res = symOr(res, eq)
	}
	return res
}

func symStrBinop(op token.Token, x, y value) value {
	switch op {
	case token.ADD:
		a, b := strBytes(x), strBytes(y)
		out := make([]value, 0, len(a)+len(b))
		out = append(out, a...)
		out = append(out, b...)
		return normStr(out)
	case token.EQL:
		return boolOrSym(strEq(x, y))
	case token.NEQ:
		return boolOrSym(symNot(strEq(x, y)))
	case token.LSS:
		return boolOrSym(strLess(x, y))
	case token.GTR:
		return boolOrSym(strLess(y, x))
	case token.LEQ:
		return boolOrSym(symNot(strLess(y, x)))
	case token.GEQ:
		return boolOrSym(symNot(strLess(x, y)))
	}
	panic(pathUnsupported{"string operator " + op.String()})
}

func boolOrSym(s symv) value {
	switch s.t {
	case "true":
		return true
	case "false":
		return false
	}
	return s
}

// condBool evaluates a (possibly symbolic) condition, forking when needed.
func condBool(v value) bool {
	switch v := v.(type) {
	case bool:
		return v
	case symv:
		return E.Decide(v)
	}
	panic(fmt.Sprintf("condBool: %T", v))
}

// indexConc turns a (possibly symbolic) index into a concrete one for a container of length n.
// Out-of-range values take the panic path like in Go.  it is the static type of the index expression.
func indexConc(idx value, n int, it types.Type) int {
	s, ok := idx.(symv)
	if !ok {
		return int(asInt64(idx))
	}
	inr := symInRange(s, n, it)
	if n == 0 || !E.Decide(inr) {
		panic(runtimeErr("index out of range (symbolic index)"))
	}
	w := s.w
	for k := 0; k < n-1; k++ {
		if E.Decide(mk(0, "=", s, symv{w, bvLit(uint64(k), w)})) {
			return k
		}
	}
	return n - 1
}

func symInRange(s symv, n int, it types.Type) symv {
	w := s.w
	_, signed, _ := intInfo(it)
	if w < 63 && uint64(n) > (uint64(1)<<uint(w))-1 {
		if signed {
			return mk(0, "bvsge", s, symv{w, bvLit(0, w)})
		}
		return symv{0, "true"}
	}
	if signed {
		return symAnd(mk(0, "bvsge", s, symv{w, bvLit(0, w)}), mk(0, "bvslt", s, symv{w, bvLit(uint64(n), w)}))
	}
	return mk(0, "bvult", s, symv{w, bvLit(uint64(n), w)})
}

// symSelect builds the term container[idx] for a container of concrete scalars (no forking on the index value).
// ok is false when the elements are not all concrete scalars of one width.
func symSelect(elems []value, idx symv, it types.Type) (value, bool) {
	n := len(elems)
	if n == 0 {
		return nil, false
	}
	ew := -2
	count := map[string]int{}
	terms := make([]symv, n)
	for i, e := range elems {
		var t symv
		switch x := e.(type) {
		case bool:
			t = toSym(x, 0)
		case int, int64, uint, uint64, uintptr:
			t = toSym(x, 64)
		case int32, uint32:
			t = toSym(x, 32)
		case int16, uint16:
			t = toSym(x, 16)
		case int8, uint8:
			t = toSym(x, 8)
		case symv:
			t = x
		default:
			return nil, false
		}
		if ew == -2 {
			ew = t.w
		} else if ew != t.w {
			return nil, false
		}
		terms[i] = t
		count[t.t]++
	}
	if !E.Decide(symInRange(idx, n, it)) {
		panic(runtimeErr("index out of range (symbolic index)"))
	}
	// default = most frequent element
	best := terms[0]
	for _, t := range terms {
		if count[t.t] > count[best.t] {
			best = t
		}
	}
	res := best
	for i := n - 1; i >= 0; i-- {
		if terms[i].t == best.t {
			continue
		}
		res = symIte(mk(0, "=", idx, symv{idx.w, bvLit(uint64(i), idx.w)}), terms[i], res)
	}
	return boolOrSymv(res), true
}

func boolOrSymv(s symv) value {
	if s.w == 0 {
		return boolOrSym(s)
	}
	return s
}

type runtimeErr string

func (e runtimeErr) Error() string { return "runtime error: " + string(e) }
func (e runtimeErr) RuntimeError() {}

// ---------------------------------------------------------------------------------------------------------
// deterministic map iteration (replay needs the same order on every run) and symbolic string keys

type orderedIter struct {
	keys []value
	vals []value
	i    int
}

func (it *orderedIter) next() tuple {
	if it.i >= len(it.keys) {
		return []value{false, nil, nil}
	}
	k, v := it.keys[it.i], it.vals[it.i]
	it.i++
	if sk, ok := k.(symkey); ok {
		k = E.symKeys[sk.id]
	}
	return []value{true, k, v}
}

func sortKV(keys, vals []value) {
	// insertion sort by printed form (maps in the harnesses are small)
	strs := make([]string, len(keys))
	for i, k := range keys {
		strs[i] = toString(k)
	}
	for i := 1; i < len(keys); i++ {
		for j := i; j > 0 && strs[j] < strs[j-1]; j-- {
			strs[j], strs[j-1] = strs[j-1], strs[j]
			keys[j], keys[j-1] = keys[j-1], keys[j]
			vals[j], vals[j-1] = vals[j-1], vals[j]
		}
	}
	if E.mapOrder == 1 {
		for i, j := 0, len(keys)-1; i < j; i, j = i+1, j-1 {
			keys[i], keys[j] = keys[j], keys[i]
			vals[i], vals[j] = vals[j], vals[i]
		}
	}
}

func newOrderedMapIter(m map[value]value) iter {
	it := &orderedIter{}
	for k, v := range m {
		it.keys = append(it.keys, k)
		it.vals = append(it.vals, v)
	}
	sortKV(it.keys, it.vals)
	return it
}

func newOrderedHashmapIter(m *hashmap) iter {
	it := &orderedIter{}
	for _, e := range m.entries() {
		for ; e != nil; e = e.next {
			it.keys = append(it.keys, e.key)
			it.vals = append(it.vals, e.value)
		}
	}
	sortKV(it.keys, it.vals)
	return it
}

// symkey stands for a symbolic string used as a map key (Go maps need hashable keys); E.symKeys maps it back.
type symkey struct{ id int }

func keyStr(k value) (value, bool) {
	switch x := k.(type) {
	case string, symstr:
		return x, true
	case symkey:
		return E.symKeys[x.id], true
	}
	return nil, false
}

func mapHasSymKeys(m map[value]value) bool {
	for k := range m {
		if _, ok := k.(symkey); ok {
			return true
		}
	}
	return false
}

// strMapLookup looks a (possibly symbolic) string up in a map that may hold symbolic keys, forking on equality.
func strMapLookup(m map[value]value, k value) (value, bool) {
	it := newOrderedMapIter(m).(*orderedIter)
	for i, key := range it.keys {
		ks, ok := keyStr(key)
		if !ok {
			continue
		}
		if condBool(boolOrSym(strEq(ks, k))) {
			return it.vals[i], true
		}
	}
	return nil, false
}

func symMapLookup(m map[value]value, k symstr) (value, bool) { return strMapLookup(m, k) }

func strMapUpdate(m map[value]value, k value, v value) {
	it := newOrderedMapIter(m).(*orderedIter)
	for _, key := range it.keys {
		ks, ok := keyStr(key)
		if !ok {
			continue
		}
		if condBool(boolOrSym(strEq(ks, k))) {
			m[key] = v
			return
		}
	}
	if ss, ok := k.(symstr); ok {
		E.nkeys++
		E.symKeys[E.nkeys] = ss
		m[symkey{E.nkeys}] = v
		return
	}
	m[k] = v
}

func symMapUpdate(m map[value]value, k symstr, v value) { strMapUpdate(m, k, v) }

type symStrIter struct {
	b []value
	i int
}

func (it *symStrIter) next() tuple {
	if it.i >= len(it.b) {
		return []value{false, 0, int32(0)}
	}
	pos := it.i
	c := it.b[pos]
	if cb, ok := c.(uint8); ok && cb >= 0x80 {
		// concrete multi-byte sequence: decode natively when all its bytes are concrete
		n := 1
		for pos+n < len(it.b) && n < 4 {
			nb, ok := it.b[pos+n].(uint8)
			if !ok || nb&0xC0 != 0x80 {
				break
			}
			n++
		}
		buf := make([]byte, n)
		for k := 0; k < n; k++ {
			buf[k] = it.b[pos+k].(uint8)
		}
		r := []rune(string(buf))
		sz := len(string(r[:1]))
		if r[0] == 0xFFFD {
			sz = 1
		}
		it.i += sz
		return []value{true, pos, int32(r[0])}
	}
	it.i++
	if cb, ok := c.(uint8); ok {
		return []value{true, pos, int32(cb)}
	}
	s := c.(symv)
	if !E.Decide(mk(0, "bvult", s, symv{8, bvLit(0x80, 8)})) {
		panic(pathUnsupported{"range over a string with a symbolic non-ASCII byte"})
	}
	return []value{true, pos, E.name(symv{32, "((_ zero_extend 24) " + s.t + ")"})}
}
