// gosym: run an in-package harness function of the module under /repo symbolically.
//
//	gosym -dir /repo -pkg compiler/toml -overlay ov.json -harness HarnessRoundTrip
package main

import (
	"encoding/json"
	"flag"
	"fmt"
	"os"
	"strings"
	"time"

	"golang.org/x/tools/go/packages"
	"golang.org/x/tools/go/ssa"
	"golang.org/x/tools/go/ssa/ssautil"

	"gosym/interp"
)

func main() {
	dir := flag.String("dir", "/repo", "module directory")
	pkgPath := flag.String("pkg", "", "import path of the package containing the harness")
	overlay := flag.String("overlay", "", "JSON file: {virtual path: real path}")
	harness := flag.String("harness", "", "comma separated harness function names")
	solver := flag.String("solver", "z3", "solver binary (speaks SMT-LIB2 on stdin with -in)")
	timeout := flag.Int("timeout-ms", 60000, "per query timeout")
	maxPaths := flag.Int("max-paths", 20000, "path budget per harness")
	maxInstrs := flag.Int64("max-instrs", 50000000, "instruction budget per path")
	trace := flag.Bool("trace-smt", false, "echo solver input")
	flag.Parse()

	ov := map[string][]byte{}
	if *overlay != "" {
		raw, err := os.ReadFile(*overlay)
		if err != nil {
			fatal(err)
		}
		var m map[string]string
		if err := json.Unmarshal(raw, &m); err != nil {
			fatal(err)
		}
		for virt, real := range m {
			b, err := os.ReadFile(real)
			if err != nil {
				fatal(err)
			}
			ov[virt] = b
		}
	}
	t0 := time.Now()
	cfg := &packages.Config{Mode: packages.LoadAllSyntax, Dir: *dir, Overlay: ov, Env: append(os.Environ(), "GOFLAGS=-mod=mod", "GOPROXY=off")}
	pkgs, err := packages.Load(cfg, *pkgPath)
	if err != nil {
		fatal(err)
	}
	if packages.PrintErrors(pkgs) > 0 {
		fatal(fmt.Errorf("package load errors"))
	}
	prog, spkgs := ssautil.AllPackages(pkgs, ssa.InstantiateGenerics|ssa.SanityCheckFunctions)
	prog.Build()
	loadS := time.Since(t0).Seconds()
	var target *ssa.Package
	for _, p := range spkgs {
		if p != nil && p.Pkg.Path() == *pkgPath {
			target = p
		}
	}
	if target == nil {
		fatal(fmt.Errorf("package %s not found", *pkgPath))
	}
	var results []any
	for _, h := range strings.Split(*harness, ",") {
		h = strings.TrimSpace(h)
		if h == "" {
			continue
		}
		e, err := interp.NewEngine(*solver, *timeout)
		if err != nil {
			fatal(err)
		}
		e.Trace = *trace
		t1 := time.Now()
		res := interp.RunHarness(prog, target, h, e, interp.Options{MaxPaths: *maxPaths, MaxInstrs: *maxInstrs})
		e.Close()
		results = append(results, map[string]any{"result": res, "wall_s": time.Since(t1).Seconds(), "load_s": loadS})
	}
	enc := json.NewEncoder(os.Stdout)
	enc.SetIndent("", " ")
	enc.Encode(results)
}

func fatal(err error) {
	fmt.Fprintln(os.Stderr, "gosym:", err)
	os.Exit(2)
}
