import sys, os
sys.path.insert(0, os.path.dirname(os.path.dirname(os.path.abspath(__file__))))
from vlib import gocheck

def main():
    groups = [dict(pkg='compiler/internal/semantics/typechecker', rel='internal/semantics/typechecker', harnesses=['HarnessC12Exported', 'HarnessC12PrivateField'], max_paths=100000)]
    rc = gocheck.run('C12', 'other', groups, gocheck.GOSYM_ASSUME + [
        'PARTIAL: the capitalisation predicate and the private-field decision of checkSelectorExpr only; the module::symbol export check (resolveStaticAccess, inferScopeResolutionExprType), private types in type positions, the product of syntactic positions and multi-module import shapes are NOT decided',
    ], 'PARTIAL (kernels): (a) utils.IsExported on every ASCII name of up to 3 bytes: exported <=> first byte in A..Z; (b) checkSelectorExpr executed from its SSA (with the real inferExprType) on selectors b.f, w.B.f, w.Items[0].f, (w.B).f, w.inner.f with f in {secret, Open}, the kinds of b and w symbolic (receiver, parameter, variable), b optionally a reference and optionally shadowed by a local in an inner scope: a lower-case field is accepted exactly when the base is an identifier resolving to a receiver; upper-case fields are always accepted.')
    sys.exit(rc)

if __name__ == '__main__':
    main()
