import sys, os
sys.path.insert(0, os.path.dirname(os.path.dirname(os.path.abspath(__file__))))
from vlib import gocheck

def main():
    groups = [dict(pkg='compiler/internal/semantics/typechecker', rel='internal/semantics/typechecker', harnesses=['HarnessC12Exported', 'HarnessC12PrivateField'], max_paths=100000),
              dict(pkg='compiler/internal/verifrt/fe', rel='internal/verifrt/fe', harnesses=['HarnessC12Fields'], max_paths=100000),
              dict(pkg='compiler/internal/verifrt/fe', rel='internal/verifrt/fe', harnesses=['HarnessC12Modules'], max_paths=100000)]
    rc = gocheck.run('C12', 'other', groups, gocheck.GOSYM_ASSUME + [
        'front-end harnesses (HarnessC12Fields, HarnessC12Modules): the first letter of the field / function / constant / variable / type / method name is a SYMBOLIC ASCII letter (the solver splits it into the classes the real lexer and the visibility checks distinguish); the access sites are the listed finite set; the two-module project p/lib + p/app is run through the real lexer, parser, collector, resolver and type checker in the order the pipeline uses',
        'NOT decided: import shapes beyond one importer and one imported module, sites outside the listed set, code generation',
    ], 'FRONT END: (1) a struct field with a symbolic first letter accessed from 11 kinds of site (function, &\' parameter write, receiver read/write, another parameter of the same type inside a method, a method of another type, a function literal, a field chain, a loop body, a struct literal, with a same-named method present): accepted iff exported or reached through the receiver / initialised in a literal. (2) a function, constant, variable, type (in a let annotation and in a function-literal parameter) or method of module p/lib with a symbolic first letter named from module p/app: accepted iff upper-case. KERNELS: (a) utils.IsExported on every ASCII name of up to 3 bytes: exported <=> first byte in A..Z; (b) checkSelectorExpr executed from its SSA (with the real inferExprType) on selectors b.f, w.B.f, w.Items[0].f, (w.B).f, w.inner.f with f in {secret, Open}, the kinds of b and w symbolic (receiver, parameter, variable), b optionally a reference and optionally shadowed by a local in an inner scope: a lower-case field is accepted exactly when the base is an identifier resolving to a receiver; upper-case fields are always accepted.')
    sys.exit(rc)

if __name__ == '__main__':
    main()
