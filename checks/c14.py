import sys, os
sys.path.insert(0, os.path.dirname(os.path.dirname(os.path.abspath(__file__))))
from vlib import gocheck

def main():
    groups = [dict(pkg='compiler/internal/diagnostics', rel='internal/diagnostics', harnesses=['HarnessC14SortOrder'], max_paths=100000),
              dict(pkg='compiler/internal/context_v2', rel='internal/context_v2', harnesses=['HarnessC15Graph'], max_paths=400000, wall_timeout=1700),
              dict(pkg='compiler/internal/verifrt/fe', rel='internal/verifrt/fe', harnesses=['HarnessC14LitIDs'], max_paths=100000),
              dict(pkg='compiler/internal/codegen/qbe_embeddings', rel='internal/codegen/qbe_embeddings', harnesses=['HarnessC14EmitOrder']),
              dict(pkg='compiler/internal/codegen/wasm', rel='internal/codegen/wasm', harnesses=['HarnessC14WasmOrder']),
              dict(pkg='compiler/internal/mir/gen', rel='internal/mir/gen', harnesses=['HarnessC14VTableOrder']),
              dict(pkg='compiler/internal/pipeline', rel='internal/pipeline', harnesses=['HarnessC14ImportResolution'], max_paths=100000, wall_timeout=1700)]
    groups += [dict(pkg='compiler/internal/pipeline', rel='internal/pipeline', harnesses=['HarnessC15Schedule%d' % k], max_paths=400000, max_instrs=200000000, wall_timeout=2400) for k in (5,)]
    rc = gocheck.run('C14', 'other', groups, gocheck.GOSYM_ASSUME + [
        'sort.Slice is executed as the real library does (sort.pdqsort_func interpreted from source); sort.SliceStable as a stable insertion sort',
        'PARTIAL: the order of arrival of diagnostics in the shared bag and the iteration order of Go maps (ascending / descending keys) are symbolic; real goroutine schedules of module parsing end to end are NOT covered; the map iteration inside the QBE / wasm emitters is covered on hand-built MIR programs only (HarnessC14EmitOrder, HarnessC14WasmOrder)',
        'HarnessC14LitIDs: the REAL lexer and parser on two modules (function literals, anonymous struct, enum, interface) run as two logical threads under the cooperative scheduler of the interpreter (a thread can be pre-empted only before a lock or atomic operation; every interleaving at that granularity is explored); native replay repeats the harness with real goroutines until the assertion fails once',
        'HarnessC15Schedule5 (shared with C15): the real module scheduler (processModule / parseModule with goroutines, WaitGroup, sync.Map) on a nine-module two-level fan under delay-bounded scheduling (<= 1 delay; one modelled processor): the outcome (no hang, every module parsed once, no error, complete build order) is the same under every explored schedule',
    ], 'PARTIAL (kernels): (g) mir/gen GenerateModule with three collected vtables under both map iteration orders: same vtable list; (f) wasm EmitProgram on hand-built three-module programs, two modules defining functions of the same name, under ascending and descending iteration order of every Go map: byte-identical binary; (e) qbe Generator.Emit on a hand-built MIR module (three type IDs, two vtables, two functions) under ascending and descending iteration order of every Go map: byte-identical IL; (d) the real module scheduler under delay-bounded schedules (see assumptions): schedule-independent outcome, no schedule hangs; (c) the process-global literal-ID counter (utils.GenerateFuncLitID) used by two concurrently parsed modules, under every interleaving of its atomic operations: the IDs a module\'s function literals receive must not depend on the interleaving (they become symbol names in the generated code) - KNOWN FINDING D8 on the pinned tree; (a) sortDiagnostics on 13 diagnostics of two concurrently parsed modules for every interleaving of their arrival (C(13,6) = 1716, the interleaving is a symbolic choice): the emitted order is the same for all; (b) ComputeTopologicalOrder after every sequence of up to 4 AddDependency calls, for both iteration directions of the module and dependency maps (shared with C15): a complete, dependency-respecting order.')
    sys.exit(rc)

if __name__ == '__main__':
    main()
