import sys, os
sys.path.insert(0, os.path.dirname(os.path.dirname(os.path.abspath(__file__))))
from vlib import tvcheck, runner
from templates import families

ASSUME = [
 'runtime contracts (lirsym/rtsum.py) for ferret_array_*, ferret_memcpy, ferret_alloc, ferret_string_len, ferret_strcmp, ferret_optional_unwrap_or, ferret_global_panic, ferret_std_io_Print(ln): discharged against the C sources by C16/C17 within their bounds',
 'QBE IL semantics as implemented in lirsym/qbe.py (validated on every run by replaying one witness per template through the real qbe+as+ld)',
 'reference semantics of the template language in templates/lang.py (wrapping at declared width, truncating / and %, left-to-right, by-value composites, write-through references)',
 'division by zero and MIN/-1 excluded by assume (the property does not define them)',
 'C ABI: bool/int32 results of runtime calls are returned zero/sign-extended in the full register (what gcc emits)',
 'program shapes are limited to the generated template families; the solver quantifies over all parameter values of each template',
]

def main():
    ts = families.c01_quick() if runner.tier() == 'quick' else families.c01_thorough()
    rc, _ = tvcheck.run('C01', ts, 'translation_validation', ASSUME,
        'Each template is compiled by the freshly built compiler; the QBE IL of its function is executed symbolically with all parameters free 64-bit vectors and compared (return value, panic/trap, print events) with an independent reference evaluation; counterexamples and one witness per template are replayed on the native executable.')
    sys.exit(rc)

if __name__ == '__main__':
    main()
