import sys, os
sys.path.insert(0, os.path.dirname(os.path.dirname(os.path.abspath(__file__))))
from vlib import tvcheck, runner
from templates import families
from checks.c01 import ASSUME

def main():
    ts = families.c08(runner.tier())
    rc, _ = tvcheck.run('C08', ts, 'model_checking', ASSUME + ['a template the compiler rejects (T0009/T0028 or any error) satisfies C08 and is only counted'],
        'Fixed-array templates (index as literal, const, let, branch-reassigned let, loop-carried, parameter; reads and writes; negative forms). The emitted QBE IL is executed symbolically: every access must stay inside the array region (memory-safety obligation) and the function result must equal the reference evaluation that uses the run-time value of the index, for all parameter values; out-of-range executions must end in a panic.',
        reject_is_violation=True)
    sys.exit(rc)

if __name__ == '__main__':
    main()
