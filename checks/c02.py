import sys, os
sys.path.insert(0, os.path.dirname(os.path.dirname(os.path.abspath(__file__))))
from vlib import tvwasmcheck, runner
from templates import families

ASSUME = [
 'contracts for the C runtime (lirsym/rtsum.py, discharged by C16/C17) and for the imports runtime/wasm/runtime.js provides (lirsym/wasm.py: bump allocation as fresh regions, memcpy, array new/append/get/set/len, string_len, panic, Print/Println); runtime.js itself is NOT executed symbolically - it is exercised only by the node replays; the rtjs family (array growth from capacity 0..3, second allocation after appends, writes after growth) is always replayed on its witness input so that a runtime.js that breaks one of these contracts shows as a witness disagreement',
 'QBE IL semantics (lirsym/qbe.py) and WebAssembly 1.0 semantics (lirsym/wasm.py: wrapping arithmetic, div_s traps on 0 and MIN/-1, rem_s traps on 0 only, masked shift counts, little-endian memory); both validated on every run by replaying one witness per template natively and under node',
 'observable behaviour = termination class (normal / panic-or-trap) + printed values + the value the template returns (printed by main); text formatting of numbers is not compared symbolically',
 'a native path with undefined behaviour (fall-off, out-of-region access, ill-typed IL) is skipped here: it is the business of C01/C04/C05',
 'a template either target rejects, or whose module imports a function runtime.js does not offer, is outside C02 (counted in the evidence)',
 'floating-point instructions are not executed (template families are integer-only)',
 'program shapes are limited to the generated template families; the solver quantifies over all parameter values of each template',
]


def main():
    ts = families.c02(runner.tier(), runner.seed())
    rc, _ = tvwasmcheck.run('C02', ts, ASSUME,
        'Each template is compiled by the freshly built compiler for both targets. The QBE IL of its function (pointer size 8) and the same function decoded from the emitted .wasm binary (pointer size 4) are executed symbolically on the same free 64-bit inputs; for every pair of paths z3 decides that termination class, returned value and printed values agree. Counterexamples and one witness per template are replayed on the linked native executable and under node with the shipped runtime.js.')
    sys.exit(rc)


if __name__ == '__main__':
    main()
