import sys, os
sys.path.insert(0, os.path.dirname(os.path.dirname(os.path.abspath(__file__))))
from vlib import tvcheck, runner, gosymrun, build
from templates import families
from checks.c01 import ASSUME


def post(rep, templates, results):
    """L1: layout kernels under gosym (both pointer sizes, result/optional/struct of a type pool)."""
    hs = [('compiler/internal/mir', 'internal/mir', ['HarnessAlignTo', 'HarnessC18LayoutHistory']),
          ('compiler/internal/codegen/qbe_embeddings', 'internal/codegen/qbe_embeddings', ['HarnessC18Layout'])]
    for pkg, rel, names in hs:
        try:
            rs = gosymrun.run(pkg, names, wall_timeout=600)
        except Exception as e:
            rep.inconc(pkg, 'gosym: %s' % e)
            continue
        for r in rs:
            res = r['result']
            rep.coverage.setdefault('l1_harnesses', []).append({'harness': res['harness'], 'status': res['status'], 'paths': (res.get('stats') or {}).get('paths'),
                                                                 'asserts_checked': (res.get('stats') or {}).get('asserts_checked')})
            if res['status'] == 'inconclusive':
                rep.inconc(res['harness'], '; '.join(res.get('unsupported') or ['?']))
            seen = set()
            for v in res.get('violations') or []:
                if v['msg'] in seen:
                    continue
                seen.add(v['msg'])
                rr = gosymrun.replay(pkg, rel, res['harness'], v['model'])
                if rr['kind'] not in ('assert', 'panic'):
                    rep.inconc(res['harness'], 'counterexample did not reproduce natively: %s' % rr)
                    continue
                rep.violation('%s: %s' % (res['harness'], v['msg']), '%s with %s; native replay %s' % (v['msg'], v['model'], rr), kind=v['kind'],
                              replay={'harness': res['harness'], 'model': v['model'], 'native': rr})


def main():
    ts = families.c18(runner.tier())
    rep_holder = {}
    rc, _ = tvcheck.run('C18', ts, 'model_checking', ASSUME + ['L1 layout kernels (alignTo, SizeOf/AlignOf/StructLayout, resultTagOffset) are executed by gosym on a pool of 16 payload types x 2 pointer sizes'],
        'L2: struct/optional templates, write one component and read every component, neighbour and copy back, decided by the solver on the emitted QBE IL for all values. L1: the layout kernels executed symbolically (gosym) for both pointer sizes: result discriminant and optional flag inside the value and outside the payloads, struct fields aligned/disjoint/covered.',
        reject_is_violation=False, post=post)
    sys.exit(rc)


if __name__ == '__main__':
    main()
