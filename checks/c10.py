import sys, os
sys.path.insert(0, os.path.dirname(os.path.dirname(os.path.abspath(__file__))))
from vlib import gocheck

def main():
    groups = [dict(pkg='compiler/internal/semantics/typechecker', rel='internal/semantics/typechecker', harnesses=['HarnessC10Small', 'HarnessC10LeadingZero'],
                   max_paths=100000, timeout_ms=20000, wall_timeout=1700)]
    rc = gocheck.run('C10', 'model_checking', groups, gocheck.GOSYM_ASSUME + [
        'literal text = optional "-" (decimal), base prefix, digits, optional "_" before the last digit; digit values are the symbolic inputs and the text bytes are derived from them',
        'oracle: value = sum digit_k * base^k computed in 64-bit unsigned arithmetic (digit counts bounded so that it cannot overflow); accepted <=> value in the range of the type',
        'the 128/256-bit types are not decided here (the harness exists, HarnessC10Big, but its queries mix bv2nat and integer arithmetic and do not finish); the run-time materialisation of large literals (ferret_*_from_string accumulation step) is decided by C16',
        'the lexer NumberPattern, literal positions (argument / return) and the materialisation of the value in generated code are outside this check',
    ], 'fitsInType -> numeric.NewNumericValue (cleanNumericString, the real strconv.ParseInt interpreted from source, base-0 prefix handling) -> FitsInBitSize are executed symbolically on literal texts whose digits are symbolic: decimal (1,3,5 digits quick / up to 19 thorough), hex, octal, binary, with and without a separator and a minus sign; for each of the 8 types up to 64 bits the solver decides accepted <=> mathematical value in range, in both directions. A second harness covers decimal literals written with leading zeros.')
    sys.exit(rc)

if __name__ == '__main__':
    main()
