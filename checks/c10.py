import sys, os
sys.path.insert(0, os.path.dirname(os.path.dirname(os.path.abspath(__file__))))
from vlib import tvcheck, runner, gosymrun, gocheck
from templates import families
from checks.c01 import ASSUME as TV_ASSUME

ASSUME = gocheck.GOSYM_ASSUME + [
    'KERNEL: literal text = optional "-" (decimal), base prefix, digits, optional "_" before the last digit; digit values are the symbolic inputs and the text bytes are derived from them',
    'KERNEL oracle: value = sum digit_k * base^k computed in 64-bit unsigned arithmetic (digit counts bounded so that it cannot overflow); accepted <=> value in the range of the type',
    'the accept/reject decision for the 128/256-bit types is not decided (HarnessC10Big exists but its queries mix bv2nat and integer arithmetic and do not finish)',
    'GENERATED CODE (wide literal templates): contracts for ferret_{i,u}{128,256}_{from_string,from_i64,from_u64,to_i64,eq,lt,gt}_ptr in lirsym/rtsum.py (from_string on the concrete literal text = its value mod 2^N); discharged against bigint.c by C16 (from_string for short texts + the accumulation step, comparisons, conversions)',
    'HarnessC10Sequence: two range checks in one compilation (boundary literal texts of one width against its signed and unsigned type, either order): each verdict is the mathematical one whatever was checked before (the check is memoryless)',
    'the lexer NumberPattern and literal positions other than a let initialiser are outside this check',
] + TV_ASSUME[1:3]


def post(rep, templates, results):
    groups = [dict(pkg='compiler/internal/semantics/typechecker', rel='internal/semantics/typechecker', harnesses=['HarnessC10Small', 'HarnessC10LeadingZero', 'HarnessC10Sequence'])]
    for g in groups:
        try:
            rs = gosymrun.run(g['pkg'], g['harnesses'], max_paths=100000, timeout_ms=20000 if runner.tier() == 'quick' else 90000, wall_timeout=1700)
        except Exception as e:
            rep.inconc(g['pkg'], 'gosym: %s' % e)
            continue
        for r in rs:
            res = r['result']
            st = res.get('stats') or {}
            rep.coverage.setdefault('kernel_harnesses', []).append({'harness': res['harness'], 'status': res['status'], 'paths': st.get('paths'), 'queries': st.get('queries'),
                                                                    'asserts_checked': st.get('asserts_checked'), 'solver_s': round(st.get('solver_s', 0), 2)})
            if res['status'] == 'inconclusive':
                rep.inconc(res['harness'], '; '.join(res.get('unsupported') or ['?']))
            if st.get('paths_ok', 0) == 0 and res['status'] == 'held':
                rep.inconc(res['harness'], 'vacuous: no path reached the end of the harness')
            for wm in (res.get('witnesses') or [])[:1]:
                rr = gosymrun.replay(g['pkg'], g['rel'], res['harness'], wm)
                rep.coverage['kernel_witness_replays'] = rep.coverage.get('kernel_witness_replays', 0) + 1
                if rr['kind'] != 'ok' and not res.get('violations'):
                    rep.inconc(res['harness'], 'encoder-mismatch: witness %s replays natively as %s' % (wm, rr))
            seen = set()
            for v in res.get('violations') or []:
                if v['msg'] in seen:
                    continue
                seen.add(v['msg'])
                rr = gosymrun.replay(g['pkg'], g['rel'], res['harness'], v['model'])
                if rr['kind'] not in ('assert', 'panic'):
                    rep.inconc(res['harness'], 'counterexample did not reproduce natively: %s' % rr)
                    continue
                rep.violation('%s: %s' % (res['harness'], v['msg']), '%s with %s; native replay %s' % (v['msg'], v['model'], rr), kind=v['kind'],
                              replay={'harness': res['harness'], 'model': v['model'], 'native': rr})


def main():
    ts = families.c10_wide(runner.tier())
    rc, _ = tvcheck.run('C10', ts, 'model_checking', ASSUME,
        'KERNEL (gosym): fitsInType -> numeric.NewNumericValue (cleanNumericString, the real strconv.ParseInt interpreted from source, base-0 prefix handling) -> FitsInBitSize executed symbolically on literal texts whose digits are symbolic: decimal, hex, octal, binary, with and without a separator and a minus sign; for each of the 8 types up to 64 bits the solver decides accepted <=> mathematical value in range, in both directions; a second harness covers leading zeros. GENERATED CODE (lirsym/qbe): for i128/u128/i256/u256 literals at the boundaries 2^63, 2^64, 2^127, 2^255 and around them the emitted QBE IL is executed symbolically (the literal is compared with ==, >, < against a value built from the parameter and its low 64 bits are returned) and compared with the reference for all parameter values: the running program observes exactly the literal value.',
        reject_is_violation=True, post=post)
    sys.exit(rc)


if __name__ == '__main__':
    main()
