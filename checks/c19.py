import sys, os
sys.path.insert(0, os.path.dirname(os.path.dirname(os.path.abspath(__file__))))
from vlib import gocheck

def main():
    groups = [dict(pkg='compiler/internal/source', rel='internal/source', harnesses=['HarnessC19Advance']),
              dict(pkg='compiler/internal/frontend/lexer', rel='internal/frontend/lexer', harnesses=['HarnessC19Trivia'], max_paths=100000)]
    rc = gocheck.run('C19', 'other', groups, gocheck.GOSYM_ASSUME + [
        'ASCII text only; regular expressions of the lexer are matched by a backtracking matcher over regexp/syntax with Go leftmost-first semantics (gosym/interp/regex.go)',
        'PARTIAL: only position tracking and whitespace trivia between two fixed tokens; comments, the parser doc-comment attachment and acceptance/output of whole reformatted programs are outside this check',
    ], 'PARTIAL (kernels): (a) Position.Advance on every ASCII string up to L=3 (4 thorough) and every split point: Index counts bytes, Line counts newlines, and the column after Advance(s1+s2) equals the column after Advance(s1);Advance(s2); (b) the real lexer (all its regular expressions, matched symbolically) on tok1 . trivia . tok2 for 6 token pairs and every whitespace trivia of length <= 2 (3 thorough): same token kinds/values as with a single space, second token starts where the trivia ends.')
    sys.exit(rc)

if __name__ == '__main__':
    main()
