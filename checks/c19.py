import sys, os
sys.path.insert(0, os.path.dirname(os.path.dirname(os.path.abspath(__file__))))
from vlib import gocheck

def main():
    groups = [dict(pkg='compiler/internal/source', rel='internal/source', harnesses=['HarnessC19Advance', 'HarnessC19AdvanceUnicode']),
              dict(pkg='compiler/internal/frontend/lexer', rel='internal/frontend/lexer', harnesses=['HarnessC19Trivia'], max_paths=100000)]
    from vlib import runner as _runner
    if _runner.tier() == 'quick':
        groups += [dict(pkg='compiler/internal/verifrt/fe', rel='internal/verifrt/fe', harnesses=['HarnessC19Gaps%d' % k], max_paths=100000, wall_timeout=3000) for k in range(8)]
    else:
        groups += [dict(pkg='compiler/internal/verifrt/fe', rel='internal/verifrt/fe', harnesses=['HarnessC19GapsT%d' % k], max_paths=100000, wall_timeout=5000) for k in range(16)]
    rc = gocheck.run('C19', 'other', groups, gocheck.GOSYM_ASSUME + [
        'ASCII text, plus comment text containing one 2-byte and / or one 3-byte UTF-8 character at fixed places (concrete bytes; symbolic bytes are ASCII); regular expressions of the lexer are matched by a backtracking matcher over regexp/syntax with Go leftmost-first semantics (gosym/interp/regex.go)',
 'front-end harness (HarnessC19Gaps*): the program set is fixed (two small programs quick, plus a broad-syntax one thorough); the inserted trivia is one of: blank, newline, blank-newline-blanks, block comment, line comment, block comments with a 2-byte / two 3-byte characters (columns count characters, indices bytes), the symbolic comment text being ONE symbolic character (6 interesting characters quick; thorough: all printable ASCII for the two small programs, the 6 characters for the broad-syntax program); tabs are not among the inserted trivia of the gap harness (the column metric of the tool counts a tab as 4 and the character after it as 0, so "moves exactly with the text" is decided for blanks, newlines and comments; for tabs the split-invariance of Position.Advance is decided by HarnessC19Advance)',
        'NOT decided: what an accepted reformatted program prints (needs code generation), doc-comment / @extern attachment, programs outside the fixed set, multi-character comment bodies',
    ], 'FRONT END (HarnessC19Gaps0-7): for every gap between two tokens of each program and every trivia kind, the real lexer, parser, collector, resolver and type checker run on the reformatted text inside the symbolic interpreter: acceptance is unchanged, the set of error diagnostics is unchanged, and each diagnostic\'s byte index, line and column move exactly with the inserted text (index by the bytes, column by the characters inserted). KERNELS: (a0) Position.Advance over text with multi-byte characters: Index counts bytes, Column counts characters, independent of the split; (a) Position.Advance on every ASCII string up to L=3 (4 thorough) and every split point: Index counts bytes, Line counts newlines, and the column after Advance(s1+s2) equals the column after Advance(s1);Advance(s2); (b) the real lexer (all its regular expressions, matched symbolically) on tok1 . trivia . tok2 for 6 token pairs and every whitespace trivia of length <= 2 (3 thorough): same token kinds/values as with a single space, second token starts where the trivia ends.')
    sys.exit(rc)

if __name__ == '__main__':
    main()
