import sys, os
sys.path.insert(0, os.path.dirname(os.path.dirname(os.path.abspath(__file__))))
from vlib import gocheck

def main():
    groups = [dict(pkg='compiler/internal/semantics/typechecker', rel='internal/semantics/typechecker', harnesses=['HarnessC06Mutability'], max_paths=100000)]
    rc = gocheck.run('C06', 'other', groups, gocheck.GOSYM_ASSUME + [
        'PARTIAL: the decision kernel checkMutability + reportMutabilityError only; that every mutation form (=, compound assignment, ++/--, &\' borrow, &\' argument, &\'-receiver call) and every syntactic context funnels into this kernel, and that the collector/type checker set Kind/IsReadonly correctly for loop indices and catch variables, is NOT decided',
    ], 'PARTIAL (kernel): checkMutability and reportMutabilityError are executed from their SSA on place expressions c, (c), c.X, c[0], c.In.X, c[0].X ... (chains of depth <= 2, chosen symbolically) whose root symbol has a symbolic kind (variable, constant, parameter, receiver), read-only flag and type (T, &T, &\'T; struct or array of structs): a constant, read-only or &T root must be refused with an error diagnostic whatever the access path; a plain mutable variable must not be refused.')
    sys.exit(rc)

if __name__ == '__main__':
    main()
