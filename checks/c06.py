import sys, os
sys.path.insert(0, os.path.dirname(os.path.dirname(os.path.abspath(__file__))))
from vlib import gocheck

def main():
    groups = [dict(pkg='compiler/internal/semantics/typechecker', rel='internal/semantics/typechecker', harnesses=['HarnessC06Mutability'], max_paths=100000),
              dict(pkg='compiler/internal/verifrt/fe', rel='internal/verifrt/fe', harnesses=['HarnessC06Bindings'], max_paths=100000),
              dict(pkg='compiler/internal/verifrt/fe', rel='internal/verifrt/fe', harnesses=['HarnessC06Receivers'], max_paths=100000),
              dict(pkg='compiler/internal/verifrt/fe', rel='internal/verifrt/fe', harnesses=['HarnessC06FnTypes'], max_paths=100000)]
    rc = gocheck.run('C06', 'other', groups, gocheck.GOSYM_ASSUME + [
        'the front-end harness (HarnessC06Bindings) assembles small programs from symbolic choices (binding kind x iterable x mutation form x context) and runs the REAL lexer, parser, collector, resolver and type checker on them inside the symbolic interpreter: the program space is the product listed in the explanation, nothing beyond it',
        'NOT decided: mutation forms and contexts outside the listed product (e.g. nested closures, multi-module programs, interface method calls), and what generated code does with an accepted program',
    ], 'FRONT END (HarnessC06Bindings): for every combination of binding {index of a two-variable for loop over [N]T / []T / str / map / range, const, catch error variable, field behind an &P parameter, field behind an & receiver, let, field behind an &\'P parameter} x mutation form {=, +=, ++, --, let p: &\'T = &\'x, f(&\'x)} x context {function body, if, while, match arm, function literal} the real front end must report an error on the mutating line for the immutable bindings and accept the mutable ones. FRONT END (HarnessC06Receivers): struct-typed place {const, element of a const array, field of a const, value behind an &P parameter / &P receiver / &P local, struct field of type &P | let, element of a let array, &\'P parameter, &\'P local} x mutation form {call of a method with a &\' receiver (with and without arguments), field =, field +=, field ++, &\' of a field, field passed to a &\' parameter, &\' of the value} x the same five contexts: error on the mutating line for the immutable places, accepted for the mutable ones. FRONT END (HarnessC06FnTypes): a function / function literal with a &\'P parameter that writes through it, supplied where fn(q: &P) is expected {argument, annotated let, assignment, struct field initialiser, return value, field assignment}: rejected; exactly matching function types accepted. KERNEL: PARTIAL (kernel): checkMutability and reportMutabilityError are executed from their SSA on place expressions c, (c), c.X, c[0], c.In.X, c[0].X ... (chains of depth <= 2, chosen symbolically) whose root symbol has a symbolic kind (variable, constant, parameter, receiver), read-only flag and type (T, &T, &\'T; struct or array of structs): a constant, read-only or &T root must be refused with an error diagnostic whatever the access path; a plain mutable variable must not be refused.')
    sys.exit(rc)

if __name__ == '__main__':
    main()
