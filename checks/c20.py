import sys, os
sys.path.insert(0, os.path.dirname(os.path.dirname(os.path.abspath(__file__))))
from vlib import gocheck

def main():
    groups = [dict(pkg='compiler/toml', rel='toml', max_paths=200000, timeout_ms=30000)]
    rc = gocheck.run('C20', 'model_checking', groups, gocheck.GOSYM_ASSUME + [
        'file content is ASCII (a symbolic byte >= 0x80 inside a range-over-string is outside the engine; stated bound)',
        'bufio.Scanner line splitting is replaced by strings.Split on "\\n" plus removal of one trailing "\\r" (its documented behaviour); the 64 KiB token limit and file I/O are outside the claim',
        'floats: concrete representatives of the output classes of FormatFloat(f,-1) (integral, fractional, huge, tiny); digit generation is not symbolic',
        'strconv.ParseFloat on symbolic text is over-approximated (error or some float, never a panic)',
        'keys over [A-Za-z0-9_-]; string values exclude quote, backslash, CR, LF and the spellings true/false, as the property does',
    ], 'The real writer (writeTOMLSection -> writeTOMLKeyValue -> formatTOMLValue/needsQuoting/getInlineComment, its Fprintf output captured) and the real parser functions (shouldSkipLine, isSectionHeader, parseSectionHeader, parseKeyValuePair, stripInlineComment, parseValue) (and writeTOMLSections on every pair of the seven known sections, the header-less default section included: HarnessC20Sections) are executed symbolically on symbolic strings (L<=4 quick / 6 thorough), ints, bools, keys, comments and padding; the solver decides value-and-type equality of the round trip and absence of panics for every file content up to L bytes.')
    sys.exit(rc)

if __name__ == '__main__':
    main()
