import sys, os
sys.path.insert(0, os.path.dirname(os.path.dirname(os.path.abspath(__file__))))
import time, re
from vlib import tv, tvpair, build, runner
from templates import families, rewrites
from templates.lang import *
from checks.c01 import ASSUME


def const_templates():
    """Constant-expression forms: the compiler may evaluate them early; the rewritten twin forces run-time evaluation."""
    out = []
    X = families.X
    def L(v):
        return Lit(v, I64)
    forms = {
        'negdiv': Bin('/', Bin('-', L(0), L(7)), L(2)),
        'negrem': Bin('%', Bin('-', L(0), L(7)), L(3)),
        'remneg': Bin('%', L(7), Bin('-', L(0), L(2))),
        'divneg': Bin('/', L(7), Bin('-', L(0), L(2))),
        'mix': Bin('-', Bin('*', L(6), L(7)), Bin('/', L(100), L(7))),
        'mul_beyond_i32': Bin('*', L(3000000), L(1000)),
        'sq_beyond_i32': Bin('*', L(70000), L(70000)),
        'add_beyond_i32': Bin('+', L(2000000000), L(2000000000)),
        'sub_beyond_i32': Bin('-', Bin('-', L(0), L(2000000000)), L(2000000000)),
    }
    for name, e in forms.items():
        body = [Let('r', I64, e), Return(Bin('+', Var('r', I64), X))]
        out.append(tv.Template('const/%s' % name, families.fn1(body), family='const-expr', expect='any'))
    forms32 = {
        'negrem32': Bin('%', Bin('-', Lit(0, I32), Lit(7, I32)), Lit(3, I32)),
        'negdiv32': Bin('/', Bin('-', Lit(0, I32), Lit(9, I32)), Lit(2, I32)),
    }
    DT = DynT(I64)
    for name, e in forms32.items():
        body = [Let('r', I32, e), Return(Bin('+', Cast(Var('r', I32), I64), X))]
        out.append(tv.Template('const/%s' % name, families.fn1(body), family='const-expr', expect='any'))
        # as index of a dynamic-array literal
        idx = Bin('+', e, Lit(2, I32))
        body = [Let('a', DT, ArrLit(DT, [L(10), L(20), L(30), L(40), X])), Let('r', I64, Index(Var('a', DT), idx)), Return(Var('r', I64))]
        out.append(tv.Template('const/index_%s' % name, families.fn1(body), family='const-expr', expect='any'))
    # constant expressions as fixed-array indices (the index itself must stay constant; let->const and bind apply)
    A5 = ArrT(5, I64)
    for name, e in forms32.items():
        idx = Bin('+', e, Lit(2, I32))
        body = [Let('b', A5, ArrLit(A5, [L(10), L(20), L(30), L(40), X])), Let('k', I32, idx), Let('r', I64, Index(Var('b', A5), Var('k', I32))), Return(Var('r', I64))]
        out.append(tv.Template('const/fixedindex_let_%s' % name, families.fn1(body), family='const-expr', expect='any'))
    # match arm selected by a constant expression
    body = [Let('k', I64, Bin('%', Bin('-', L(0), L(7)), L(3))), Match(Var('k', I64), [(Lit(-1, I64), [Return(L(100))]), (Lit(2, I64), [Return(L(200))]), (None, [Return(X)])])]
    out.append(tv.Template('const/match_negrem', families.fn1(body), family='const-expr', expect='any'))
    return out


def pairs(tier):
    bases = families.arith(consumers=('cmp', 'widen', 'local')) + families.arithlit(types=[I32, U16, I64] if tier == 'quick' else families.INTS, tier=tier) + families.compare(types=[I8, I32, U16, I64]) + families.unary(types=[I8, I32, U16]) \
        + families.control() + families.composites() + const_templates() \
        + [t for t in families.castuse(tier) if re.search(r'castuse/(cmp|widen)/', t.id)]
    if tier == 'quick':
        # every 3rd arithmetic base in quick; everything in thorough
        keep = []
        for i, t in enumerate(bases):
            if t.family == 'arithlit' and not re.search(r'/(div|rem|mul)/', t.id):
                continue
            if t.family in ('arith', 'cmp', 'unary') and i % 3 and not re.search(r'/(i8)/', t.id):
                continue
            keep.append(t)
        bases = keep
    out = []
    for t in bases:
        for kind, rw in rewrites.REWRITES.items():
            if kind == 'iftrue_ret' and t.family not in ('control', 'cmp'):
                continue
            if t.family == 'castuse' and kind != 'bindcast':
                continue
            if kind == 'bindcast' and t.family not in ('castuse', 'cmp'):
                continue
            if kind == 'lit2call' and 'fixedindex' in t.id:
                continue   # documented exception: a fixed-array index must remain a compile-time constant
            try:
                p2 = rw(t.prog, t.entry)
            except Exception as e:
                p2 = None
            if p2 is None:
                continue
            regions = dict(t.regions)
            out.append(tvpair.Pair('%s~%s' % (t.id, kind), t, p2, kind, family='c09-' + kind, regions=regions))
    return out


def main():
    tier_ = runner.tier()
    rep = runner.Report('C09', 'translation_validation', tier_)
    ps = pairs(tier_)
    only = os.environ.get('VERIF_ONLY')
    if only:
        ps = [p for p in ps if re.search(only, p.id)]
    t0 = time.time()
    try:
        build.build_ferret()
    except Exception as e:
        rep.inconc('build', str(e))
        sys.exit(rep.finish({'explanation': 'build failed', 'programs': 0, 'disagreements_checked': 0, 'samples': [{'note': 'build failed'}]}, ASSUME))
    results = runner.pool_map(tvpair.run_pair, ps)
    agg = {'queries': 0, 'sat': 0, 'unsat': 0, 'unknown': 0, 'solver_s': 0.0, 'paths': 0, 'instrs': 0}
    fam = {}
    dis = replays = replays_ok = both_rej = held = 0
    funcs = set()
    for p, r in zip(ps, results):
        for k in agg:
            agg[k] += (r['stats'] or {}).get(k, 0)
        fam.setdefault(p.family, [0, 0])
        fam[p.family][0] += 1
        replays += r['replays']
        replays_ok += r['replays_ok']
        funcs.update(r.get('funcs', []))
        if r['status'] == 'held':
            held += 1
            fam[p.family][1] += 1
        elif r['status'] == 'both-rejected':
            both_rej += 1
        elif r['status'] == 'inconclusive':
            rep.inconc(p.id, r.get('reason'))
        if r.get('witness_mismatch'):
            rep.inconc(p.id, 'encoder-mismatch on witness replay: %s' % r['witness_mismatch'][:1])
        for pr in r['problems']:
            dis += 1
            if pr.get('confirmed') == 'not-reproduced':
                rep.inconc(p.id, 'counterexample %s did not reproduce natively: %s / %s' % (pr.get('inputs'), pr.get('native_base'), pr.get('native_rewritten')))
                continue
            if pr.get('outside_regions', False) is None:
                rep.inconc(p.id, 'solver unknown outside known region')
                continue
            what = '%s: inputs=%s base=%s rewritten=%s native base=%s native rewritten=%s %s' % (pr['kind'], pr.get('inputs'), pr.get('base_predict'), pr.get('rewritten_predict'), pr.get('native_base'), pr.get('native_rewritten'), pr.get('detail', ''))
            rep.violation(p.id, what, kind=pr['kind'], regions=pr.get('regions', ()), outside=pr.get('outside_regions', False),
                          replay={'base': r['src'], 'rewritten': r['src_rewritten'], 'inputs': pr.get('inputs'), 'detail': pr})
        if len(rep.samples) < 3 and r['status'] == 'held':
            rep.samples.append({'pair': p.id, 'base': r['src'], 'rewritten': r['src_rewritten'], 'paths': r['paths'], 'witness_inputs': r.get('witness_inputs'), 'witness_native': r.get('witness_native')})
    cov = {'programs': 2 * len(ps), 'pairs': len(ps), 'disagreements_checked': dis, 'pairs_held': held, 'pairs_both_rejected': both_rej,
           'families': {k: {'pairs': v[0], 'held': v[1]} for k, v in sorted(fam.items())},
           'states': agg['paths'], 'transitions': agg['queries'], 'traces_validated_against_impl': replays,
           'queries': agg['queries'], 'queries_sat': agg['sat'], 'queries_unsat': agg['unsat'], 'queries_unknown': agg['unknown'], 'solver_s': round(agg['solver_s'], 2),
           'functions_encoded': len(funcs), 'il_instructions_executed': agg['instrs'], 'replays_run': replays, 'replays_agreeing_with_encoding': replays_ok, 'exhaustive': False,
           'explanation': 'For each base template P and rewrite R in {literal->call, bind subexpression to a local, let->const, if true {}} both P and R(P) are compiled; obligations: same accept/reject, and for every pair of IL paths the solver decides that no input makes the two behaviours differ. No reference semantics is involved.',
           'bounds': 'all 2^64 values of every parameter; loops unrolled per template with unwinding assertion; rewrite sites: all integer literals of the entry function (R1), first nested arithmetic subexpression (R2), all never-reassigned scalar lets (R3), every top-level non-declaration statement (R4)'}
    sys.exit(rep.finish(cov, ASSUME[1:2] + ASSUME[0:1] + ASSUME[4:]))


if __name__ == '__main__':
    main()
