import sys, os
sys.path.insert(0, os.path.dirname(os.path.dirname(os.path.abspath(__file__))))
from vlib import gocheck

def main():
    groups = [dict(pkg='compiler/internal/semantics/typechecker', rel='internal/semantics/typechecker', harnesses=['HarnessC03Compat'])]
    groups += [dict(pkg='compiler/internal/verifrt/fe', rel='internal/verifrt/fe', harnesses=['HarnessC03Rules%d' % k], max_paths=100000) for k in range(5)]
    rc = gocheck.run('C03', 'other', groups, gocheck.GOSYM_ASSUME + [
        'forbidden-pair classes written from the rule catalogue of C03: numeric narrowing and float->int (also into / between optionals of numeric types), T? where a non-optional is required, &T where &\'T is required, conversions between number, bool and str; pairs outside these classes are not constrained',
        'front-end harness (HarnessC03Rules0-4): 36 ill-typed statements covering every rule class of the catalogue, each injected into 8 syntactic contexts (function body, if, else, while, for, match arm, function literal, nested if/while/match) of a function and of a method; the program space is that finite product; errors-gate-codegen is not decided (the harness stops after the type checker)',
    ], 'FRONT END: every (rule, context, function-or-method) combination is assembled into a program and run through the REAL lexer, parser, collector, resolver and type checker inside the symbolic interpreter: the program must be rejected with an error on the injected line; the same program without the injection must be accepted. KERNEL: checkTypeCompatibility is executed from its SSA for every ordered pair of a pool of 36 types (primitives, optionals, shared/mutable references, dynamic and fixed arrays, named aliases, anonymous and named structs, a result type; the pair is a symbolic choice, all pairs explored) and for every pair in a forbidden rule class the verdict must not be implicit.')
    sys.exit(rc)

if __name__ == '__main__':
    main()
