import sys, os
sys.path.insert(0, os.path.dirname(os.path.dirname(os.path.abspath(__file__))))
from vlib import gocheck

def main():
    groups = [dict(pkg='compiler/internal/semantics/typechecker', rel='internal/semantics/typechecker', harnesses=['HarnessC03Compat'])]
    rc = gocheck.run('C03', 'other', groups, gocheck.GOSYM_ASSUME + [
        'forbidden-pair classes written from the rule catalogue of C03: numeric narrowing and float->int (also into / between optionals of numeric types), T? where a non-optional is required, &T where &\'T is required, conversions between number, bool and str; pairs outside these classes are not constrained',
        'only the decision kernel checkTypeCompatibility/isImplicitlyCompatible is decided; that checkNode/checkExpr visit every context, argument counts, name resolution and return checking are outside this check',
    ], 'PARTIAL (decision kernel only): checkTypeCompatibility is executed from its SSA for every ordered pair of a pool of 36 types (primitives, optionals, shared/mutable references, dynamic and fixed arrays, named aliases, anonymous and named structs, a result type; the pair is a symbolic choice, all pairs explored) and for every pair in a forbidden rule class the verdict must not be implicit.')
    sys.exit(rc)

if __name__ == '__main__':
    main()
