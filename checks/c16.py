import sys, os, time
sys.path.insert(0, os.path.dirname(os.path.dirname(os.path.abspath(__file__))))
import z3
from lirsym import llvm
from lirsym.core import Solver, Stats, Inconclusive, bv, simp
from vlib import cir, runner, build

TYPES = {'i128': (2, True), 'u128': (2, False), 'i256': (4, True), 'u256': (4, False)}


class Ctx:
    def __init__(self):
        self.mod = llvm.parse(cir.runtime_ir('core/bigint.c'))
        self.stats = Stats()
        self.funcs = set()


def mk_exec(cx, timeout_ms, unroll=600):
    solver = Solver(timeout_ms=timeout_ms, stats=cx.stats)
    ex = llvm.Executor(cx.mod, llvm.LIBC, solver=solver, unroll=unroll)
    return ex, solver


def put(st, name, limbs):
    r = st.mem.alloc(8 * len(limbs), name=name, kind='heap')
    for i, l in enumerate(limbs):
        st.mem.store(st, st.mem.ptr(r, 8 * i), l, 8)
    return r


def val(limbs):
    return z3.Concat(*reversed(limbs)) if len(limbs) > 1 else limbs[0]


def model_ints(m, xs):
    return [m.eval(x, model_completion=True).as_long() for x in xs]


def to_signed(v, bits):
    return v - (1 << bits) if v >> (bits - 1) else v


# ------------------------------------------------------------------------------------------------ obligations
def ob_binary(cx, T, op, timeout_ms):
    nl, signed = TYPES[T]
    ex, solver = mk_exec(cx, timeout_ms)
    ex.uf_mul = (op == 'mul')
    st = ex.new_state()
    A = [z3.BitVec('a%d' % i, 64) for i in range(nl)]
    B = [z3.BitVec('b%d' % i, 64) for i in range(nl)]
    ra, rb = put(st, 'a', A), put(st, 'b', B)
    ro = st.mem.alloc(8 * nl, name='out', kind='heap')
    outs = ex.run('@ferret_%s_%s_ptr' % (T, op), [st.mem.ptr(ra), st.mem.ptr(rb), st.mem.ptr(ro)], st=st)
    cx.funcs |= ex.encoded
    a, b = val(A), val(B)
    bits = 64 * nl
    extra = []
    if op == 'mul':
        # schoolbook product over the same uninterpreted 64x64->128 products the implementation uses; every product
        # term is constrained to the range of a real product, (2^64-1)^2
        spec_terms = []

        def limbs_of(x):
            return [z3.Extract(64 * i + 63, 64 * i, x) for i in range(nl)]

        def product(X, Y):
            acc = bv(0, bits)
            for i in range(nl):
                for j in range(nl - i):
                    p = llvm.UMUL64(X[i], Y[j])
                    spec_terms.append(p)
                    pe = z3.ZeroExt(bits - 128, p) if bits > 128 else p
                    acc = acc + (pe << (64 * (i + j)))
            return acc
        if signed:
            na, nb = a < 0, b < 0
            absa, absb = z3.If(na, -a, a), z3.If(nb, -b, b)
            P = product(limbs_of(absa), limbs_of(absb))
            ref = z3.If(na != nb, -P, P)
        else:
            ref = product(A, B)
        lim = bv((2**64 - 1) ** 2, 128)
        extra = [z3.ULE(p, lim) for p in spec_terms]
    else:
        ref = {'add': a + b, 'sub': a - b, 'and': a & b, 'or': a | b, 'xor': a ^ b}[op]
    pyop = {'add': lambda x, y: x + y, 'sub': lambda x, y: x - y, 'and': lambda x, y: x & y, 'or': lambda x, y: x | y, 'xor': lambda x, y: x ^ y, 'mul': lambda x, y: x * y}[op]
    for o in outs:
        if o.kind != 'ret':
            return 'violation', {'what': 'path ends with %s: %s' % (o.kind, o.detail)}, len(outs)
        out = o.mem.load(o.state, o.mem.ptr(ro), 8 * nl)
        if op == 'mul':
            lim = bv((2**64 - 1) ** 2, 128)
            extra = extra + [z3.ULE(p, lim) for p in ex.uf_terms]
        r, m = solver.check(list(o.pc) + extra + [out != ref])
        if r == 'unknown':
            return 'unknown', None, len(outs)
        if r == 'sat':
            av, bvv = model_ints(m, A), model_ints(m, B)
            x = sum(v << (64 * i) for i, v in enumerate(av))
            y = sum(v << (64 * i) for i, v in enumerate(bvv))
            if signed and op == 'mul':
                x, y = to_signed(x, bits), to_signed(y, bits)
            exp = pyop(x, y) % (1 << bits)
            return 'violation', {'a': av, 'b': bvv, 'expected': exp, 'replay': replay_binary(T, op, av, bvv, exp)}, len(outs)
    return 'held', None, len(outs)


def ob_signed_mul(cx, T, timeout_ms):
    """signed multiply wrapper over an abstract unsigned multiplier (contract of ferret_mul_limbs, discharged by the
    unsigned mul obligations): result = +-MUL(|a|, |b|) with the sign of a xor b."""
    nl, signed = TYPES[T]
    bits = 64 * nl
    MUL = z3.Function('mul_limbs_%d' % bits, z3.BitVecSort(bits), z3.BitVecSort(bits), z3.BitVecSort(bits))
    ex, solver = mk_exec(cx, timeout_ms)

    def mul_contract(ex_, st_, a_, work_):
        n = a_[3]
        x = st_.mem.load(st_, a_[0], 8 * nl)
        y = st_.mem.load(st_, a_[1], 8 * nl)
        st_.mem.store(st_, a_[2], MUL(x, y), 8 * nl)
        return None
    ex.overrides['@ferret_mul_limbs'] = mul_contract
    st = ex.new_state()
    A = [z3.BitVec('a%d' % i, 64) for i in range(nl)]
    B = [z3.BitVec('b%d' % i, 64) for i in range(nl)]
    ra, rb = put(st, 'a', A), put(st, 'b', B)
    ro = st.mem.alloc(8 * nl, name='out', kind='heap')
    outs = ex.run('@ferret_%s_mul_ptr' % T, [st.mem.ptr(ra), st.mem.ptr(rb), st.mem.ptr(ro)], st=st)
    cx.funcs |= ex.encoded
    a, b = val(A), val(B)
    na, nb = a < 0, b < 0
    P = MUL(z3.If(na, -a, a), z3.If(nb, -b, b))
    ref = z3.If(na != nb, -P, P)
    for o in outs:
        if o.kind != 'ret':
            return 'violation', {'what': 'path ends with %s: %s' % (o.kind, o.detail)}, len(outs)
        out = o.mem.load(o.state, o.mem.ptr(ro), 8 * nl)
        r, m = solver.check(list(o.pc) + [out != ref])
        if r == 'unknown':
            return 'unknown', None, len(outs)
        if r == 'sat':
            return 'violation', {'a': model_ints(m, A), 'b': model_ints(m, B), 'what': 'sign handling of the signed multiply wrapper'}, len(outs)
    return 'held', None, len(outs)


def ob_compare(cx, T, op, timeout_ms):
    nl, signed = TYPES[T]
    ex, solver = mk_exec(cx, timeout_ms)
    st = ex.new_state()
    A = [z3.BitVec('a%d' % i, 64) for i in range(nl)]
    B = [z3.BitVec('b%d' % i, 64) for i in range(nl)]
    ra, rb = put(st, 'a', A), put(st, 'b', B)
    outs = ex.run('@ferret_%s_%s_ptr' % (T, op), [st.mem.ptr(ra), st.mem.ptr(rb)], st=st)
    cx.funcs |= ex.encoded
    a, b = val(A), val(B)
    if op == 'eq':
        ref = a == b
    elif op == 'lt':
        ref = (a < b) if signed else z3.ULT(a, b)
    else:
        ref = (a > b) if signed else z3.UGT(a, b)
    for o in outs:
        if o.kind != 'ret' or o.ret is None:
            return 'violation', {'what': 'path ends with %s: %s' % (o.kind, o.detail)}, len(outs)
        got = z3.Extract(0, 0, o.ret) == bv(1, 1)
        r, m = solver.check(list(o.pc) + [got != ref])
        if r == 'unknown':
            return 'unknown', None, len(outs)
        if r == 'sat':
            av, bvv = model_ints(m, A), model_ints(m, B)
            x = sum(v << (64 * i) for i, v in enumerate(av))
            y = sum(v << (64 * i) for i, v in enumerate(bvv))
            if signed:
                x, y = to_signed(x, 64 * nl), to_signed(y, 64 * nl)
            exp = {'eq': x == y, 'lt': x < y, 'gt': x > y}[op]
            return 'violation', {'a': av, 'b': bvv, 'expected': int(exp), 'replay': replay_compare(T, op, av, bvv, int(exp))}, len(outs)
    return 'held', None, len(outs)


def ob_from64(cx, T, src, timeout_ms):
    nl, signed = TYPES[T]
    ex, solver = mk_exec(cx, timeout_ms)
    st = ex.new_state()
    x = z3.BitVec('x', 64)
    ro = st.mem.alloc(8 * nl, name='out', kind='heap')
    outs = ex.run('@ferret_%s_from_%s_ptr' % (T, src), [x, st.mem.ptr(ro)], st=st)
    cx.funcs |= ex.encoded
    bits = 64 * nl
    ref = z3.SignExt(bits - 64, x) if src == 'i64' else z3.ZeroExt(bits - 64, x)
    for o in outs:
        if o.kind != 'ret':
            return 'violation', {'what': 'path ends with %s: %s' % (o.kind, o.detail)}, len(outs)
        out = o.mem.load(o.state, o.mem.ptr(ro), 8 * nl)
        r, m = solver.check(list(o.pc) + [out != ref])
        if r == 'unknown':
            return 'unknown', None, len(outs)
        if r == 'sat':
            return 'violation', {'x': model_ints(m, [x])}, len(outs)
    return 'held', None, len(outs)


def ob_to64(cx, T, dst, timeout_ms):
    nl, signed = TYPES[T]
    ex, solver = mk_exec(cx, timeout_ms)
    st = ex.new_state()
    A = [z3.BitVec('a%d' % i, 64) for i in range(nl)]
    ra = put(st, 'a', A)
    outs = ex.run('@ferret_%s_to_%s_ptr' % (T, dst), [st.mem.ptr(ra)], st=st)
    cx.funcs |= ex.encoded
    for o in outs:
        if o.kind != 'ret' or o.ret is None:
            return 'violation', {'what': 'path ends with %s: %s' % (o.kind, o.detail)}, len(outs)
        r, m = solver.check(list(o.pc) + [o.ret != A[0]])
        if r == 'unknown':
            return 'unknown', None, len(outs)
        if r == 'sat':
            return 'violation', {'a': model_ints(m, A)}, len(outs)
    return 'held', None, len(outs)


def ob_not(cx, T, timeout_ms):
    nl, signed = TYPES[T]
    ex, solver = mk_exec(cx, timeout_ms)
    st = ex.new_state()
    A = [z3.BitVec('a%d' % i, 64) for i in range(nl)]
    ra = put(st, 'a', A)
    ro = st.mem.alloc(8 * nl, name='out', kind='heap')
    outs = ex.run('@ferret_%s_not_ptr' % T, [st.mem.ptr(ra), st.mem.ptr(ro)], st=st)
    cx.funcs |= ex.encoded
    for o in outs:
        if o.kind != 'ret':
            return 'violation', {'what': 'path ends with %s: %s' % (o.kind, o.detail)}, len(outs)
        out = o.mem.load(o.state, o.mem.ptr(ro), 8 * nl)
        r, m = solver.check(list(o.pc) + [out != ~val(A)])
        if r == 'unknown':
            return 'unknown', None, len(outs)
        if r == 'sat':
            return 'violation', {'a': model_ints(m, A)}, len(outs)
    return 'held', None, len(outs)


def ob_from_string(cx, T, ndig, neg, timeout_ms):
    """decimal text of ndig symbolic digits (optionally negated) -> limbs = value mod 2^N."""
    nl, signed = TYPES[T]
    ex, solver = mk_exec(cx, timeout_ms, unroll=ndig + 8)
    st = ex.new_state()
    D = [z3.BitVec('d%d' % i, 8) for i in range(ndig)]
    text = ([bv(ord('-'), 8)] if neg else []) + D + [bv(0, 8)]
    rs = st.mem.alloc(len(text), name='text', kind='heap', init=text)
    ro = st.mem.alloc(8 * nl, name='out', kind='heap')
    pre = z3.And(*[z3.And(z3.UGE(d, bv(ord('0'), 8)), z3.ULE(d, bv(ord('9'), 8))) for d in D])
    # no leading "0x"/"0b"/"0o" prefix possible with decimal digits only; a leading 0 followed by digits stays decimal
    outs = ex.run('@ferret_%s_from_string_ptr' % T, [st.mem.ptr(rs), st.mem.ptr(ro)], pre=pre, st=st)
    cx.funcs |= ex.encoded
    bits = 64 * nl
    acc = bv(0, bits)
    for d in D:
        acc = acc * bv(10, bits) + z3.ZeroExt(bits - 8, d - bv(ord('0'), 8))
    ref = -acc if neg else acc
    for o in outs:
        if o.kind != 'ret':
            return 'violation', {'what': 'path ends with %s: %s' % (o.kind, o.detail)}, len(outs)
        out = o.mem.load(o.state, o.mem.ptr(ro), 8 * nl)
        r, m = solver.check(list(o.pc) + [out != ref])
        if r == 'unknown':
            return 'unknown', None, len(outs)
        if r == 'sat':
            ds = ''.join(chr(v) for v in model_ints(m, D))
            s = ('-' if neg else '') + ds
            exp = int(s) % (1 << bits)
            return 'violation', {'text': s, 'expected': exp, 'replay': replay_from_string(T, s, exp)}, len(outs)
    return 'held', None, len(outs)


def ob_mul_add_small(cx, nl, base, timeout_ms):
    """one step of the text->integer accumulation from an arbitrary state: v := v*base + digit (mod 2^(64 nl))."""
    ex, solver = mk_exec(cx, timeout_ms)
    st = ex.new_state()
    V = [z3.BitVec('v%d' % i, 64) for i in range(nl)]
    d = z3.BitVec('digit', 32)
    rv = put(st, 'v', V)
    pre = z3.ULT(d, bv(base, 32))
    outs = ex.run('@ferret_mul_add_small', [st.mem.ptr(rv), bv(nl, 32), bv(base, 32), d], pre=pre, st=st)
    cx.funcs |= ex.encoded
    bits = 64 * nl
    ref = val(V) * bv(base, bits) + z3.ZeroExt(bits - 32, d)
    for o in outs:
        if o.kind != 'ret':
            return 'violation', {'what': 'path ends with %s: %s' % (o.kind, o.detail)}, len(outs)
        out = o.mem.load(o.state, o.mem.ptr(rv), 8 * nl)
        r, m = solver.check(list(o.pc) + [out != ref])
        if r == 'unknown':
            return 'unknown', None, len(outs)
        if r == 'sat':
            vv = model_ints(m, V)
            dv = model_ints(m, [d])[0]
            x = sum(v << (64 * i) for i, v in enumerate(vv))
            exp = (x * base + dv) % (1 << bits)
            return 'violation', {'v': vv, 'digit': dv, 'base': base, 'expected': exp, 'replay': replay_mul_add_small(nl, vv, base, dv, exp)}, len(outs)
    return 'held', None, len(outs)



# ------------------------------------------------------------------------------------------------ integer -> decimal text
def ob_div_small(cx, nl, timeout_ms):
    """one step of the integer->text conversion from an arbitrary limb state: ferret_div_small_limbs(val, out, n, 10)
    returns val mod 10 and writes val div 10 (128-bit udiv/urem by the division identity, see llvm.py axiom_div)."""
    ex, solver = mk_exec(cx, timeout_ms)
    ex.axiom_div = True
    st = ex.new_state()
    V = [z3.BitVec('v%d' % i, 64) for i in range(nl)]
    rv = put(st, 'v', V)
    ro = st.mem.alloc(8 * nl, name='out', kind='heap')
    outs = ex.run('@ferret_div_small_limbs', [st.mem.ptr(rv), st.mem.ptr(ro), bv(nl, 32), bv(10, 32)], st=st)
    cx.funcs |= ex.encoded
    bits = 64 * nl
    x = val(V)
    wide = lambda t, k: z3.ZeroExt(k, t)
    for o in outs:
        if o.kind != 'ret' or o.ret is None:
            return 'violation', {'what': 'path ends with %s: %s' % (o.kind, o.detail)}, len(outs)
        q = o.mem.load(o.state, o.mem.ptr(ro), 8 * nl)
        rem = o.ret
        # q*10 + rem == x without wrap-around (one extra limb of width), rem < 10
        bad = z3.Or(z3.UGE(rem, bv(10, 32)), wide(q, 64) * bv(10, bits + 64) + wide(rem, bits + 32) != wide(x, 64))
        r, m = solver.check(list(o.pc) + [bad])
        if r == 'unknown':
            return 'unknown', None, len(outs)
        if r == 'sat':
            vv = model_ints(m, V)
            return 'violation', {'what': 'div_small_limbs: quotient*10 + remainder differs from the value, or remainder >= 10', 'v': vv, 'replay': replay_div_small(nl, vv)}, len(outs)
    return 'held', None, len(outs)


def _read_cstr(o, ptr, maxlen):
    """bytes of the C string at ptr (list of 8-bit terms, up to maxlen)"""
    out = []
    for k in range(maxlen):
        try:
            out.append(o.mem.load(o.state, ptr + bv(k, 64), 1))
        except Exception:
            break       # end of the allocated object: the text (with its NUL) must fit in what is there
    return out


def ob_to_string(cx, T, ndig, neg, timeout_ms):
    """ferret_<T>_to_string_ptr on every value with at most ndig decimal digits (|value| < 10^ndig; negative values for
    the signed types when neg): the returned C string is the decimal text - optional '-', digits most significant
    first, no leading zero, NUL terminated.  Digits of the reference are computed by 32-bit udiv/urem on the (small)
    magnitude."""
    nl, signed = TYPES[T]
    N = 64 * nl
    ex, solver = mk_exec(cx, timeout_ms, unroll=ndig + 4)
    ex.axiom_div = True
    st = ex.new_state()
    A = [z3.BitVec('a%d' % i, 64) for i in range(nl)]
    ra = put(st, 'a', A)
    x = val(A)
    lim = 10 ** ndig
    if neg:
        mag = -x
        pre = z3.And(x < 0, x > bv(-lim, N))
    else:
        mag = x
        pre = z3.ULT(x, bv(lim, N))
    outs = ex.run('@ferret_%s_to_string_ptr' % T, [st.mem.ptr(ra)], pre=pre, st=st)
    cx.funcs |= ex.encoded
    m32 = z3.Extract(31, 0, mag)
    paths = len(outs)
    seen_ret = False
    for o in outs:
        r, _ = solver.check(list(o.pc))
        if r == 'unsat':
            continue
        if o.kind != 'ret' or o.ret is None:
            return 'violation', {'what': 'path ends with %s: %s' % (o.kind, o.detail)}, paths
        seen_ret = True
        chars = _read_cstr(o, o.ret, ndig + 2)
        # expected text for each possible digit count k = 1..ndig
        conds = []
        for k in range(1, ndig + 1):
            lo = 0 if k == 1 else 10 ** (k - 1)
            inrange = z3.And(z3.UGE(m32, bv(lo, 32)), z3.ULT(m32, bv(10 ** k, 32)))
            exp = ([bv(ord('-'), 8)] if neg else [])
            for j in range(k):
                dj = z3.URem(z3.UDiv(m32, bv(10 ** (k - 1 - j), 32)), bv(10, 32))
                exp.append(z3.Extract(7, 0, dj) + bv(ord('0'), 8))
            exp.append(bv(0, 8))
            if len(exp) > len(chars):
                conds.append(z3.Not(inrange))      # the object is too short for this value's text
            else:
                conds.append(z3.Implies(inrange, z3.And(*[chars[i] == exp[i] for i in range(len(exp))])))
        r, m = solver.check(list(o.pc) + [z3.Not(z3.And(*conds))])
        if r == 'unknown':
            return 'unknown', None, paths
        if r == 'sat':
            av = model_ints(m, A)
            got = ''.join(chr(m.eval(c, model_completion=True).as_long()) for c in chars) + '\x00'
            return 'violation', {'what': 'to_string text differs from the decimal representation', 'a': av, 'text_prefix': got.split('\x00')[0], 'replay': replay_to_string(T, av)}, paths
    if not seen_ret:
        return 'violation', {'what': 'to_string never returns for the values of the bound'}, paths
    return 'held', None, paths


# ------------------------------------------------------------------------------------------------ division: loop induction
def _succ_labels(blk):
    t = blk.instrs[-1]
    if t.op != 'br':
        return []
    return [x for i, x in enumerate(t.t) if i > 0 and t.t[i - 1] == 'label']


def loop_header(fn):
    """first block (layout order) that is the target of a back edge: the header of the outermost first loop"""
    pos = {b: i for i, b in enumerate(fn.order)}
    for b in fn.order:
        for p in fn.order[pos[b]:]:
            if b in _succ_labels(fn.blocks[p]):
                return b
    return None


def header_counter(fn, header):
    """register of the alloca the loop header loads first (the loop counter)"""
    for ins in fn.blocks[header].instrs:
        if ins.op == 'load':
            return [x for x in ins.t if x.startswith('%')][-1]
    return None


def _n(a, who):
    from lirsym.core import conc_val
    n = conc_val(a)
    if n is None or not 0 < n <= 8:
        raise Inconclusive('%s: limb count is not a small constant' % who)
    return n


def _is_zero_contract(nl):
    def f(ex_, st_, a_, work_):
        v = st_.mem.load(st_, a_[0], 8 * _n(a_[1], 'is_zero'))
        return z3.If(v == 0, bv(1, 1), bv(0, 1))
    return f


def ob_div_loop(cx, nl, timeout_ms, bits_=None):
    """ferret_div_mod_u_limbs as three inductive obligations on the real loop (any numerator, any non-zero divisor):
    INIT  from the entry every path reaches the loop header with quot = rem = 0 and bit = N-1 (a path that returns without
          entering the loop must return exactly udiv/urem);
    STEP  ONE iteration from an ARBITRARY state at the header with 0 <= bit < N, rem < denom, rem <= numer >> (bit+1):
          rem' = 2 rem + numer[bit] - q denom with q = (2 rem + numer[bit] >= denom) computed without overflow (N+1 bits),
          quot' = quot | q << bit, bit' = bit - 1, rem' < denom, rem' <= numer >> bit, operands untouched;
    EXIT  from the header with bit = -1 the function returns true and leaves quot and rem as they are.
    With the textbook argument (numer >> (bit+1) = (quot >> (bit+1)) denom + rem is preserved by STEP) this gives
    quot = numer div denom and rem = numer mod denom for every operand pair."""
    fname = '@ferret_div_mod_u_limbs'
    fn = cx.mod.funcs[fname]
    N = 64 * nl
    header = loop_header(fn)
    if header is None:
        return 'violation', {'what': 'no loop found in %s' % fname}, 0
    cnt_reg = header_counter(fn, header)
    ex, solver = mk_exec(cx, timeout_ms)
    ex.overrides['@ferret_is_zero_limbs'] = _is_zero_contract(nl)
    ex.overrides['@ferret_cmp_u_limbs'] = _cmp_u_contract(nl)
    ex.overrides['@ferret_sub_limbs'] = _sub_contract(nl)
    st = ex.new_state()
    NUM = [z3.BitVec('n%d' % i, 64) for i in range(nl)]
    DEN = [z3.BitVec('d%d' % i, 64) for i in range(nl)]
    rn, rd = put(st, 'numer', NUM), put(st, 'denom', DEN)
    rq = st.mem.alloc(8 * nl, name='quot', kind='heap')
    rr = st.mem.alloc(8 * nl, name='rem', kind='heap')
    n, d = val(NUM), val(DEN)
    ex.stop_at = (fname, header)
    outs = ex.run(fname, [st.mem.ptr(rn), st.mem.ptr(rd), st.mem.ptr(rq), st.mem.ptr(rr), bv(nl, 32)], pre=(d != 0), st=st)
    cx.funcs |= ex.encoded
    paths = len(outs)
    stopped = [o for o in outs if o.kind == 'stopped']

    def cex(m, extra=None):
        nv, dv = model_ints(m, NUM), model_ints(m, DEN)
        x = sum(v << (64 * i) for i, v in enumerate(nv))
        y = sum(v << (64 * i) for i, v in enumerate(dv))
        out = {'numer': nv, 'denom': dv}
        if y:
            out['expected_quot'] = x // y
            out['expected_rem'] = x % y
            out['replay'] = replay_divmod(nl, nv, dv, x // y, x % y)
        if extra:
            out.update(extra)
        return out
    # INIT
    for o in outs:
        if o.kind == 'stopped':
            q0 = o.mem.load(o.state, o.mem.ptr(rq), 8 * nl)
            r0 = o.mem.load(o.state, o.mem.ptr(rr), 8 * nl)
            fr = o.state.frames[-1]
            k0 = o.mem.load(o.state, fr.regs[cnt_reg], 4)
            r, m = solver.check(list(o.pc) + [z3.Or(q0 != 0, r0 != 0, k0 != bv(N - 1, 32))])
            if r == 'unknown':
                return 'unknown', None, paths
            if r == 'sat':
                return 'violation', cex(m, {'what': 'INIT: loop entered with quot/rem not zero or bit != N-1'}), paths
        elif o.kind == 'ret':
            # a path that never enters the loop: must already deliver the exact quotient and remainder
            q0 = o.mem.load(o.state, o.mem.ptr(rq), 8 * nl)
            r0 = o.mem.load(o.state, o.mem.ptr(rr), 8 * nl)
            bad = z3.Or(q0 != z3.UDiv(n, d), r0 != z3.URem(n, d))
            if o.ret is not None:
                bad = z3.Or(bad, z3.Extract(0, 0, o.ret) != bv(1, 1))
            r, m = solver.check(list(o.pc) + [bad])
            if r == 'unknown':
                return 'unknown', None, paths
            if r == 'sat':
                return 'violation', cex(m, {'what': 'a path returns without entering the division loop and its result is not numer div/mod denom'}), paths
        else:
            r, m = solver.check(list(o.pc))
            if r == 'sat':
                return 'violation', cex(m, {'what': 'path ends with %s: %s' % (o.kind, o.detail)}), paths
            if r == 'unknown':
                return 'unknown', None, paths
    if not stopped:
        return 'held', None, paths       # no loop path at all: every path was checked against udiv/urem above
    # STEP: patch the first arrival into an arbitrary invariant state
    base = stopped[0].state
    k = z3.BitVec('bit', 32)
    R = [z3.BitVec('r%d' % i, 64) for i in range(nl)]
    Q = [z3.BitVec('q%d' % i, 64) for i in range(nl)]

    def patched(kterm, extra_pc):
        s = base.clone()
        fr = s.frames[-1]
        fr.visits = {fr.block: 1}
        s.mem.store(s, fr.regs[cnt_reg], kterm, 4)
        for i in range(nl):
            s.mem.store(s, s.mem.ptr(s.mem.regions[rr.id], 8 * i), R[i], 8)
            s.mem.store(s, s.mem.ptr(s.mem.regions[rq.id], 8 * i), Q[i], 8)
        s.pc = list(s.pc) + extra_pc
        return s
    rem, quot = val(R), val(Q)
    if bits_ is not None:
        # the bit position is case-split into concrete values (each case is one STEP obligation); INIT/EXIT as before
        for kc in bits_:
            res = _div_step(cx, ex, solver, patched, bv(kc, 32), NUM, DEN, R, Q, rn, rd, rq, rr, cnt_reg, nl, cex)
            paths += res[2]
            if res[0] != 'held':
                return res[0], res[1], paths
    else:
        res = _div_step(cx, ex, solver, patched, k, NUM, DEN, R, Q, rn, rd, rq, rr, cnt_reg, nl, cex)
        paths += res[2]
        if res[0] != 'held':
            return res[0], res[1], paths
    # EXIT
    s2 = patched(bv(-1, 32), [])
    outs2 = ex.explore([s2])
    paths += len(outs2)
    for o in outs2:
        if o.kind != 'ret' or o.ret is None:
            return 'violation', {'what': 'EXIT: with bit = -1 the function does not return (%s %s)' % (o.kind, o.detail)}, paths
        q1 = o.mem.load(o.state, o.mem.ptr(o.mem.regions[rq.id]), 8 * nl)
        r1 = o.mem.load(o.state, o.mem.ptr(o.mem.regions[rr.id]), 8 * nl)
        r, m = solver.check(list(o.pc) + [z3.Or(q1 != quot, r1 != rem, z3.Extract(0, 0, o.ret) != bv(1, 1))])
        if r == 'unknown':
            return 'unknown', None, paths
        if r == 'sat':
            return 'violation', {'what': 'EXIT: leaving the loop changes quot/rem or does not return true'}, paths
    return 'held', None, paths


def _div_step(cx, ex, solver, patched, k, NUM, DEN, R, Q, rn, rd, rq, rr, cnt_reg, nl, cex):
    N = 64 * nl
    n, d, rem, quot = val(NUM), val(DEN), val(R), val(Q)
    paths = 0
    kN = z3.ZeroExt(N - 32, k)
    inv = [k >= 0, k < bv(N, 32), z3.ULT(rem, d), z3.ULE(rem, z3.LShR(n, kN + 1))]
    s1 = patched(k, inv)
    outs1 = ex.explore([s1])
    paths += len(outs1)
    W = N + 1
    b = z3.Extract(0, 0, z3.LShR(n, kN))
    R2 = (z3.ZeroExt(1, rem) << 1) | z3.ZeroExt(W - 1, b)
    qbit = z3.UGE(R2, z3.ZeroExt(1, d))
    Rn = z3.If(qbit, R2 - z3.ZeroExt(1, d), R2)
    exp_rem = z3.Extract(N - 1, 0, Rn)
    exp_quot = z3.If(qbit, quot | (bv(1, N) << kN), quot)
    seen_stop = False
    for o in outs1:
        if o.kind != 'stopped':
            r, m = solver.check(list(o.pc))
            if r == 'sat':
                return 'violation', {'what': 'STEP: one iteration ends with %s (%s) instead of returning to the loop header' % (o.kind, o.detail),
                                     'state': {'bit': model_ints(m, [k])[0], 'rem': model_ints(m, R), 'numer': model_ints(m, NUM), 'denom': model_ints(m, DEN)}}, paths
            if r == 'unknown':
                return 'unknown', None, paths
            continue
        seen_stop = True
        fr = o.state.frames[-1]
        q1 = o.mem.load(o.state, o.mem.ptr(o.mem.regions[rq.id]), 8 * nl)
        r1 = o.mem.load(o.state, o.mem.ptr(o.mem.regions[rr.id]), 8 * nl)
        k1 = o.mem.load(o.state, fr.regs[cnt_reg], 4)
        n1 = o.mem.load(o.state, o.mem.ptr(o.mem.regions[rn.id]), 8 * nl)
        d1 = o.mem.load(o.state, o.mem.ptr(o.mem.regions[rd.id]), 8 * nl)
        bad = z3.Or(r1 != exp_rem, q1 != exp_quot, k1 != k - 1, n1 != n, d1 != d,
                    z3.Not(z3.ULT(Rn, z3.ZeroExt(1, d))), z3.Not(z3.ULE(exp_rem, z3.LShR(n, kN))))
        r, m = solver.check(list(o.pc) + [bad])
        if r == 'unknown':
            return 'unknown', None, paths
        if r == 'sat':
            return 'violation', cex(m, {'what': 'STEP: one iteration of the shift-subtract loop does not implement rem,quot := step(rem,quot)',
                                        'state': {'bit': model_ints(m, [k])[0], 'rem': model_ints(m, R), 'quot': model_ints(m, Q)}}), paths
    if not seen_stop:
        return 'violation', {'what': 'STEP: no path returns to the loop header'}, paths
    # vacuity of STEP: the invariant state is reachable at all
    r, _ = solver.check(list(s1.pc))
    if r != 'sat':
        return 'unknown', None, paths
    return 'held', None, paths


def _cmp_u_contract(nl):
    def f(ex_, st_, a_, work_):
        k = _n(a_[2], 'cmp_u')
        x = st_.mem.load(st_, a_[0], 8 * k)
        y = st_.mem.load(st_, a_[1], 8 * k)
        return z3.If(z3.ULT(x, y), bv(-1, 32), z3.If(z3.UGT(x, y), bv(1, 32), bv(0, 32)))
    return f


def _sub_contract(nl):
    # out = a - b mod 2^N: discharged by the bin/<T>/sub obligations (the *_sub_ptr entry points are ferret_sub_limbs)
    def f(ex_, st_, a_, work_):
        k = _n(a_[3], 'sub')
        x = st_.mem.load(st_, a_[0], 8 * k)
        y = st_.mem.load(st_, a_[1], 8 * k)
        st_.mem.store(st_, a_[2], x - y, 8 * k)
        return None
    return f


def _negate_contract(nl):
    def f(ex_, st_, a_, work_):
        k = _n(a_[1], 'negate')
        x = st_.mem.load(st_, a_[0], 8 * k)
        st_.mem.store(st_, a_[0], -x, 8 * k)
        return None
    return f


def ob_negate(cx, nl, timeout_ms):
    """discharges the contract of ferret_negate_limbs: v := -v mod 2^N"""
    ex, solver = mk_exec(cx, timeout_ms)
    st = ex.new_state()
    A = [z3.BitVec('a%d' % i, 64) for i in range(nl)]
    ra = put(st, 'a', A)
    outs = ex.run('@ferret_negate_limbs', [st.mem.ptr(ra), bv(nl, 32)], st=st)
    cx.funcs |= ex.encoded
    for o in outs:
        if o.kind != 'ret':
            return 'violation', {'what': 'path ends with %s' % o.kind}, len(outs)
        out = o.mem.load(o.state, o.mem.ptr(o.mem.regions[ra.id]), 8 * nl)
        r, m = solver.check(list(o.pc) + [out != -val(A)])
        if r == 'unknown':
            return 'unknown', None, len(outs)
        if r == 'sat':
            return 'violation', {'a': model_ints(m, A), 'what': 'ferret_negate_limbs'}, len(outs)
    return 'held', None, len(outs)


def ob_cmp_u(cx, nl, timeout_ms):
    """discharges the contract the division obligations use for ferret_cmp_u_limbs: sign of the result = unsigned order"""
    ex, solver = mk_exec(cx, timeout_ms)
    st = ex.new_state()
    A = [z3.BitVec('a%d' % i, 64) for i in range(nl)]
    B = [z3.BitVec('b%d' % i, 64) for i in range(nl)]
    ra, rb = put(st, 'a', A), put(st, 'b', B)
    outs = ex.run('@ferret_cmp_u_limbs', [st.mem.ptr(ra), st.mem.ptr(rb), bv(nl, 32)], st=st)
    cx.funcs |= ex.encoded
    a, b = val(A), val(B)
    for o in outs:
        if o.kind != 'ret' or o.ret is None:
            return 'violation', {'what': 'path ends with %s' % o.kind}, len(outs)
        bad = z3.Or((o.ret < 0) != z3.ULT(a, b), (o.ret > 0) != z3.UGT(a, b), (o.ret == 0) != (a == b))
        r, m = solver.check(list(o.pc) + [bad])
        if r == 'unknown':
            return 'unknown', None, len(outs)
        if r == 'sat':
            return 'violation', {'a': model_ints(m, A), 'b': model_ints(m, B), 'what': 'ferret_cmp_u_limbs'}, len(outs)
    return 'held', None, len(outs)


def ob_is_zero(cx, nl, timeout_ms):
    ex, solver = mk_exec(cx, timeout_ms)
    st = ex.new_state()
    A = [z3.BitVec('a%d' % i, 64) for i in range(nl)]
    ra = put(st, 'a', A)
    outs = ex.run('@ferret_is_zero_limbs', [st.mem.ptr(ra), bv(nl, 32)], st=st)
    cx.funcs |= ex.encoded
    for o in outs:
        if o.kind != 'ret' or o.ret is None:
            return 'violation', {'what': 'path ends with %s' % o.kind}, len(outs)
        r, m = solver.check(list(o.pc) + [(z3.Extract(0, 0, o.ret) == bv(1, 1)) != (val(A) == 0)])
        if r == 'unknown':
            return 'unknown', None, len(outs)
        if r == 'sat':
            return 'violation', {'a': model_ints(m, A), 'what': 'ferret_is_zero_limbs'}, len(outs)
    return 'held', None, len(outs)


def ob_divmod_wrapper(cx, T, op, timeout_ms):
    """div / mod entry points over the CONTRACT of ferret_div_mod_u_limbs (quot = DIVU(n,d), rem = REMU(n,d), true, for
    d != 0 - discharged by ob_div_loop): unsigned = DIVU/REMU, signed = the SMT-LIB definition of bvsdiv / bvsrem
    (magnitudes divided, quotient negated when the signs differ, remainder takes the sign of the dividend)."""
    nl, signed = TYPES[T]
    bits = 64 * nl
    DIVU = z3.Function('divu_%d' % bits, z3.BitVecSort(bits), z3.BitVecSort(bits), z3.BitVecSort(bits))
    REMU = z3.Function('remu_%d' % bits, z3.BitVecSort(bits), z3.BitVecSort(bits), z3.BitVecSort(bits))
    ex, solver = mk_exec(cx, timeout_ms)

    def contract(ex_, st_, a_, work_):
        x = st_.mem.load(st_, a_[0], 8 * nl)
        y = st_.mem.load(st_, a_[1], 8 * nl)
        ok, _ = st_.solver.feasible(st_.pc, y == 0)
        if ok:
            raise Inconclusive('divisor can be zero at the call of ferret_div_mod_u_limbs')
        st_.mem.store(st_, a_[2], DIVU(x, y), 8 * nl)
        st_.mem.store(st_, a_[3], REMU(x, y), 8 * nl)
        return bv(1, 1)
    ex.overrides['@ferret_div_mod_u_limbs'] = contract
    ex.overrides['@ferret_negate_limbs'] = _negate_contract(nl)
    st = ex.new_state()
    A = [z3.BitVec('a%d' % i, 64) for i in range(nl)]
    B = [z3.BitVec('b%d' % i, 64) for i in range(nl)]
    ra, rb = put(st, 'a', A), put(st, 'b', B)
    ro = st.mem.alloc(8 * nl, name='out', kind='heap')
    a, b = val(A), val(B)
    outs = ex.run('@ferret_%s_%s_ptr' % (T, op), [st.mem.ptr(ra), st.mem.ptr(rb), st.mem.ptr(ro)], pre=(b != 0), st=st)
    cx.funcs |= ex.encoded
    if signed:
        na, nb = a < 0, b < 0
        absa, absb = z3.If(na, -a, a), z3.If(nb, -b, b)
        if op == 'div':
            ref = z3.If(na != nb, -DIVU(absa, absb), DIVU(absa, absb))
        else:
            ref = z3.If(na, -REMU(absa, absb), REMU(absa, absb))
    else:
        ref = DIVU(a, b) if op == 'div' else REMU(a, b)
    for o in outs:
        if o.kind != 'ret':
            return 'violation', {'what': 'path ends with %s: %s' % (o.kind, o.detail)}, len(outs)
        out = o.mem.load(o.state, o.mem.ptr(ro), 8 * nl)
        r, m = solver.check(list(o.pc) + [out != ref])
        if r == 'unknown':
            return 'unknown', None, len(outs)
        if r == 'sat':
            av, bvv = model_ints(m, A), model_ints(m, B)
            x = sum(v << (64 * i) for i, v in enumerate(av))
            y = sum(v << (64 * i) for i, v in enumerate(bvv))
            if signed:
                x, y = to_signed(x, bits), to_signed(y, bits)
            qq = abs(x) // abs(y)
            if (x < 0) != (y < 0):
                qq = -qq
            rr_ = abs(x) % abs(y)
            if x < 0:
                rr_ = -rr_
            exp = (qq if op == 'div' else rr_) % (1 << bits)
            return 'violation', {'a': av, 'b': bvv, 'expected': exp, 'what': 'sign / operand handling of the %s wrapper' % op,
                                 'replay': replay_binary(T, op, av, bvv, exp)}, len(outs)
    return 'held', None, len(outs)


def replay_divmod(nl, numer, denom, eq, er):
    T = 'u128' if nl == 2 else 'u256'
    body = '''#include <stdio.h>
#include "bigint.h"
int main(void) { ferret_%(T)s a = {%(a)s}, b = {%(b)s}, q, r; ferret_%(T)s_div_ptr(&a, &b, &q); ferret_%(T)s_mod_ptr(&a, &b, &r);
  for (int i = %(nl)d - 1; i >= 0; i--) printf("%%016llx", (unsigned long long)q.words[i]); printf(" ");
  for (int i = %(nl)d - 1; i >= 0; i--) printf("%%016llx", (unsigned long long)r.words[i]); printf("\\n"); return 0; }''' % {'T': T, 'a': _limbs_c(numer), 'b': _limbs_c(denom), 'nl': nl}
    rc, so, se = cir.run_c_driver('dm', body, ['core/bigint.c'])
    want = '%0*x %0*x' % (16 * nl, eq, 16 * nl, er)
    return {'native': so.strip(), 'expected': want, 'reproduced': rc != 0 or so.strip() != want, 'rc': rc, 'stderr': se[-300:]}


# ------------------------------------------------------------------------------------------------ pow: loop induction
def ob_pow_loop(cx, T, timeout_ms, uf=None):
    """ferret_<T>_pow (256-bit types) as inductive obligations on the real square-and-multiply loop, over the CONTRACT
    of the type's own multiply (ferret_<T>_mul writes a*b mod 2^N; discharged by the mul obligations) and of
    is_zero: INIT result = 1, exponent copy = exp, base = base (a negative signed exponent returns 0 at once);
    STEP one iteration from an ARBITRARY (result, base, e != 0): result' = odd(e) ? result*base : result,
    base' = base*base, e' = e >> 1 (all mod 2^N); EXIT e = 0 returns result.  With the textbook argument
    (result * base^e is invariant) this gives base^exp mod 2^N."""
    if uf is None:
        # first with the multiply as bit-vector multiplication (finds wrong squaring / multiplying code by a concrete
        # counterexample); if the solver cannot finish, with the multiply as an uninterpreted commutative function
        # (decides the loop structure under the multiply contract; a counterexample of that encoding is not concrete)
        r = ob_pow_loop(cx, T, timeout_ms, uf=False)
        if r[0] != 'unknown':
            return r
        r2 = ob_pow_loop(cx, T, timeout_ms, uf=True)
        if r2[0] == 'held':
            return r2
        return 'unknown', None, r2[2]
    nl, signed = TYPES[T]
    N = 64 * nl
    fname = '@ferret_%s_pow' % T
    fn = cx.mod.funcs[fname]
    header = loop_header(fn)
    if header is None:
        return 'violation', {'what': 'no loop found in %s' % fname}, 0
    ex, solver = mk_exec(cx, timeout_ms)
    ex.overrides['@ferret_is_zero_limbs'] = _is_zero_contract(nl)

    byreg = nl == 2     # 128-bit types travel in registers: (i64 lo, i64 hi) per operand, { i64, i64 } as the result

    MUL = z3.Function('mul%d' % N, z3.BitVecSort(N), z3.BitVecSort(N), z3.BitVecSort(N))

    def cmul(x, y):
        # the type's multiply under its contract "returns x*y mod 2^N" (discharged by the mul obligations), kept as an
        # uninterpreted commutative function here: the STEP obligation only needs that the loop multiplies the right
        # operands, and bit-blasting 128/256-bit multipliers to compare them does not finish
        if not uf:
            return x * y
        x, y = simp(x), simp(y)
        if str(x) > str(y):
            x, y = y, x
        return MUL(x, y)

    def mul_contract(ex_, st_, a_, work_):
        if byreg:
            return cmul(z3.Concat(a_[1], a_[0]), z3.Concat(a_[3], a_[2]))
        x = st_.mem.load(st_, a_[1], 8 * nl)
        y = st_.mem.load(st_, a_[2], 8 * nl)
        st_.mem.store(st_, a_[0], cmul(x, y), 8 * nl)
        return None
    ex.overrides['@ferret_%s_mul' % T] = mul_contract
    st = ex.new_state()
    B = [z3.BitVec('b%d' % i, 64) for i in range(nl)]
    X = [z3.BitVec('e%d' % i, 64) for i in range(nl)]
    base, exp = val(B), val(X)
    ex.stop_at = (fname, header)
    pre = (exp >= 0) if signed else z3.BoolVal(True)
    if byreg:
        rb = rx = ro = None
        outs = ex.run(fname, [B[0], B[1], X[0], X[1]], pre=pre, st=st)
    else:
        rb, rx = put(st, 'base', B), put(st, 'exp', X)
        ro = st.mem.alloc(8 * nl, name='out', kind='heap')
        outs = ex.run(fname, [st.mem.ptr(ro), st.mem.ptr(rb), st.mem.ptr(rx)], pre=pre, st=st)
    cx.funcs |= ex.encoded
    paths = len(outs)
    stopped = [o for o in outs if o.kind == 'stopped']
    if not stopped:
        return 'violation', {'what': 'pow never reaches its loop'}, paths
    # locate the locals: the one holding the exponent copy and the one holding the running result (= 1) at the first
    # arrival (the result is the sret object itself or a local, depending on how the function returns)
    o0 = stopped[0]
    fr = o0.state.frames[-1]

    def find(term, cands, last=False):
        hit = None
        for r in cands:
            if r.size == 8 * nl:
                v = o0.mem.load(o0.state, o0.mem.ptr(r), 8 * nl)
                rr, _ = solver.check(list(o0.pc) + [v != term])
                if rr == 'unsat':
                    hit = r
                    if not last:
                        return r
        return hit
    # the exponent COPY is the last local equal to exp (the spilled parameter precedes it in the frame)
    ecopy = find(exp, fr.allocas, last=True)
    if byreg:
        rb = find(base, fr.allocas)
        rres = find(bv(1, N), list(fr.allocas))
    else:
        rres = find(bv(1, N), [o0.mem.regions[ro.id]] + list(fr.allocas))
    if ecopy is None or rres is None or rb is None:
        return 'violation', {'what': 'INIT: at the loop header no local holds the exponent / the base / the result 1'}, paths
    for o in stopped:
        res0 = o.mem.load(o.state, o.mem.ptr(o.mem.regions[rres.id]), 8 * nl)
        b0 = o.mem.load(o.state, o.mem.ptr(o.mem.regions[rb.id]), 8 * nl)
        e0 = o.mem.load(o.state, o.mem.ptr(o.mem.regions[ecopy.id]), 8 * nl)
        r, m = solver.check(list(o.pc) + [z3.Or(res0 != 1, b0 != base, e0 != exp)])
        if r == 'unknown':
            return 'unknown', None, paths
        if r == 'sat':
            return 'violation', {'what': 'INIT: loop entered with result != 1, a changed base or a changed exponent', 'base': model_ints(m, B), 'exp': model_ints(m, X)}, paths
    for o in outs:
        if o.kind == 'ret' and signed:
            # negative exponent: returns 0 at once (excluded by the precondition) - any other early return is wrong
            r, m = solver.check(list(o.pc))
            if r == 'sat':
                return 'violation', {'what': 'pow returns without entering its loop for a non-negative exponent', 'exp': model_ints(m, X)}, paths
    basest = stopped[0].state
    R = [z3.BitVec('r%d' % i, 64) for i in range(nl)]
    Bs = [z3.BitVec('bs%d' % i, 64) for i in range(nl)]
    Es = [z3.BitVec('es%d' % i, 64) for i in range(nl)]

    def patched(extra):
        s = basest.clone()
        f = s.frames[-1]
        f.visits = {f.block: 1}
        for i in range(nl):
            s.mem.store(s, s.mem.ptr(s.mem.regions[rres.id], 8 * i), R[i], 8)
            s.mem.store(s, s.mem.ptr(s.mem.regions[rb.id], 8 * i), Bs[i], 8)
            s.mem.store(s, s.mem.ptr(s.mem.regions[ecopy.id], 8 * i), Es[i], 8)
        s.pc = [c for c in s.pc] + extra
        return s
    res, bs, es = val(R), val(Bs), val(Es)
    s1 = patched([es != 0])
    outs1 = ex.explore([s1])
    paths += len(outs1)
    seen = False
    for o in outs1:
        if o.kind != 'stopped':
            r, m = solver.check(list(o.pc))
            if r == 'sat':
                return 'violation', {'what': 'STEP: one iteration ends with %s (%s) instead of returning to the loop header' % (o.kind, o.detail)}, paths
            continue
        seen = True
        r1 = o.mem.load(o.state, o.mem.ptr(o.mem.regions[rres.id]), 8 * nl)
        b1 = o.mem.load(o.state, o.mem.ptr(o.mem.regions[rb.id]), 8 * nl)
        e1 = o.mem.load(o.state, o.mem.ptr(o.mem.regions[ecopy.id]), 8 * nl)
        odd = z3.Extract(0, 0, es) == 1
        bad = z3.Or(r1 != z3.If(odd, cmul(res, bs), res), b1 != cmul(bs, bs), e1 != z3.LShR(es, 1))
        r, m = solver.check(list(o.pc) + [bad])
        if r == 'unknown':
            return 'unknown', None, paths
        if r == 'sat':
            bv_, ev_ = model_ints(m, Bs), model_ints(m, Es)
            b = sum(v << (64 * i) for i, v in enumerate(bv_))
            return 'violation', {'what': 'STEP: one square-and-multiply iteration does not compute result,base,e := step(result,base,e)',
                                 'state': {'result': model_ints(m, R), 'base': bv_, 'e': ev_},
                                 'replay': replay_pow(T, bv_, 2, (b * b) % (1 << N))}, paths
    if not seen:
        return 'violation', {'what': 'STEP: no path returns to the loop header'}, paths
    s2 = patched([es == 0])
    outs2 = ex.explore([s2])
    paths += len(outs2)
    for o in outs2:
        if o.kind != 'ret':
            return 'violation', {'what': 'EXIT: with e = 0 pow does not return (%s)' % o.kind}, paths
        r1 = o.ret if byreg else o.mem.load(o.state, o.mem.ptr(o.mem.regions[ro.id]), 8 * nl)
        if r1 is None:
            return 'violation', {'what': 'EXIT: pow returns no value'}, paths
        r, m = solver.check(list(o.pc) + [r1 != res])
        if r == 'unknown':
            return 'unknown', None, paths
        if r == 'sat':
            return 'violation', {'what': 'EXIT: leaving the loop changes the result'}, paths
    return 'held', None, paths


def replay_div_small(nl, v):
    body = '''#include <stdio.h>
#include "../core/bigint.c"
int main(void) { ferret_limb_t v[%(nl)d] = %(v)s, q[%(nl)d]; uint32_t r = ferret_div_small_limbs(v, q, %(nl)d, 10u);
  for (int i = %(nl)d - 1; i >= 0; i--) printf("%%016llx", (unsigned long long)q[i]); printf(" %%u\\n", r); return 0; }''' % {'nl': nl, 'v': _limbs_c(v)}
    rc, so, se = cir.run_c_driver('dsm', body, [])
    x = sum(l << (64 * i) for i, l in enumerate(v))
    want = '%0*x %d' % (16 * nl, x // 10, x % 10)
    return {'native': so.strip(), 'expected': want, 'reproduced': rc != 0 or so.strip() != want, 'rc': rc, 'stderr': se[-300:]}


def replay_to_string(T, a):
    nl, signed = TYPES[T]
    body = '''#include <stdio.h>
#include "bigint.h"
int main(void) { ferret_%(T)s a = {%(a)s}; char* s = ferret_%(T)s_to_string_ptr(&a); printf("%%s\\n", s ? s : "(null)"); return 0; }''' % {'T': T, 'a': _limbs_c(a)}
    rc, so, se = cir.run_c_driver('tostr', body, ['core/bigint.c'])
    x = sum(l << (64 * i) for i, l in enumerate(a))
    if signed:
        x = to_signed(x, 64 * nl)
    return {'native': so.strip(), 'expected': str(x), 'reproduced': rc != 0 or so.strip() != str(x), 'rc': rc, 'stderr': se[-300:]}


def replay_pow(T, base, e, exp):
    nl = TYPES[T][0]
    body = '''#include <stdio.h>
#include "bigint.h"
int main(void) { ferret_%(T)s b = {%(b)s}, e = {{%(e)d}}, out; ferret_%(T)s_pow_ptr(&b, &e, &out);
  for (int i = %(nl)d - 1; i >= 0; i--) printf("%%016llx", (unsigned long long)out.words[i]); printf("\\n"); return 0; }''' % {'T': T, 'b': _limbs_c(base), 'e': e, 'nl': nl}
    rc, so, se = cir.run_c_driver('pow', body, ['core/bigint.c'])
    want = '%0*x' % (16 * nl, exp)
    return {'native': so.strip(), 'expected': want, 'reproduced': rc != 0 or so.strip() != want, 'rc': rc, 'stderr': se[-300:]}

# ------------------------------------------------------------------------------------------------ native replays
def replay_mul_add_small(nl, v, base, digit, exp):
    body = '''#include <stdio.h>
#include "../core/bigint.c"
int main(void) { ferret_limb_t v[%(nl)d] = %(v)s; ferret_mul_add_small(v, %(nl)d, %(base)du, %(digit)du);
  for (int i = %(nl)d - 1; i >= 0; i--) printf("%%016llx", (unsigned long long)v[i]); printf("\\n"); return 0; }''' % {'nl': nl, 'v': _limbs_c(v), 'base': base, 'digit': digit}
    rc, so, se = cir.run_c_driver('mas', body, [])
    want = '%0*x' % (16 * nl, exp)
    return {'native': so.strip(), 'expected': want, 'reproduced': rc == 0 and so.strip() != want, 'rc': rc, 'stderr': se[-300:]}



def _limbs_c(vals):
    return '{' + ', '.join('0x%xULL' % v for v in vals) + '}'


def replay_binary(T, op, a, b, exp):
    nl = TYPES[T][0]
    body = '''#include <stdio.h>
#include "bigint.h"
int main(void) { ferret_%(T)s a = {%(a)s}, b = {%(b)s}, out; ferret_%(T)s_%(op)s_ptr(&a, &b, &out);
  for (int i = %(nl)d - 1; i >= 0; i--) printf("%%016llx", (unsigned long long)out.words[i]); printf("\\n"); return 0; }''' % {'T': T, 'op': op, 'a': _limbs_c(a), 'b': _limbs_c(b), 'nl': nl}
    rc, so, se = cir.run_c_driver('bin', body, ['core/bigint.c'])
    got = so.strip()
    want = '%0*x' % (16 * nl, exp)
    return {'native': got, 'expected': want, 'reproduced': rc == 0 and got != want, 'rc': rc, 'stderr': se[-300:]}


def replay_compare(T, op, a, b, exp):
    body = '''#include <stdio.h>
#include "bigint.h"
int main(void) { ferret_%(T)s a = {%(a)s}, b = {%(b)s}; printf("%%d\\n", (int)ferret_%(T)s_%(op)s_ptr(&a, &b)); return 0; }''' % {'T': T, 'op': op, 'a': _limbs_c(a), 'b': _limbs_c(b)}
    rc, so, se = cir.run_c_driver('cmp', body, ['core/bigint.c'])
    return {'native': so.strip(), 'expected': str(exp), 'reproduced': rc == 0 and so.strip() != str(exp), 'rc': rc, 'stderr': se[-300:]}


def replay_from_string(T, s, exp):
    nl = TYPES[T][0]
    body = '''#include <stdio.h>
#include "bigint.h"
int main(void) { ferret_%(T)s out; ferret_%(T)s_from_string_ptr("%(s)s", &out);
  for (int i = %(nl)d - 1; i >= 0; i--) printf("%%016llx", (unsigned long long)out.words[i]); printf("\\n"); return 0; }''' % {'T': T, 's': s, 'nl': nl}
    rc, so, se = cir.run_c_driver('fs', body, ['core/bigint.c'])
    want = '%0*x' % (16 * nl, exp)
    return {'native': so.strip(), 'expected': want, 'reproduced': rc == 0 and so.strip() != want, 'rc': rc, 'stderr': se[-300:]}


def _job(args):
    """one obligation in a worker process"""
    kind = args[0]
    cx = _CX
    cx.stats = Stats()
    cx.funcs = set()
    t0 = time.time()
    try:
        if kind == 'bin':
            r = ob_binary(cx, args[1], args[2], args[3])
        elif kind == 'cmp':
            r = ob_compare(cx, args[1], args[2], args[3])
        elif kind == 'from64':
            r = ob_from64(cx, args[1], args[2], args[3])
        elif kind == 'to64':
            r = ob_to64(cx, args[1], args[2], args[3])
        elif kind == 'not':
            r = ob_not(cx, args[1], args[2])
        elif kind == 'smul':
            r = ob_signed_mul(cx, args[1], args[2])
        elif kind == 'mas':
            r = ob_mul_add_small(cx, args[1], args[2], args[3])
        elif kind == 'fromstr':
            r = ob_from_string(cx, args[1], args[2], args[3], args[4])
        elif kind == 'divloop':
            r = ob_div_loop(cx, args[1], args[-1], bits_=(args[2] if len(args) > 3 else None))
        elif kind == 'iszero':
            r = ob_is_zero(cx, args[1], args[2])
        elif kind == 'cmpu':
            r = ob_cmp_u(cx, args[1], args[2])
        elif kind == 'negate':
            r = ob_negate(cx, args[1], args[2])
        elif kind == 'divsmall':
            r = ob_div_small(cx, args[1], args[2])
        elif kind == 'tostr':
            r = ob_to_string(cx, args[1], args[2], args[3], args[4])
        elif kind == 'powloop':
            r = ob_pow_loop(cx, args[1], args[2])
        elif kind == 'divwrap':
            r = ob_divmod_wrapper(cx, args[1], args[2], args[3])
        else:
            raise ValueError(kind)
        status, detail, paths = r
    except Inconclusive as e:
        status, detail, paths = 'inconclusive', {'what': str(e)}, 0
    except Exception as e:
        import traceback
        status, detail, paths = 'inconclusive', {'what': 'internal: %s %s' % (e, traceback.format_exc()[-600:])}, 0
    return {'ob': '/'.join(str(a) for a in args[:-1]), 'status': status, 'detail': detail, 'paths': paths, 'stats': cx.stats.as_dict(),
            'funcs': sorted(cx.funcs), 'wall_s': round(time.time() - t0, 2)}


_CX = None


def main():
    global _CX
    tier_ = runner.tier()
    rep = runner.Report('C16', 'model_checking', tier_)
    try:
        _CX = Ctx()
    except Exception as e:
        rep.inconc('build', str(e))
        sys.exit(rep.finish({'explanation': 'IR build failed', 'states': 1, 'transitions': 1, 'traces_validated_against_impl': 0, 'samples': [{'note': 'build failed'}]}, []))
    tmo = 60000 if tier_ == 'quick' else 600000
    jobs = []
    for T in TYPES:
        for op in ('add', 'sub', 'and', 'or', 'xor'):
            jobs.append(('bin', T, op, tmo))
        for op in ('eq', 'lt', 'gt'):
            jobs.append(('cmp', T, op, tmo))
        jobs.append(('from64', T, 'i64' if TYPES[T][1] else 'u64', tmo))
        jobs.append(('to64', T, 'i64' if TYPES[T][1] else 'u64', tmo))
        if ('@ferret_%s_not_ptr' % T) in _CX.mod.funcs:
            jobs.append(('not', T, tmo))
    jobs.append(('bin', 'u128', 'mul', tmo))
    if tier_ != 'quick':
        # 256-bit multiply (solver unknown at the 600 s cap on the unchanged tree) is not registered: stated in not_covered
        jobs.append(('smul', 'i128', tmo))
    for nl in (2, 4):
        for base in (10, 16, 8, 2):
            jobs.append(('mas', nl, base, tmo))
        jobs.append(('divloop', nl, tmo))
        jobs.append(('iszero', nl, tmo))
        jobs.append(('cmpu', nl, tmo))
        jobs.append(('negate', nl, tmo))
    for T in TYPES:
        for op in ('div', 'mod'):
            jobs.append(('divwrap', T, op, tmo))
    for T in TYPES:
        jobs.append(('powloop', T, tmo))
    for nl in (2, 4):
        jobs.append(('divsmall', nl, tmo))
    for T in TYPES:
        nd = 2 if tier_ == 'quick' else 4
        jobs.append(('tostr', T, nd, False, tmo))
        if TYPES[T][1]:
            jobs.append(('tostr', T, nd, True, tmo))
    digs = {'quick': {'u128': [1, 4], 'i128': [3], 'u256': [2], 'i256': [3]},
            'thorough': {'u128': [1, 3, 5], 'i128': [3, 5], 'u256': [2, 5], 'i256': [3, 5]}}[tier_]   # 8 digits: solver unknown at the cap
    for T, ls in digs.items():
        for n in ls:
            jobs.append(('fromstr', T, n, False, tmo))
            if TYPES[T][1]:
                jobs.append(('fromstr', T, n, True, tmo))
    only = os.environ.get('VERIF_ONLY')
    if only:
        import re
        jobs = [j for j in jobs if re.search(only, '/'.join(str(a) for a in j[:-1]))]
    results = runner.pool_map(_job, jobs, procs=int(os.environ.get('VERIF_PROCS', '12')))
    agg = Stats()
    funcs = set()
    replays = 0
    rows = []
    for j, r in zip(jobs, results):
        for k, v in r['stats'].items():
            setattr(agg, k, getattr(agg, k) + v)
        funcs.update(r['funcs'])
        rows.append({'obligation': r['ob'], 'status': r['status'], 'paths': r['paths'], 'solver_s': r['stats']['solver_s'], 'wall_s': r['wall_s']})
        if r['status'] == 'held':
            continue
        if r['status'] in ('unknown', 'inconclusive'):
            rep.inconc(r['ob'], (r['detail'] or {}).get('what', 'solver unknown / timeout'))
            continue
        d = r['detail'] or {}
        rp = d.get('replay')
        if rp is not None:
            replays += 1
            if not rp.get('reproduced'):
                rep.inconc(r['ob'], 'counterexample did not reproduce natively: %s' % rp)
                continue
        rep.violation(r['ob'], 'runtime result differs from the mathematical value mod 2^N: %s' % d, kind='mismatch', replay=d)
    rep.samples = rows[:3] + [x for x in rows if x['obligation'].startswith('fromstr')][:2]
    cov = {'states': max(agg.paths, 1), 'transitions': max(agg.queries, 1), 'traces_validated_against_impl': replays,
           'obligations': len(jobs), 'obligations_held': sum(1 for r in results if r['status'] == 'held'), 'obligation_table': rows,
           'functions_encoded': sorted(funcs), 'llvm_instructions_executed': agg.instrs, 'queries': agg.queries, 'queries_unsat': agg.unsat,
           'queries_sat': agg.sat, 'queries_unknown': agg.unknown, 'solver_s': round(agg.solver_s, 2),
           'bounds': 'all limb values (2^128 / 2^256 operand spaces) for add sub and or xor not eq lt gt from/to 64; mul for 128-bit types; mul by schoolbook identity over uninterpreted 64x64->128 products (range-constrained); decimal from_string for the digit counts listed in obligation_table (every digit symbolic) plus ONE INDUCTIVE STEP of the accumulation (ferret_mul_add_small from an arbitrary limb state, bases 10/16/8/2), which covers texts of any length given that parse_uint only iterates that step; div/mod: INIT / STEP / EXIT obligations on the real shift-subtract loop of ferret_div_mod_u_limbs (one iteration from an arbitrary state satisfying rem < denom and rem <= numer >> (bit+1), bit symbolic in [0,N)), for 2 and 4 limbs, over contracts for is_zero / cmp_u / sub / negate that are discharged by their own obligations, plus the eight div/mod entry points over the contract of the divider (signed = SMT-LIB bvsdiv/bvsrem definition); 256-bit pow: INIT / STEP / EXIT on the real square-and-multiply loop over the contract of the type\'s multiply (one iteration from an arbitrary (result, base, e != 0)); integer -> decimal text: ferret_<T>_to_string_ptr on every value of at most 2 (4 thorough) decimal digits incl. negative ones (text compared byte by byte, NUL included, object size respected) + one step of the digit extraction (ferret_div_small_limbs, divisor 10) from an arbitrary limb state for 2 and 4 limbs, with 128-bit udiv / urem encoded by the division identity a = q*b + r, r < b at double width; pow for all four types: bit-vector multiply first, uninterpreted commutative multiply if the solver does not finish; limb loops fully unrolled',
           'explanation': 'The clang -O0 LLVM IR of runtime/core/bigint.c is executed symbolically from the *_ptr entry points the compiler calls, operands are regions of symbolic 64-bit limbs, and z3 decides equality with bit-vector arithmetic at width N. Counterexamples are replayed through a C driver built with ASan/UBSan.',
           'not_covered': 'to_string for values with more decimal digits than the bound in obligation_table (2 quick / 4 thorough): covered only through the one-step obligation on ferret_div_small_limbs from an arbitrary limb state (val = 10*quot + rem, rem < 10) that the digit loop iterates; pow: the textbook induction (result * base^e invariant) is a paper argument; division by zero (excluded by assume: the wrappers return 0); the textbook induction that turns INIT/STEP/EXIT into quot = numer div denom is a paper argument; 256-bit mul (solver unknown at the 600 s cap, not registered) and the 256-bit signed multiply wrapper; the 128-bit signed wrapper is decided in the thorough tier only, shifts (no *_ptr entry point), whole-function hex/octal/binary from_string (their accumulation step is covered)'}
    sys.exit(rep.finish(cov, ['clang-14 front end: -O0 IR is the source statement by statement; optimiser/code generator of the C compiler that builds libferret_runtime.a are trusted',
                              'LLVM semantics in lirsym/llvm.py (nsw/nuw ignored = wrapping); libc summaries malloc/free/memcpy/memset/strlen',
                              'z3 bit-vector theory; per-obligation timeout, unknown = inconclusive']))


if __name__ == '__main__':
    main()
