import sys, os, time
sys.path.insert(0, os.path.dirname(os.path.dirname(os.path.abspath(__file__))))
import z3
from lirsym import llvm
from lirsym.core import Solver, Stats, Inconclusive, bv
from vlib import cir, runner, build

TYPES = {'i128': (2, True), 'u128': (2, False), 'i256': (4, True), 'u256': (4, False)}


class Ctx:
    def __init__(self):
        self.mod = llvm.parse(cir.runtime_ir('core/bigint.c'))
        self.stats = Stats()
        self.funcs = set()


def mk_exec(cx, timeout_ms, unroll=600):
    solver = Solver(timeout_ms=timeout_ms, stats=cx.stats)
    ex = llvm.Executor(cx.mod, llvm.LIBC, solver=solver, unroll=unroll)
    return ex, solver


def put(st, name, limbs):
    r = st.mem.alloc(8 * len(limbs), name=name, kind='heap')
    for i, l in enumerate(limbs):
        st.mem.store(st, st.mem.ptr(r, 8 * i), l, 8)
    return r


def val(limbs):
    return z3.Concat(*reversed(limbs)) if len(limbs) > 1 else limbs[0]


def model_ints(m, xs):
    return [m.eval(x, model_completion=True).as_long() for x in xs]


def to_signed(v, bits):
    return v - (1 << bits) if v >> (bits - 1) else v


# ------------------------------------------------------------------------------------------------ obligations
def ob_binary(cx, T, op, timeout_ms):
    nl, signed = TYPES[T]
    ex, solver = mk_exec(cx, timeout_ms)
    ex.uf_mul = (op == 'mul')
    st = ex.new_state()
    A = [z3.BitVec('a%d' % i, 64) for i in range(nl)]
    B = [z3.BitVec('b%d' % i, 64) for i in range(nl)]
    ra, rb = put(st, 'a', A), put(st, 'b', B)
    ro = st.mem.alloc(8 * nl, name='out', kind='heap')
    outs = ex.run('@ferret_%s_%s_ptr' % (T, op), [st.mem.ptr(ra), st.mem.ptr(rb), st.mem.ptr(ro)], st=st)
    cx.funcs |= ex.encoded
    a, b = val(A), val(B)
    bits = 64 * nl
    extra = []
    if op == 'mul':
        # schoolbook product over the same uninterpreted 64x64->128 products the implementation uses; every product
        # term is constrained to the range of a real product, (2^64-1)^2
        spec_terms = []

        def limbs_of(x):
            return [z3.Extract(64 * i + 63, 64 * i, x) for i in range(nl)]

        def product(X, Y):
            acc = bv(0, bits)
            for i in range(nl):
                for j in range(nl - i):
                    p = llvm.UMUL64(X[i], Y[j])
                    spec_terms.append(p)
                    pe = z3.ZeroExt(bits - 128, p) if bits > 128 else p
                    acc = acc + (pe << (64 * (i + j)))
            return acc
        if signed:
            na, nb = a < 0, b < 0
            absa, absb = z3.If(na, -a, a), z3.If(nb, -b, b)
            P = product(limbs_of(absa), limbs_of(absb))
            ref = z3.If(na != nb, -P, P)
        else:
            ref = product(A, B)
        lim = bv((2**64 - 1) ** 2, 128)
        extra = [z3.ULE(p, lim) for p in spec_terms]
    else:
        ref = {'add': a + b, 'sub': a - b, 'and': a & b, 'or': a | b, 'xor': a ^ b}[op]
    pyop = {'add': lambda x, y: x + y, 'sub': lambda x, y: x - y, 'and': lambda x, y: x & y, 'or': lambda x, y: x | y, 'xor': lambda x, y: x ^ y, 'mul': lambda x, y: x * y}[op]
    for o in outs:
        if o.kind != 'ret':
            return 'violation', {'what': 'path ends with %s: %s' % (o.kind, o.detail)}, len(outs)
        out = o.mem.load(o.state, o.mem.ptr(ro), 8 * nl)
        if op == 'mul':
            lim = bv((2**64 - 1) ** 2, 128)
            extra = extra + [z3.ULE(p, lim) for p in ex.uf_terms]
        r, m = solver.check(list(o.pc) + extra + [out != ref])
        if r == 'unknown':
            return 'unknown', None, len(outs)
        if r == 'sat':
            av, bvv = model_ints(m, A), model_ints(m, B)
            x = sum(v << (64 * i) for i, v in enumerate(av))
            y = sum(v << (64 * i) for i, v in enumerate(bvv))
            if signed and op == 'mul':
                x, y = to_signed(x, bits), to_signed(y, bits)
            exp = pyop(x, y) % (1 << bits)
            return 'violation', {'a': av, 'b': bvv, 'expected': exp, 'replay': replay_binary(T, op, av, bvv, exp)}, len(outs)
    return 'held', None, len(outs)


def ob_signed_mul(cx, T, timeout_ms):
    """signed multiply wrapper over an abstract unsigned multiplier (contract of ferret_mul_limbs, discharged by the
    unsigned mul obligations): result = +-MUL(|a|, |b|) with the sign of a xor b."""
    nl, signed = TYPES[T]
    bits = 64 * nl
    MUL = z3.Function('mul_limbs_%d' % bits, z3.BitVecSort(bits), z3.BitVecSort(bits), z3.BitVecSort(bits))
    ex, solver = mk_exec(cx, timeout_ms)

    def mul_contract(ex_, st_, a_, work_):
        n = a_[3]
        x = st_.mem.load(st_, a_[0], 8 * nl)
        y = st_.mem.load(st_, a_[1], 8 * nl)
        st_.mem.store(st_, a_[2], MUL(x, y), 8 * nl)
        return None
    ex.overrides['@ferret_mul_limbs'] = mul_contract
    st = ex.new_state()
    A = [z3.BitVec('a%d' % i, 64) for i in range(nl)]
    B = [z3.BitVec('b%d' % i, 64) for i in range(nl)]
    ra, rb = put(st, 'a', A), put(st, 'b', B)
    ro = st.mem.alloc(8 * nl, name='out', kind='heap')
    outs = ex.run('@ferret_%s_mul_ptr' % T, [st.mem.ptr(ra), st.mem.ptr(rb), st.mem.ptr(ro)], st=st)
    cx.funcs |= ex.encoded
    a, b = val(A), val(B)
    na, nb = a < 0, b < 0
    P = MUL(z3.If(na, -a, a), z3.If(nb, -b, b))
    ref = z3.If(na != nb, -P, P)
    for o in outs:
        if o.kind != 'ret':
            return 'violation', {'what': 'path ends with %s: %s' % (o.kind, o.detail)}, len(outs)
        out = o.mem.load(o.state, o.mem.ptr(ro), 8 * nl)
        r, m = solver.check(list(o.pc) + [out != ref])
        if r == 'unknown':
            return 'unknown', None, len(outs)
        if r == 'sat':
            return 'violation', {'a': model_ints(m, A), 'b': model_ints(m, B), 'what': 'sign handling of the signed multiply wrapper'}, len(outs)
    return 'held', None, len(outs)


def ob_compare(cx, T, op, timeout_ms):
    nl, signed = TYPES[T]
    ex, solver = mk_exec(cx, timeout_ms)
    st = ex.new_state()
    A = [z3.BitVec('a%d' % i, 64) for i in range(nl)]
    B = [z3.BitVec('b%d' % i, 64) for i in range(nl)]
    ra, rb = put(st, 'a', A), put(st, 'b', B)
    outs = ex.run('@ferret_%s_%s_ptr' % (T, op), [st.mem.ptr(ra), st.mem.ptr(rb)], st=st)
    cx.funcs |= ex.encoded
    a, b = val(A), val(B)
    if op == 'eq':
        ref = a == b
    elif op == 'lt':
        ref = (a < b) if signed else z3.ULT(a, b)
    else:
        ref = (a > b) if signed else z3.UGT(a, b)
    for o in outs:
        if o.kind != 'ret' or o.ret is None:
            return 'violation', {'what': 'path ends with %s: %s' % (o.kind, o.detail)}, len(outs)
        got = z3.Extract(0, 0, o.ret) == bv(1, 1)
        r, m = solver.check(list(o.pc) + [got != ref])
        if r == 'unknown':
            return 'unknown', None, len(outs)
        if r == 'sat':
            av, bvv = model_ints(m, A), model_ints(m, B)
            x = sum(v << (64 * i) for i, v in enumerate(av))
            y = sum(v << (64 * i) for i, v in enumerate(bvv))
            if signed:
                x, y = to_signed(x, 64 * nl), to_signed(y, 64 * nl)
            exp = {'eq': x == y, 'lt': x < y, 'gt': x > y}[op]
            return 'violation', {'a': av, 'b': bvv, 'expected': int(exp), 'replay': replay_compare(T, op, av, bvv, int(exp))}, len(outs)
    return 'held', None, len(outs)


def ob_from64(cx, T, src, timeout_ms):
    nl, signed = TYPES[T]
    ex, solver = mk_exec(cx, timeout_ms)
    st = ex.new_state()
    x = z3.BitVec('x', 64)
    ro = st.mem.alloc(8 * nl, name='out', kind='heap')
    outs = ex.run('@ferret_%s_from_%s_ptr' % (T, src), [x, st.mem.ptr(ro)], st=st)
    cx.funcs |= ex.encoded
    bits = 64 * nl
    ref = z3.SignExt(bits - 64, x) if src == 'i64' else z3.ZeroExt(bits - 64, x)
    for o in outs:
        if o.kind != 'ret':
            return 'violation', {'what': 'path ends with %s: %s' % (o.kind, o.detail)}, len(outs)
        out = o.mem.load(o.state, o.mem.ptr(ro), 8 * nl)
        r, m = solver.check(list(o.pc) + [out != ref])
        if r == 'unknown':
            return 'unknown', None, len(outs)
        if r == 'sat':
            return 'violation', {'x': model_ints(m, [x])}, len(outs)
    return 'held', None, len(outs)


def ob_to64(cx, T, dst, timeout_ms):
    nl, signed = TYPES[T]
    ex, solver = mk_exec(cx, timeout_ms)
    st = ex.new_state()
    A = [z3.BitVec('a%d' % i, 64) for i in range(nl)]
    ra = put(st, 'a', A)
    outs = ex.run('@ferret_%s_to_%s_ptr' % (T, dst), [st.mem.ptr(ra)], st=st)
    cx.funcs |= ex.encoded
    for o in outs:
        if o.kind != 'ret' or o.ret is None:
            return 'violation', {'what': 'path ends with %s: %s' % (o.kind, o.detail)}, len(outs)
        r, m = solver.check(list(o.pc) + [o.ret != A[0]])
        if r == 'unknown':
            return 'unknown', None, len(outs)
        if r == 'sat':
            return 'violation', {'a': model_ints(m, A)}, len(outs)
    return 'held', None, len(outs)


def ob_not(cx, T, timeout_ms):
    nl, signed = TYPES[T]
    ex, solver = mk_exec(cx, timeout_ms)
    st = ex.new_state()
    A = [z3.BitVec('a%d' % i, 64) for i in range(nl)]
    ra = put(st, 'a', A)
    ro = st.mem.alloc(8 * nl, name='out', kind='heap')
    outs = ex.run('@ferret_%s_not_ptr' % T, [st.mem.ptr(ra), st.mem.ptr(ro)], st=st)
    cx.funcs |= ex.encoded
    for o in outs:
        if o.kind != 'ret':
            return 'violation', {'what': 'path ends with %s: %s' % (o.kind, o.detail)}, len(outs)
        out = o.mem.load(o.state, o.mem.ptr(ro), 8 * nl)
        r, m = solver.check(list(o.pc) + [out != ~val(A)])
        if r == 'unknown':
            return 'unknown', None, len(outs)
        if r == 'sat':
            return 'violation', {'a': model_ints(m, A)}, len(outs)
    return 'held', None, len(outs)


def ob_from_string(cx, T, ndig, neg, timeout_ms):
    """decimal text of ndig symbolic digits (optionally negated) -> limbs = value mod 2^N."""
    nl, signed = TYPES[T]
    ex, solver = mk_exec(cx, timeout_ms, unroll=ndig + 8)
    st = ex.new_state()
    D = [z3.BitVec('d%d' % i, 8) for i in range(ndig)]
    text = ([bv(ord('-'), 8)] if neg else []) + D + [bv(0, 8)]
    rs = st.mem.alloc(len(text), name='text', kind='heap', init=text)
    ro = st.mem.alloc(8 * nl, name='out', kind='heap')
    pre = z3.And(*[z3.And(z3.UGE(d, bv(ord('0'), 8)), z3.ULE(d, bv(ord('9'), 8))) for d in D])
    # no leading "0x"/"0b"/"0o" prefix possible with decimal digits only; a leading 0 followed by digits stays decimal
    outs = ex.run('@ferret_%s_from_string_ptr' % T, [st.mem.ptr(rs), st.mem.ptr(ro)], pre=pre, st=st)
    cx.funcs |= ex.encoded
    bits = 64 * nl
    acc = bv(0, bits)
    for d in D:
        acc = acc * bv(10, bits) + z3.ZeroExt(bits - 8, d - bv(ord('0'), 8))
    ref = -acc if neg else acc
    for o in outs:
        if o.kind != 'ret':
            return 'violation', {'what': 'path ends with %s: %s' % (o.kind, o.detail)}, len(outs)
        out = o.mem.load(o.state, o.mem.ptr(ro), 8 * nl)
        r, m = solver.check(list(o.pc) + [out != ref])
        if r == 'unknown':
            return 'unknown', None, len(outs)
        if r == 'sat':
            ds = ''.join(chr(v) for v in model_ints(m, D))
            s = ('-' if neg else '') + ds
            exp = int(s) % (1 << bits)
            return 'violation', {'text': s, 'expected': exp, 'replay': replay_from_string(T, s, exp)}, len(outs)
    return 'held', None, len(outs)


def ob_mul_add_small(cx, nl, base, timeout_ms):
    """one step of the text->integer accumulation from an arbitrary state: v := v*base + digit (mod 2^(64 nl))."""
    ex, solver = mk_exec(cx, timeout_ms)
    st = ex.new_state()
    V = [z3.BitVec('v%d' % i, 64) for i in range(nl)]
    d = z3.BitVec('digit', 32)
    rv = put(st, 'v', V)
    pre = z3.ULT(d, bv(base, 32))
    outs = ex.run('@ferret_mul_add_small', [st.mem.ptr(rv), bv(nl, 32), bv(base, 32), d], pre=pre, st=st)
    cx.funcs |= ex.encoded
    bits = 64 * nl
    ref = val(V) * bv(base, bits) + z3.ZeroExt(bits - 32, d)
    for o in outs:
        if o.kind != 'ret':
            return 'violation', {'what': 'path ends with %s: %s' % (o.kind, o.detail)}, len(outs)
        out = o.mem.load(o.state, o.mem.ptr(rv), 8 * nl)
        r, m = solver.check(list(o.pc) + [out != ref])
        if r == 'unknown':
            return 'unknown', None, len(outs)
        if r == 'sat':
            vv = model_ints(m, V)
            dv = model_ints(m, [d])[0]
            x = sum(v << (64 * i) for i, v in enumerate(vv))
            exp = (x * base + dv) % (1 << bits)
            return 'violation', {'v': vv, 'digit': dv, 'base': base, 'expected': exp, 'replay': replay_mul_add_small(nl, vv, base, dv, exp)}, len(outs)
    return 'held', None, len(outs)


# ------------------------------------------------------------------------------------------------ native replays
def replay_mul_add_small(nl, v, base, digit, exp):
    body = '''#include <stdio.h>
#include "../core/bigint.c"
int main(void) { ferret_limb_t v[%(nl)d] = %(v)s; ferret_mul_add_small(v, %(nl)d, %(base)du, %(digit)du);
  for (int i = %(nl)d - 1; i >= 0; i--) printf("%%016llx", (unsigned long long)v[i]); printf("\\n"); return 0; }''' % {'nl': nl, 'v': _limbs_c(v), 'base': base, 'digit': digit}
    rc, so, se = cir.run_c_driver('mas', body, [])
    want = '%0*x' % (16 * nl, exp)
    return {'native': so.strip(), 'expected': want, 'reproduced': rc == 0 and so.strip() != want, 'rc': rc, 'stderr': se[-300:]}



def _limbs_c(vals):
    return '{' + ', '.join('0x%xULL' % v for v in vals) + '}'


def replay_binary(T, op, a, b, exp):
    nl = TYPES[T][0]
    body = '''#include <stdio.h>
#include "bigint.h"
int main(void) { ferret_%(T)s a = {%(a)s}, b = {%(b)s}, out; ferret_%(T)s_%(op)s_ptr(&a, &b, &out);
  for (int i = %(nl)d - 1; i >= 0; i--) printf("%%016llx", (unsigned long long)out.words[i]); printf("\\n"); return 0; }''' % {'T': T, 'op': op, 'a': _limbs_c(a), 'b': _limbs_c(b), 'nl': nl}
    rc, so, se = cir.run_c_driver('bin', body, ['core/bigint.c'])
    got = so.strip()
    want = '%0*x' % (16 * nl, exp)
    return {'native': got, 'expected': want, 'reproduced': rc == 0 and got != want, 'rc': rc, 'stderr': se[-300:]}


def replay_compare(T, op, a, b, exp):
    body = '''#include <stdio.h>
#include "bigint.h"
int main(void) { ferret_%(T)s a = {%(a)s}, b = {%(b)s}; printf("%%d\\n", (int)ferret_%(T)s_%(op)s_ptr(&a, &b)); return 0; }''' % {'T': T, 'op': op, 'a': _limbs_c(a), 'b': _limbs_c(b)}
    rc, so, se = cir.run_c_driver('cmp', body, ['core/bigint.c'])
    return {'native': so.strip(), 'expected': str(exp), 'reproduced': rc == 0 and so.strip() != str(exp), 'rc': rc, 'stderr': se[-300:]}


def replay_from_string(T, s, exp):
    nl = TYPES[T][0]
    body = '''#include <stdio.h>
#include "bigint.h"
int main(void) { ferret_%(T)s out; ferret_%(T)s_from_string_ptr("%(s)s", &out);
  for (int i = %(nl)d - 1; i >= 0; i--) printf("%%016llx", (unsigned long long)out.words[i]); printf("\\n"); return 0; }''' % {'T': T, 's': s, 'nl': nl}
    rc, so, se = cir.run_c_driver('fs', body, ['core/bigint.c'])
    want = '%0*x' % (16 * nl, exp)
    return {'native': so.strip(), 'expected': want, 'reproduced': rc == 0 and so.strip() != want, 'rc': rc, 'stderr': se[-300:]}


def _job(args):
    """one obligation in a worker process"""
    kind = args[0]
    cx = _CX
    cx.stats = Stats()
    cx.funcs = set()
    t0 = time.time()
    try:
        if kind == 'bin':
            r = ob_binary(cx, args[1], args[2], args[3])
        elif kind == 'cmp':
            r = ob_compare(cx, args[1], args[2], args[3])
        elif kind == 'from64':
            r = ob_from64(cx, args[1], args[2], args[3])
        elif kind == 'to64':
            r = ob_to64(cx, args[1], args[2], args[3])
        elif kind == 'not':
            r = ob_not(cx, args[1], args[2])
        elif kind == 'smul':
            r = ob_signed_mul(cx, args[1], args[2])
        elif kind == 'mas':
            r = ob_mul_add_small(cx, args[1], args[2], args[3])
        elif kind == 'fromstr':
            r = ob_from_string(cx, args[1], args[2], args[3], args[4])
        else:
            raise ValueError(kind)
        status, detail, paths = r
    except Inconclusive as e:
        status, detail, paths = 'inconclusive', {'what': str(e)}, 0
    except Exception as e:
        import traceback
        status, detail, paths = 'inconclusive', {'what': 'internal: %s %s' % (e, traceback.format_exc()[-600:])}, 0
    return {'ob': '/'.join(str(a) for a in args[:-1]), 'status': status, 'detail': detail, 'paths': paths, 'stats': cx.stats.as_dict(),
            'funcs': sorted(cx.funcs), 'wall_s': round(time.time() - t0, 2)}


_CX = None


def main():
    global _CX
    tier_ = runner.tier()
    rep = runner.Report('C16', 'model_checking', tier_)
    try:
        _CX = Ctx()
    except Exception as e:
        rep.inconc('build', str(e))
        sys.exit(rep.finish({'explanation': 'IR build failed', 'states': 1, 'transitions': 1, 'traces_validated_against_impl': 0, 'samples': [{'note': 'build failed'}]}, []))
    tmo = 60000 if tier_ == 'quick' else 600000
    jobs = []
    for T in TYPES:
        for op in ('add', 'sub', 'and', 'or', 'xor'):
            jobs.append(('bin', T, op, tmo))
        for op in ('eq', 'lt', 'gt'):
            jobs.append(('cmp', T, op, tmo))
        jobs.append(('from64', T, 'i64' if TYPES[T][1] else 'u64', tmo))
        jobs.append(('to64', T, 'i64' if TYPES[T][1] else 'u64', tmo))
        if ('@ferret_%s_not_ptr' % T) in _CX.mod.funcs:
            jobs.append(('not', T, tmo))
    jobs.append(('bin', 'u128', 'mul', tmo))
    if tier_ != 'quick':
        jobs.append(('bin', 'u256', 'mul', tmo))
    if tier_ != 'quick':
        jobs.append(('smul', 'i128', tmo))
    for nl in (2, 4):
        for base in (10, 16, 8, 2):
            jobs.append(('mas', nl, base, tmo))
    digs = {'quick': {'u128': [1, 4], 'i128': [3], 'u256': [2], 'i256': [3]},
            'thorough': {'u128': [1, 5, 8], 'i128': [3, 8], 'u256': [2, 8], 'i256': [3, 8]}}[tier_]
    for T, ls in digs.items():
        for n in ls:
            jobs.append(('fromstr', T, n, False, tmo))
            if TYPES[T][1]:
                jobs.append(('fromstr', T, n, True, tmo))
    only = os.environ.get('VERIF_ONLY')
    if only:
        import re
        jobs = [j for j in jobs if re.search(only, '/'.join(str(a) for a in j[:-1]))]
    results = runner.pool_map(_job, jobs, procs=int(os.environ.get('VERIF_PROCS', '12')))
    agg = Stats()
    funcs = set()
    replays = 0
    rows = []
    for j, r in zip(jobs, results):
        for k, v in r['stats'].items():
            setattr(agg, k, getattr(agg, k) + v)
        funcs.update(r['funcs'])
        rows.append({'obligation': r['ob'], 'status': r['status'], 'paths': r['paths'], 'solver_s': r['stats']['solver_s'], 'wall_s': r['wall_s']})
        if r['status'] == 'held':
            continue
        if r['status'] in ('unknown', 'inconclusive'):
            rep.inconc(r['ob'], (r['detail'] or {}).get('what', 'solver unknown / timeout'))
            continue
        d = r['detail'] or {}
        rp = d.get('replay')
        if rp is not None:
            replays += 1
            if not rp.get('reproduced'):
                rep.inconc(r['ob'], 'counterexample did not reproduce natively: %s' % rp)
                continue
        rep.violation(r['ob'], 'runtime result differs from the mathematical value mod 2^N: %s' % d, kind='mismatch', replay=d)
    rep.samples = rows[:3] + [x for x in rows if x['obligation'].startswith('fromstr')][:2]
    cov = {'states': max(agg.paths, 1), 'transitions': max(agg.queries, 1), 'traces_validated_against_impl': replays,
           'obligations': len(jobs), 'obligations_held': sum(1 for r in results if r['status'] == 'held'), 'obligation_table': rows,
           'functions_encoded': sorted(funcs), 'llvm_instructions_executed': agg.instrs, 'queries': agg.queries, 'queries_unsat': agg.unsat,
           'queries_sat': agg.sat, 'queries_unknown': agg.unknown, 'solver_s': round(agg.solver_s, 2),
           'bounds': 'all limb values (2^128 / 2^256 operand spaces) for add sub and or xor not eq lt gt from/to 64; mul for 128-bit types; mul by schoolbook identity over uninterpreted 64x64->128 products (range-constrained); decimal from_string for the digit counts listed in obligation_table (every digit symbolic) plus ONE INDUCTIVE STEP of the accumulation (ferret_mul_add_small from an arbitrary limb state, bases 10/16/8/2), which covers texts of any length given that parse_uint only iterates that step; limb loops fully unrolled',
           'explanation': 'The clang -O0 LLVM IR of runtime/core/bigint.c is executed symbolically from the *_ptr entry points the compiler calls, operands are regions of symbolic 64-bit limbs, and z3 decides equality with bit-vector arithmetic at width N. Counterexamples are replayed through a C driver built with ASan/UBSan.',
           'not_covered': 'div/mod/pow/to_string (bit loops need an inductive invariant, not built), 256-bit mul and the signed multiply wrappers (solver unknown within the cap; attempted only in the thorough tier), shifts (no *_ptr entry point), whole-function hex/octal/binary from_string (their accumulation step is covered)'}
    sys.exit(rep.finish(cov, ['clang-14 front end: -O0 IR is the source statement by statement; optimiser/code generator of the C compiler that builds libferret_runtime.a are trusted',
                              'LLVM semantics in lirsym/llvm.py (nsw/nuw ignored = wrapping); libc summaries malloc/free/memcpy/memset/strlen',
                              'z3 bit-vector theory; per-obligation timeout, unknown = inconclusive']))


if __name__ == '__main__':
    main()
