import sys, os
sys.path.insert(0, os.path.dirname(os.path.dirname(os.path.abspath(__file__))))
from vlib import gocheck

def main():
    groups = [dict(pkg='compiler/internal/semantics/typechecker', rel='internal/semantics/typechecker', harnesses=['HarnessC11', 'HarnessC11Exact64'])]
    groups += [dict(pkg='compiler/internal/verifrt/fe', rel='internal/verifrt/fe', harnesses=['HarnessC11Positions%d' % k], max_paths=100000) for k in range(4)]
    rc = gocheck.run('C11', 'model_checking', groups, gocheck.GOSYM_ASSUME + [
        'float formats: f32/f64 IEEE binary32/64 (p=24/53), f128 binary128 (p=113), f256 = 1+19+236 (p=237) as documented in runtime/core/bigint.h',
        'front-end harness: the position list is the finite set named in the explanation; lossless-ness of a pair is decided by range / significand-width arithmetic in the harness (an oracle independent of the compiler table)',
        'paper argument for the int->float witness family: odd integers >= 2^p+1 are not representable with p significand bits, all |v| <= 2^p are',
    ], 'checkTypeCompatibility/isImplicitlyCompatible are executed symbolically for every ordered pair of the 17 numeric types (pair = symbolic choice, all 289 explored); for each implicit pair the solver decides whether a value of the source type exists that the target type cannot represent (integer ranges as SMT Int, significand witness family, bit-precise 64-bit cross-check). FRONT END (HarnessC11Positions0-3): for every ordered pair of the 17 numeric types and each of 12 assignment-like positions (let initialiser, assignment, call argument, return, ok- and error-side return of a result function, struct-literal field, array-literal element, optional target, field assignment through a reference, function-literal argument/return, assignment inside a match arm) the real lexer, parser, collector, resolver and type checker run on the program inside the symbolic interpreter; a program moving S into T without a cast may be accepted only if every value of S is representable in T (reference: integer ranges and significand widths).',
        extra_cov={'exhaustive': True, 'pairs': 289})
    sys.exit(rc)

if __name__ == '__main__':
    main()
