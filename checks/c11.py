import sys, os
sys.path.insert(0, os.path.dirname(os.path.dirname(os.path.abspath(__file__))))
from vlib import gocheck

def main():
    groups = [dict(pkg='compiler/internal/semantics/typechecker', rel='internal/semantics/typechecker', harnesses=['HarnessC11', 'HarnessC11Exact64'])]
    rc = gocheck.run('C11', 'model_checking', groups, gocheck.GOSYM_ASSUME + [
        'float formats: f32/f64 IEEE binary32/64 (p=24/53), f128 binary128 (p=113), f256 = 1+19+236 (p=237) as documented in runtime/core/bigint.h',
        'paper argument for the int->float witness family: odd integers >= 2^p+1 are not representable with p significand bits, all |v| <= 2^p are',
    ], 'checkTypeCompatibility/isImplicitlyCompatible are executed symbolically for every ordered pair of the 17 numeric types (pair = symbolic choice, all 289 explored); for each implicit pair the solver decides whether a value of the source type exists that the target type cannot represent (integer ranges as SMT Int, significand witness family, bit-precise 64-bit cross-check).',
        extra_cov={'exhaustive': True, 'pairs': 289})
    sys.exit(rc)

if __name__ == '__main__':
    main()
