import sys, os, time
sys.path.insert(0, os.path.dirname(os.path.dirname(os.path.abspath(__file__))))
import z3
from lirsym import llvm
from lirsym.core import Solver, Stats, Inconclusive, PathEnd, bv, conc_val
from vlib import cir, runner

MEM_KINDS = ('oob', 'uaf', 'unreachable', 'trap', 'abort', 'bound')


def mk(mod, stats, tmo, unroll=80):
    solver = Solver(timeout_ms=tmo, stats=stats)
    return llvm.Executor(mod, llvm.LIBC, solver=solver, unroll=unroll, max_paths=6000), solver


# ------------------------------------------------------------------------------------------------ arrays: one step
def array_state(ex, st, es, cap, length, tag):
    """an arbitrary valid ferret_array_t: data region of cap*es symbolic bytes, given length/capacity."""
    data = st.mem.alloc(es * cap, name='data', kind='heap', init=[z3.BitVec('%s_d%d' % (tag, i), 8) for i in range(es * cap)])
    hdr = st.mem.alloc(24, name='arr', kind='heap')
    st.mem.store(st, st.mem.ptr(hdr, 0), st.mem.ptr(data), 8)
    st.mem.store(st, st.mem.ptr(hdr, 8), bv(length, 32), 4)
    st.mem.store(st, st.mem.ptr(hdr, 12), bv(cap, 32), 4)
    st.mem.store(st, st.mem.ptr(hdr, 16), bv(es, 64), 8)
    return hdr, data, [data.get(i) for i in range(es * cap)]


def hdr_fields(o, hdr):
    m = o.mem
    s = o.state
    return (m.load(s, m.ptr(hdr, 0), 8), m.load(s, m.ptr(hdr, 8), 4), m.load(s, m.ptr(hdr, 12), 4), m.load(s, m.ptr(hdr, 16), 8))


def ob_array(mod, stats, tmo, es, cap, length, op):
    ex, solver = mk(mod, stats, tmo)
    st = ex.new_state()
    hdr, data, old = array_state(ex, st, es, cap, length, 'a')
    probs = []
    if op == 'append':
        el = st.mem.alloc(es, name='elem', kind='heap', init=[z3.BitVec('e%d' % i, 8) for i in range(es)])
        elem = [el.get(i) for i in range(es)]
        outs = ex.run('@ferret_array_append', [st.mem.ptr(hdr), st.mem.ptr(el)], st=st)
        for o in outs:
            if o.kind != 'ret':
                probs.append('append ends with %s: %s' % (o.kind, o.detail))
                continue
            dp, ln, cp, esz = hdr_fields(o, hdr)
            conds = [z3.Extract(0, 0, o.ret) == bv(1, 1), ln == bv(length + 1, 32), esz == bv(es, 64), z3.UGE(cp, ln)]
            dpc = conc_val(dp)
            if dpc is None:
                probs.append('data pointer became symbolic')
                continue
            for i in range(es * length):
                conds.append(o.mem.load(o.state, bv(dpc + i, 64), 1) == old[i])
            for i in range(es):
                conds.append(o.mem.load(o.state, bv(dpc + es * length + i, 64), 1) == elem[i])
            r, m = solver.check(list(o.pc) + [z3.Not(z3.And(*conds))])
            if r != 'unsat':
                probs.append('append: list abstraction step fails (%s)' % r)
    elif op in ('get', 'set'):
        idx = z3.BitVec('idx', 32)
        inr = z3.And(idx >= 0, idx < bv(length, 32)) if length > 0 else z3.BoolVal(False)
        if op == 'get':
            outs = ex.run('@ferret_array_get', [st.mem.ptr(hdr), idx], st=st)
            for o in outs:
                if o.kind != 'ret':
                    probs.append('get ends with %s: %s' % (o.kind, o.detail))
                    continue
                want = z3.If(inr, st.mem.ptr(data) + z3.ZeroExt(32, idx) * bv(es, 64), bv(0, 64))
                r, m = solver.check(list(o.pc) + [o.ret != want])
                if r != 'unsat':
                    probs.append('get: wrong element address / refusal (%s) idx=%s' % (r, m.eval(idx) if m is not None else '?'))
        else:
            el = st.mem.alloc(es, name='elem', kind='heap', init=[z3.BitVec('e%d' % i, 8) for i in range(es)])
            elem = [el.get(i) for i in range(es)]
            outs = ex.run('@ferret_array_set', [st.mem.ptr(hdr), idx, st.mem.ptr(el)], st=st)
            for o in outs:
                if o.kind != 'ret':
                    probs.append('set ends with %s: %s' % (o.kind, o.detail))
                    continue
                conds = [(z3.Extract(0, 0, o.ret) == bv(1, 1)) == inr]
                for i in range(es * cap):
                    k, j = divmod(i, es)
                    newb = o.mem.load(o.state, o.mem.ptr(data, i), 1)
                    conds.append(newb == z3.If(z3.And(inr, idx == bv(k, 32)), elem[j], old[i]))
                r, m = solver.check(list(o.pc) + [z3.Not(z3.And(*conds))])
                if r != 'unsat':
                    probs.append('set: wrong bytes changed / refusal (%s)' % r)
    elif op == 'len':
        outs = ex.run('@ferret_array_len', [st.mem.ptr(hdr)], st=st)
        for o in outs:
            if o.kind != 'ret' or conc_val(o.ret) != length:
                probs.append('len wrong')
    return probs, len(outs), ex.encoded


# ------------------------------------------------------------------------------------------------ maps: histories
def call(ex, states, fname, argf):
    """run fname on every state in `states` (list of llvm.State); returns list of (state, ret)."""
    out = []
    for st in states:
        fr = llvm.Frame(ex.mod.funcs[fname])
        fn = ex.mod.funcs[fname]
        args = argf(st)
        for (pty, pname, attrs), a in zip(fn.params, args):
            fr.regs[pname] = a
        fr.visits[fr.block] = 1
        st.frames.append(fr)
        ex.encoded.add(fname)
        for o in ex.explore([st]):
            if o.kind != 'ret':
                raise MemErr('%s ends with %s: %s' % (fname, o.kind, o.detail), o)
            out.append((o.state, o.ret))
    return out


class MemErr(Exception):
    def __init__(self, msg, o):
        Exception.__init__(self, msg)
        self.o = o


def _fnv(v, kb):
    h = 2166136261
    for i in range(kb):
        h ^= (v >> (8 * i)) & 0xff
        h = (h * 16777619) & 0xffffffff
    return h


def prefix_keys(keybits, prefix):
    """concrete keys inserted before the symbolic part: an int n = n distinct spread keys; 'chainN' = N distinct keys that
    all land in the same bucket of the initial 16-bucket table (a hash chain of length N)"""
    if isinstance(prefix, int):
        return [1000 + 7 * i for i in range(prefix)]
    if prefix == 'pairs':
        return []
    n = int(prefix[5:])
    kb = keybits // 8
    out = []
    k = 1
    b0 = _fnv(1, kb) % 16
    while len(out) < n:
        if _fnv(k, kb) % 16 == b0:
            out.append(k)
        k += 1
    return out


def ob_map(mod, stats, tmo, keybits, prefix, nsym, scenario):
    """history: `prefix` concrete distinct inserts, then nsym symbolic set(k_i, v_i), then queries with a symbolic key."""
    ex, solver = mk(mod, stats, tmo, unroll=max(64, 2 * (len(prefix_keys(keybits, prefix)) + nsym) + 40))
    kb = keybits // 8
    # the hash is abstracted to an uninterpreted function of the key (any deterministic hash, so every collision
    # pattern is explored); FNV-1a itself is not part of the map's correctness argument
    HASH = z3.Function('hash%d' % keybits, z3.BitVecSort(keybits), z3.BitVecSort(32))

    seen_conc = []

    def fnv(v):
        h = 2166136261
        for i in range(kb):
            h ^= (v >> (8 * i)) & 0xff
            h = (h * 16777619) & 0xffffffff
        return h

    def hash_contract(ex_, st_, a_, work_):
        kv = z3.simplify(st_.mem.load(st_, a_[0], kb))
        if z3.is_bv_value(kv):
            c = kv.as_long()
            if c not in seen_conc:
                seen_conc.append(c)
            return bv(fnv(c), 32)          # FNV-1a as written, evaluated on the concrete key
        h = HASH(kv)
        for c in seen_conc:               # the abstract hash agrees with FNV-1a on the concrete keys of the prefix
            st_.pc.append(z3.Implies(kv == bv(c, keybits), h == bv(fnv(c), 32)))
        return h
    ex.overrides['@ferret_map_hash_i32'] = hash_contract
    ex.overrides['@ferret_map_hash_i64'] = hash_contract
    st = ex.new_state()
    tyname = 'i32' if keybits == 32 else 'i64'
    K = [z3.BitVec('k%d' % i, keybits) for i in range(nsym)]
    V = [z3.BitVec('v%d' % i, 64) for i in range(nsym)]
    if prefix == 'pairs':
        # the map literal path: ferret_map_from_pairs_<ty>(key_size, value_size, keys, values, count) on nsym symbolic
        # pairs whose keys may coincide (a repeated key keeps its last value and counts once)
        def argp(s):
            rk = s.mem.alloc(kb * nsym, name='keys', kind='heap')
            rv = s.mem.alloc(8 * nsym, name='values', kind='heap')
            for i in range(nsym):
                s.mem.store(s, s.mem.ptr(rk, kb * i), K[i], kb)
                s.mem.store(s, s.mem.ptr(rv, 8 * i), V[i], 8)
            return [bv(kb, 64), bv(8, 64), s.mem.ptr(rk), s.mem.ptr(rv), bv(nsym, 64)]
        res = call(ex, [st], '@ferret_map_from_pairs_%s' % tyname, argp)
    else:
        res = call(ex, [st], '@ferret_map_new_%s' % tyname, lambda s: [bv(kb, 64), bv(8, 64)])
    hist = []   # abstract history: list of (key term, value term)
    if prefix == 'pairs':
        # from_pairs may fork (chain walks); every resulting state holds the same abstract map
        mp = res[0][1]
        for s_, r_ in res:
            rr, _ = solver.check(list(s_.pc) + [r_ != mp])
            if rr != 'unsat' or conc_val(r_) == 0:
                raise MemErr('ferret_map_from_pairs returns NULL / different objects on different paths', None)
        pair_states = [s_ for s_, r_ in res]
        hist = list(zip(K, V))
    else:
        (st, mp), = [(s, r) for s, r in res]
        pair_states = None

    def do_set(sts, k, v):
        def argf(s):
            rk = s.mem.alloc(kb, name='k', kind='heap')
            rv = s.mem.alloc(8, name='v', kind='heap')
            s.mem.store(s, s.mem.ptr(rk), k, kb)
            s.mem.store(s, s.mem.ptr(rv), v, 8)
            return [mp, s.mem.ptr(rk), s.mem.ptr(rv)]
        out = call(ex, sts, '@ferret_map_set', argf)
        for s, r in out:
            rr, _ = solver.check(list(s.pc) + [z3.Extract(0, 0, r) != bv(1, 1)])
            if rr != 'unsat':
                raise MemErr('ferret_map_set reports failure', None)
        return [s for s, r in out]
    sts = [st]
    pkeys = prefix_keys(keybits, prefix)
    for i, kc in enumerate(pkeys):
        k, v = bv(kc, keybits), bv(5000 + i, 64)
        sts = do_set(sts, k, v)
        hist.append((k, v))
    if pair_states is not None:
        sts = pair_states
    else:
        for i in range(nsym):
            sts = do_set(sts, K[i], V[i])
            hist.append((K[i], V[i]))
    q = z3.BitVec('q', keybits)
    # abstract map
    present = z3.BoolVal(False)
    value = bv(0, 64)
    for k, v in hist:
        present = z3.Or(present, q == k)
        value = z3.If(q == k, v, value)
    probs = []
    npaths = 0
    if scenario in ('get', 'all'):
        def argq(s):
            rk = s.mem.alloc(kb, name='q', kind='heap')
            s.mem.store(s, s.mem.ptr(rk), q, kb)
            return [mp, s.mem.ptr(rk)]
        out = call(ex, [s.clone() for s in sts], '@ferret_map_get', argq)
        npaths += len(out)
        for s, r in out:
            isnull = r == bv(0, 64)
            rr, m = solver.check(list(s.pc) + [isnull == present])
            if rr != 'unsat':
                probs.append(('get: presence differs from the abstract map (%s)' % rr, m))
                continue
            rr, m = solver.check(list(s.pc) + [present])
            if rr == 'sat':
                got = s.mem.load(s, r, 8)
                rr, m = solver.check(list(s.pc) + [present, got != value])
                if rr != 'unsat':
                    probs.append(('get: value differs from the most recently stored one (%s)' % rr, m))
    if scenario in ('get', 'all'):
        # has(q) and the optional-returning lookup the compiled code uses (value bytes followed by the flag byte)
        def argq2(s):
            rk = s.mem.alloc(kb, name='q', kind='heap')
            s.mem.store(s, s.mem.ptr(rk), q, kb)
            return [mp, s.mem.ptr(rk)]
        out = call(ex, [s.clone() for s in sts], '@ferret_map_has', argq2)
        npaths += len(out)
        for s, r in out:
            rr, m = solver.check(list(s.pc) + [(z3.Extract(0, 0, r) == bv(1, 1)) != present])
            if rr != 'unsat':
                probs.append(('has: differs from the abstract map (%s)' % rr, m))
        for s0 in [s.clone() for s in sts]:
            ro = s0.mem.alloc(9, name='opt', kind='heap')
            for k in range(9):
                s0.mem.store(s0, s0.mem.ptr(ro, k), bv(0xEE, 8), 1)
            rk = s0.mem.alloc(kb, name='q', kind='heap')
            s0.mem.store(s0, s0.mem.ptr(rk), q, kb)
            out = call(ex, [s0], '@ferret_map_get_optional_out', lambda s_: [mp, s_.mem.ptr(rk), s_.mem.ptr(ro)])
            npaths += len(out)
            for s, r in out:
                flag = s.mem.load(s, s.mem.ptr(ro, 8), 1)
                got = s.mem.load(s, s.mem.ptr(ro), 8)
                rr, m = solver.check(list(s.pc) + [z3.Or((flag == bv(1, 8)) != present, z3.And(flag != bv(0, 8), flag != bv(1, 8)), z3.And(present, got != value))])
                if rr != 'unsat':
                    probs.append(('get_optional_out: flag / payload differ from the abstract map (%s)' % rr, m))
    if scenario == 'all':
        # destroy releases every block exactly once (a double free or a free of a non-block ends the path as an error)
        out = call(ex, [s.clone() for s in sts], '@ferret_map_destroy', lambda s: [mp])
        npaths += len(out)
        for s, r in out:
            leaked = [rg for rg in s.mem.regions.values() if rg.kind == 'heap' and rg.alive and rg.name in ('malloc', 'calloc', 'realloc')]
            if leaked:
                probs.append(('destroy leaves %d heap block(s) of the map allocated' % len(leaked), None))
    if scenario in ('size', 'all'):
        out = call(ex, [s.clone() for s in sts], '@ferret_map_size', lambda s: [mp])
        npaths += len(out)
        # number of distinct keys
        keys = [k for k, v in hist]
        distinct = bv(0, 64)
        for i, k in enumerate(keys):
            first = z3.And(*[k != keys[j] for j in range(i)]) if i else z3.BoolVal(True)
            distinct = distinct + z3.If(first, bv(1, 64), bv(0, 64))
        for s, r in out:
            rr, m = solver.check(list(s.pc) + [r != distinct])
            if rr != 'unsat':
                probs.append(('size differs from the number of distinct keys (%s)' % rr, m))
    if scenario in ('iter', 'all'):
        # iterate: every entry exactly once  <=>  visited count == size and every visited key is distinct & present
        for s0 in [s.clone() for s in sts]:
            it = s0.mem.alloc(16, name='iter', kind='heap')
            out = call(ex, [s0], '@ferret_map_iter_begin', lambda s: [mp, s.mem.ptr(it)])
            for s, r in out:
                npaths += 1
                if conc_val(z3.Extract(0, 0, r)) != 1:
                    if len(pkeys) + nsym > 0:
                        probs.append(('iter_begin refuses a non-empty map', None))
                        continue
                    # empty map: the compiled for-in loop ignores the result of iter_begin and calls iter_next on the
                    # iterator as iter_begin left it - that call must answer "no entry" without touching memory it
                    # does not own (the iterator object starts out with arbitrary bytes, as a stack slot does)
                    ko = s.mem.alloc(8, name='ko', kind='heap')
                    vo = s.mem.alloc(8, name='vo', kind='heap')
                    o2 = call(ex, [s], '@ferret_map_iter_next', lambda s_: [mp, s_.mem.ptr(it), s_.mem.ptr(ko), s_.mem.ptr(vo)])
                    for s2, r2 in o2:
                        rr, m = solver.check(list(s2.pc) + [z3.Extract(0, 0, r2) != bv(0, 1)])
                        if rr != 'unsat':
                            probs.append(('iter_next after iter_begin on an EMPTY map reports an entry (%s)' % rr, None))
                    continue
                seen = []
                cur = [s]
                for step in range(len(pkeys) + nsym + 2):
                    nxt = []
                    for sx in cur:
                        ko = sx.mem.alloc(8, name='ko', kind='heap')
                        vo = sx.mem.alloc(8, name='vo', kind='heap')
                        o2 = call(ex, [sx], '@ferret_map_iter_next', lambda s_: [mp, s_.mem.ptr(it), s_.mem.ptr(ko), s_.mem.ptr(vo)])
                        for s2, r2 in o2:
                            ent = s2.mem.load(s2, s2.mem.ptr(it, 8), 8)
                            kp = s2.mem.load(s2, s2.mem.ptr(ko), 8)
                            kv = s2.mem.load(s2, kp, kb)
                            s2.aux = dict(s2.aux)
                            s2.aux['seen'] = list(s2.aux.get('seen', [])) + [kv]
                            if conc_val(ent) == 0:
                                # finished: compare count with the number of distinct keys
                                keys = [k for k, v in hist]
                                distinct = bv(0, 64)
                                for i, k in enumerate(keys):
                                    first = z3.And(*[k != keys[j] for j in range(i)]) if i else z3.BoolVal(True)
                                    distinct = distinct + z3.If(first, bv(1, 64), bv(0, 64))
                                sk = s2.aux['seen']
                                conds = [distinct == bv(len(sk), 64)]
                                for a in range(len(sk)):
                                    for b in range(a):
                                        conds.append(sk[a] != sk[b])
                                    conds.append(z3.Or(*[sk[a] == k for k in keys]))
                                rr, m = solver.check(list(s2.pc) + [z3.Not(z3.And(*conds))])
                                if rr != 'unsat':
                                    probs.append(('iteration does not visit each entry exactly once (%s)' % rr, m))
                            else:
                                nxt.append(s2)
                    cur = nxt
                    if not cur:
                        break
                if cur:
                    probs.append(('iteration does not terminate within size+2 steps', None))
    models = []
    for what, m in probs:
        d = {'what': what}
        if m is not None:
            d['keys'] = [m.eval(k, model_completion=True).as_long() for k in K]
            d['values'] = [m.eval(v, model_completion=True).as_long() for v in V]
            d['query'] = m.eval(q, model_completion=True).as_long()
        models.append(d)
    return models, npaths, ex.encoded


def replay_map(keybits, prefix, d):
    """C driver: same history with the model's keys; prints get/has/size/iteration results; compare with a Python dict."""
    if 'keys' not in d:
        return None
    kt = 'int32_t' if keybits == 32 else 'int64_t'
    hist = [(k, 5000 + i) for i, k in enumerate(prefix_keys(keybits, prefix))] + list(zip(d['keys'], d['values']))
    sets = '\n'.join('  { %s k = (%s)%dULL; int64_t v = (int64_t)%dULL; ferret_map_set(m, &k, &v); }' % (kt, kt, k, v) for k, v in hist)
    mknew = 'ferret_map_t* m = ferret_map_new_%s(%d, 8);' % ('i32' if keybits == 32 else 'i64', keybits // 8)
    if prefix == 'pairs':
        mknew = '%s ks[] = {%s}; int64_t vs[] = {%s}; ferret_map_t* m = ferret_map_from_pairs_%s(%d, 8, ks, vs, %d);' % (
            kt, ', '.join('(%s)%dULL' % (kt, k) for k, v in hist), ', '.join('(int64_t)%dULL' % v for k, v in hist), 'i32' if keybits == 32 else 'i64', keybits // 8, len(hist))
        sets = ''
    body = '''#include <stdio.h>
#include <stdint.h>
#include "map.h"
int main(void) {
  %s
%s
  { %s q = (%s)%dULL; int64_t* p = (int64_t*)ferret_map_get(m, &q); if (p) printf("get %%llu\\n", (unsigned long long)*p); else printf("get absent\\n"); }
  printf("size %%zu\\n", ferret_map_size(m));
  ferret_map_iter_t it; int n = 0; void *k, *v;
  if (ferret_map_iter_begin(m, &it)) { while (it.entry != NULL && n < 1000) { ferret_map_iter_next(m, &it, &k, &v); n++; } }
  printf("iter %%d\\n", n);
  { %s q = (%s)%dULL; printf("has %%d\\n", (int)ferret_map_has(m, &q));
    unsigned char opt[9]; for (int i = 0; i < 9; i++) opt[i] = 0xEE; ferret_map_get_optional_out(m, &q, opt);
    long long pv = 0; for (int i = 7; i >= 0; i--) pv = (pv << 8) | opt[i];
    if (opt[8] == 1) printf("opt 1 %%llu\\n", (unsigned long long)pv); else printf("opt %%d\\n", (int)opt[8]); }
  ferret_map_destroy(m);
  return 0; }''' % (mknew, sets, kt, kt, d['query'], kt, kt, d['query'])
    rc, so, se = cir.run_c_driver('map', body, ['core/map.c'])
    mask = (1 << keybits) - 1
    ref = {}
    for k, v in hist:
        ref[k & mask] = v
    qv = d['query'] & mask
    want = ['get %d' % ref[qv] if qv in ref else 'get absent', 'size %d' % len(ref), 'iter %d' % len(ref), 'has %d' % (1 if qv in ref else 0),
            ('opt 1 %d' % (ref[qv] & ((1 << 64) - 1))) if qv in ref else 'opt 0']
    got = so.strip().split('\n')
    return {'native': got, 'expected': want, 'reproduced': rc != 0 or got != want, 'rc': rc, 'stderr': se[-300:]}


_MODS = {}


def _job(args):
    stats = Stats()
    t0 = time.time()
    kind = args[0]
    try:
        if kind == 'arr':
            probs, paths, enc = ob_array(_MODS['array'], stats, args[-1], *args[1:-1])
            detail = [{'what': p} for p in probs]
        else:
            detail, paths, enc = ob_map(_MODS['map'], stats, args[-1], *args[1:-1])
            for d in detail:
                d['replay'] = replay_map(args[1], args[2], d)
        status = 'violation' if detail else 'held'
    except MemErr as e:
        status, detail, paths, enc = 'violation', [{'what': 'memory-safety / termination obligation: %s' % e}], 0, set()
    except Inconclusive as e:
        status, detail, paths, enc = 'inconclusive', [{'what': str(e)}], 0, set()
    except Exception as e:
        import traceback
        status, detail, paths, enc = 'inconclusive', [{'what': 'internal: %s %s' % (e, traceback.format_exc()[-700:])}], 0, set()
    return {'ob': '/'.join(str(a) for a in args[:-1]), 'status': status, 'detail': detail, 'paths': paths, 'stats': stats.as_dict(), 'funcs': sorted(enc), 'wall_s': round(time.time() - t0, 2)}


def main():
    tier_ = runner.tier()
    rep = runner.Report('C17', 'model_checking', tier_)
    try:
        _MODS['array'] = llvm.parse(cir.runtime_ir('core/array.c'))
        _MODS['map'] = llvm.parse(cir.runtime_ir('core/map.c'))
    except Exception as e:
        rep.inconc('build', str(e))
        sys.exit(rep.finish({'explanation': 'IR build failed', 'states': 1, 'transitions': 1, 'traces_validated_against_impl': 0, 'samples': [{'note': 'build failed'}]}, []))
    tmo = 60000 if tier_ == 'quick' else 300000
    jobs = []
    for es in ((4, 8) if tier_ == 'quick' else (1, 4, 8, 36)):
        for cap in ((4,) if tier_ == 'quick' else (4, 8)):
            for length in range(0, cap + 1):
                for op in ('append', 'get', 'set', 'len'):
                    jobs.append(('arr', es, cap, length, op, tmo))
    jobs.append(('map', 32, 0, 2, 'get', tmo))
    jobs.append(('map', 32, 0, 2, 'size', tmo))
    jobs.append(('map', 32, 0, 1, 'iter', tmo))
    jobs.append(('map', 32, 0, 0, 'iter', tmo))      # for-in over an EMPTY map: iter_begin refuses, the compiled loop calls iter_next anyway
    jobs.append(('map', 32, 12, 1, 'get', tmo))       # the 13th insert crosses the resize threshold with a symbolic key in flight
    jobs.append(('map', 32, 12, 1, 'size', tmo))
    jobs.append(('map', 64, 0, 1, 'all', tmo))
    jobs.append(('map', 32, 'pairs', 2, 'all', tmo))    # map literal: from_pairs on two symbolic pairs (keys may coincide)
    jobs.append(('map', 32, 'chain3', 1, 'all', tmo))  # one symbolic set (insert or overwrite at any chain position) on a bucket holding a chain of three
    if tier_ != 'quick':
        jobs.append(('map', 32, 'chain4', 1, 'all', tmo))
        jobs.append(('map', 32, 'pairs', 3, 'all', tmo))
        jobs.append(('map', 64, 'pairs', 2, 'all', tmo))
        jobs.append(('map', 64, 'chain3', 2, 'get', tmo))
        jobs.append(('map', 32, 0, 3, 'all', tmo))
        jobs.append(('map', 64, 12, 1, 'all', tmo))
        jobs.append(('map', 32, 24, 1, 'get', tmo))
    only = os.environ.get('VERIF_ONLY')
    if only:
        import re
        jobs = [j for j in jobs if re.search(only, '/'.join(str(a) for a in j[:-1]))]
    results = runner.pool_map(_job, jobs, procs=int(os.environ.get('VERIF_PROCS', '12')))
    agg = Stats()
    funcs = set()
    rows = []
    replays = 0
    for r in results:
        for k, v in r['stats'].items():
            setattr(agg, k, getattr(agg, k) + v)
        funcs.update(r['funcs'])
        rows.append({'obligation': r['ob'], 'status': r['status'], 'paths': r['paths'], 'solver_s': r['stats']['solver_s'], 'wall_s': r['wall_s']})
        if r['status'] == 'held':
            continue
        if r['status'] == 'inconclusive':
            rep.inconc(r['ob'], r['detail'][0]['what'])
            continue
        for d in r['detail'][:3]:
            rp = d.get('replay')
            if rp is not None:
                replays += 1
                if not rp['reproduced']:
                    rep.inconc(r['ob'], 'counterexample did not reproduce natively: %s / %s' % (d, rp))
                    continue
            rep.violation(r['ob'], '%s' % d, kind='mismatch', replay=d)
    rep.samples = [x for x in rows if x['obligation'].startswith('map')][:3] + rows[:2]
    cov = {'states': max(agg.paths, 1), 'transitions': max(agg.queries, 1), 'traces_validated_against_impl': replays,
           'obligations': len(jobs), 'obligations_held': sum(1 for r in results if r['status'] == 'held'), 'obligation_table': rows,
           'functions_encoded': sorted(funcs), 'llvm_instructions_executed': agg.instrs, 'queries': agg.queries, 'queries_unsat': agg.unsat, 'queries_sat': agg.sat,
           'queries_unknown': agg.unknown, 'solver_s': round(agg.solver_s, 2),
           'bounds': 'arrays: ONE operation (append incl. growth, get, set, len) from an arbitrary valid state (symbolic contents, every length 0..capacity, capacity 4 (8 thorough), element sizes listed), symbolic index and element; maps: new_i32/new_i64, a concrete prefix (none, 12 distinct spread keys, or 3-4 keys forming one hash chain) followed by 1-2 (3 thorough) inserts with symbolic keys and values, then get / size / full iteration with a symbolic query key; the hash function is abstracted to an uninterpreted function of the key (all collision patterns), hash %% bucket_count executed as written',
           'explanation': 'clang -O0 LLVM IR of array.c and map.c executed symbolically over region memory (every access outside a live region, or to a freed one, ends the path as a violation); the solver decides agreement with an abstract list step / abstract map (ite chains over the same key and value terms).',
           'not_covered': 'string and byte-blob keys, from_pairs, map_free/destroy histories, allocation failure (malloc assumed to succeed), optional.c out-layout, capacities beyond 8'}
    sys.exit(rep.finish(cov, ['malloc/calloc/realloc never fail', 'clang front end; LLVM semantics in lirsym/llvm.py; z3', 'the load-factor product bucket_count*0.75 is evaluated concretely (bucket_count is concrete on every path)']))


if __name__ == '__main__':
    main()
