import sys, os
sys.path.insert(0, os.path.dirname(os.path.dirname(os.path.abspath(__file__))))
from vlib import gocheck

def main():
    groups = [dict(pkg='compiler/internal/hir/analysis', rel='internal/hir/analysis', harnesses=['HarnessC07PathsOverlap', 'HarnessC07Loans'], max_paths=200000)]
    groups += [dict(pkg='compiler/internal/verifrt/fe', rel='internal/verifrt/fe', harnesses=['HarnessC07Shapes'], max_paths=100000),
               dict(pkg='compiler/internal/verifrt/fe', rel='internal/verifrt/fe', harnesses=['HarnessC07Escapes'], max_paths=100000)]
    rc = gocheck.run('C07', 'other', groups, gocheck.GOSYM_ASSUME + [
        'reference model: a loan (owner reference, place, mutable) is live from its creation (borrow or copy of a reference) until its owner is released; read conflicts with live overlapping mutable loans, write and mutable borrow with any live overlapping loan, shared borrow with live overlapping mutable loans; overlap = prefix relation on place paths',
        'PARTIAL: the loan table and the place-overlap relation only; last-use computation (computeLastUse, releaseExpiredRefs), scope exit, checkReturnLifetime over real bodies and the write-through semantics of references in generated code (covered for a few templates by C01 family ref) are NOT decided here',
    ], 'FRONT END + BORROW CHECKER (HarnessC07Shapes): a reference (shared or mutable) to a local whose last use sits in one of ten statement shapes (plain, then, else, trailing else of 2- and 3-arm else-if chains, middle arm, loop body, match arms, nested if) x a conflicting access (write, read of a mutably borrowed place, shared / mutable re-borrow) placed before the shape, inside the arm before the last use, or after the shape: the real lexer .. type checker .. HIR generation .. HIR analyses run on the program inside the symbolic interpreter; the conflict must be rejected while the reference is still used later and accepted once its last use has passed. ESCAPES (HarnessC07Escapes): a function with a reference result returns a reference to {an initialised local, a local declared without an initialiser, a field of either kind of struct local, the second item of a multi-item let} x {return &x, let r: &T = &x; return r} x {end of body, inside an if, inside a while}: rejected; returning a received reference (parameter, field behind a reference parameter) is accepted. KERNELS: (a) pathsOverlap/pathsEqual on all pairs of 5 place paths: overlap <=> prefix relation, symmetric, reflexive; (b) the borrow checker\'s loan table (addBorrow, bindRefFromIdent, releaseBinding, checkAccess, findBorrow, removeBorrowEntry) driven through every 4-event history borrow / copy-or-borrow / release / access over 4 places and 2 references (2880 histories, events are symbolic choices): an error is reported exactly when the reference aliasing-xor-mutation model has a conflicting live loan.')
    sys.exit(rc)

if __name__ == '__main__':
    main()
