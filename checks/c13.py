import sys, os
sys.path.insert(0, os.path.dirname(os.path.dirname(os.path.abspath(__file__))))
from vlib import gocheck

def main():
    groups = [dict(pkg='compiler/internal/frontend/lexer', rel='internal/frontend/lexer', harnesses=['HarnessC13Lex'], max_paths=400000, wall_timeout=1700),
              dict(pkg='compiler/internal/diagnostics', rel='internal/diagnostics', harnesses=['HarnessC13DiagNil']),
              dict(pkg='compiler/internal/diagnostics', rel='internal/diagnostics', harnesses=['HarnessC13Highlight'], max_paths=400000)]
    groups += [dict(pkg='compiler/internal/verifrt/fe', rel='internal/verifrt/fe', harnesses=['HarnessC13Tokens%d' % k], max_paths=100000, wall_timeout=1700) for k in range(8)]
    groups += [dict(pkg='compiler/internal/verifrt/fe', rel='internal/verifrt/fe', harnesses=['HarnessC13Bytes'], max_paths=100000, wall_timeout=1700)]
    groups += [dict(pkg='compiler/internal/codegen/qbe_embeddings', rel='internal/codegen/qbe_embeddings', harnesses=['HarnessC13EmitGate'])]
    groups += [dict(pkg='compiler/internal/pipeline', rel='internal/pipeline', harnesses=['HarnessC13CodegenFailure'])]
    rc = gocheck.run('C13', 'other', groups, gocheck.GOSYM_ASSUME + [
        'ASCII sources only; the lexer regular expressions are matched by the symbolic backtracking matcher',
        'front-end harnesses: HarnessC13Tokens0-7 delete or replace ONE token of two well-formed programs (every token position x 11 replacement tokens quick / 18 thorough) and run the real lexer, parser, collector, resolver and type checker on the result inside the symbolic interpreter; HarnessC13Bytes replaces one byte (every second position quick / every position thorough) of a short program by a SYMBOLIC ASCII byte (digits excluded); termination is a step bound of 6,000,000 interpreted instructions (about 40x the cost of the unmodified program), replayed natively as a 20 s watchdog',
        'HarnessC13EmitGate: the QBE generator on a hand-built three-function MIR module in which a symbolically chosen function contains an instruction the generator cannot emit: Emit must return an error (so no IL, object file or executable is produced) whenever any function reported one; the wasm generator and the driver code between Emit and the linker are not covered',
        'HarnessC13Highlight: the snippet colouriser (SyntaxHighlighter.Highlight) on every line of <= 4 (5 thorough) characters over the 10 characters that drive its scanner (enumerated by the engine as concrete choices: an exhaustive finite product, not a solver verdict over an infinite domain): no run-time error, token texts add up to the line', 'HarnessC13CodegenFailure: the native code generation phase (runQBECodegenPhase, generateModuleQBE, the real QBE emitter) on a one-module project in an environment of stubs - os.MkdirAll, os.WriteFile, the embedded QBE (exit code), the assembler / linker step succeed or fail by free symbolic choice (gosym/interp/envstubs.go): whenever the phase returns an error an error diagnostic has been recorded (the driver computes the exit status from the diagnostics only)', 'NOT decided: inputs more than one token / one byte away from the two base programs, the phases after the type checker, the mapping from diagnostics to the process exit status (compiler.Compile / main), left-over artifacts, multi-file projects with missing or malformed imports',
    ], 'FRONT END: on every one-token mutation of the base programs and on every one-byte mutation of a short program the whole front end comes back within the step bound, does not panic (nil dereference, failed type assertion, index out of range are violations) and every diagnostic points inside the file. BOUNDED SLICE: (a) lexer.Tokenize on every ASCII source of up to 2 bytes (3 thorough): terminates within the step budget without a panic, the token list ends with EOF, token spans lie inside the input in order; (b) the diagnostic builder and sorter (WithPrimaryLabel, WithSecondaryLabel, sortDiagnostics, HasErrors) with the nil-ness of each location and of its file name symbolic: no panic, HasErrors <=> an error was added.')
    sys.exit(rc)

if __name__ == '__main__':
    main()
