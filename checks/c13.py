import sys, os
sys.path.insert(0, os.path.dirname(os.path.dirname(os.path.abspath(__file__))))
from vlib import gocheck

def main():
    groups = [dict(pkg='compiler/internal/frontend/lexer', rel='internal/frontend/lexer', harnesses=['HarnessC13Lex'], max_paths=400000, wall_timeout=1700),
              dict(pkg='compiler/internal/diagnostics', rel='internal/diagnostics', harnesses=['HarnessC13DiagNil'])]
    rc = gocheck.run('C13', 'other', groups, gocheck.GOSYM_ASSUME + [
        'ASCII sources only; the lexer regular expressions are matched by the symbolic backtracking matcher',
        'PARTIAL: only the lexer and the diagnostic builder/sorter; the parser, collector, resolver, type checker on partial ASTs, process exit status, left-over artifacts and multi-file projects are NOT covered',
    ], 'PARTIAL (bounded slice): (a) lexer.Tokenize on every ASCII source of up to 2 bytes (3 thorough): terminates within the step budget without a panic, the token list ends with EOF, token spans lie inside the input in order; (b) the diagnostic builder and sorter (WithPrimaryLabel, WithSecondaryLabel, sortDiagnostics, HasErrors) with the nil-ness of each location and of its file name symbolic: no panic, HasErrors <=> an error was added.')
    sys.exit(rc)

if __name__ == '__main__':
    main()
