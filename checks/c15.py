import sys, os
sys.path.insert(0, os.path.dirname(os.path.dirname(os.path.abspath(__file__))))
from vlib import gocheck

def main():
    groups = [dict(pkg='compiler/internal/context_v2', rel='internal/context_v2', harnesses=['HarnessC15Graph'], max_paths=400000, wall_timeout=1700),
              dict(pkg='compiler/internal/context_v2', rel='internal/context_v2', harnesses=['HarnessC15Names'], max_paths=400000, wall_timeout=1700),
              dict(pkg='compiler/internal/context_v2', rel='internal/context_v2', harnesses=['HarnessC15Order'], max_paths=400000, wall_timeout=1700),
              dict(pkg='compiler/internal/context_v2', rel='internal/context_v2', harnesses=['HarnessC15Race'], max_paths=400000, wall_timeout=1700)]
    groups += [dict(pkg='compiler/internal/pipeline', rel='internal/pipeline', harnesses=['HarnessC15Schedule%d' % k], max_paths=400000, max_instrs=200000000, wall_timeout=2400) for k in range(7)]
    rc = gocheck.run('C15', 'model_checking', groups, gocheck.GOSYM_ASSUME + [
        'HarnessC15Graph / HarnessC15Names: the calls of one history run sequentially, in every arrival order. HarnessC15Race: two AddDependency calls run as logical threads under the cooperative scheduler of the interpreter (pre-emption only before a Lock / Unlock / RLock / RUnlock; every interleaving at that granularity is explored, lock semantics of sync.RWMutex modelled, deadlock reported); native replay repeats the harness with real goroutines until the assertion fails once',
        'map iteration order: ascending and descending key order (a symbolic choice), not all permutations',
        'HarnessC15Schedule0-6: the REAL processModule / parseModule (sync.Map LoadOrStore, WaitGroup, one goroutine per module, the real lexer and parser on in-memory module texts, AddDependency under the context lock) on seven project shapes (diamond, fan, chain, two-cycle, self-import, nine-module two-level fan, back edge to main) under delay-bounded scheduling (Emmi-Qadeer-Rakamaric): every schedule the default scheduler reaches with at most 2 delays (1 for the nine-module shape; +1 thorough) at synchronisation operations; a state with unfinished threads and none enabled is a deadlock; one modelled processor; schedules beyond the bound are outside the claim',
        'symbol visibility across modules is decided for one importer / one imported module by C12 (HarnessC12Modules), not here',
    ], 'AddDependency / findCycle / hasCyclePath / ComputeTopologicalOrder / GetModuleNames are executed from their SSA for every sequence of up to 4 (5 thorough) import edges over 3 modules, including self-imports and repetitions, in every arrival order (edges and order are symbolic choices, 9^K sequences): a call is refused with a circular-import error exactly when it would close a cycle in the graph accepted so far (reference: transitive closure), the stored graph equals the accepted one, and the build order lists every module once with dependencies first. HarnessC15Names: the same refusal obligation for every sequence of 4 import edges (12^4) over FOUR modules two of which share their file base name (x/u, y/u): module identity must be the full import path. HarnessC15Order: EVERY acyclic import graph over 5 modules (6 thorough; each of the N(N-1)/2 forward edges chosen freely = 1024 / 32768 graphs, names rotated symbolically, both map iteration directions): the topological order lists every module exactly once, dependencies first (wide levels where one module releases several others need five modules).',
        extra_cov={'exhaustive': True})
    sys.exit(rc)

if __name__ == '__main__':
    main()
