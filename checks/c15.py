import sys, os
sys.path.insert(0, os.path.dirname(os.path.dirname(os.path.abspath(__file__))))
from vlib import gocheck

def main():
    groups = [dict(pkg='compiler/internal/context_v2', rel='internal/context_v2', harnesses=['HarnessC15Graph'], max_paths=400000, wall_timeout=1700),
              dict(pkg='compiler/internal/context_v2', rel='internal/context_v2', harnesses=['HarnessC15Names'], max_paths=400000, wall_timeout=1700),
              dict(pkg='compiler/internal/context_v2', rel='internal/context_v2', harnesses=['HarnessC15Race'], max_paths=400000, wall_timeout=1700)]
    rc = gocheck.run('C15', 'model_checking', groups, gocheck.GOSYM_ASSUME + [
        'HarnessC15Graph / HarnessC15Names: the calls of one history run sequentially, in every arrival order. HarnessC15Race: two AddDependency calls run as logical threads under the cooperative scheduler of the interpreter (pre-emption only before a Lock / Unlock / RLock / RUnlock; every interleaving at that granularity is explored, lock semantics of sync.RWMutex modelled, deadlock reported); native replay repeats the harness with real goroutines until the assertion fails once',
        'map iteration order: ascending and descending key order (a symbolic choice), not all permutations',
        'processModule exactly-once scheduling (sync.Map, WaitGroup) and symbol visibility across modules are outside this check',
    ], 'AddDependency / findCycle / hasCyclePath / ComputeTopologicalOrder / GetModuleNames are executed from their SSA for every sequence of up to 4 (5 thorough) import edges over 3 modules, including self-imports and repetitions, in every arrival order (edges and order are symbolic choices, 9^K sequences): a call is refused with a circular-import error exactly when it would close a cycle in the graph accepted so far (reference: transitive closure), the stored graph equals the accepted one, and the build order lists every module once with dependencies first. HarnessC15Names: the same refusal obligation for every sequence of 4 import edges (12^4) over FOUR modules two of which share their file base name (x/u, y/u): module identity must be the full import path.',
        extra_cov={'exhaustive': True})
    sys.exit(rc)

if __name__ == '__main__':
    main()
