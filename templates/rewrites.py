"""Meaning-preserving rewrites of template programs (property C09)."""
import copy
from .lang import *


def _map_expr(e, f):
    """Rebuild expression e bottom-up, applying f to every node (f returns a replacement or the node)."""
    if e is None or not isinstance(e, Expr):
        return e
    n = copy.copy(e)
    for k, v in list(vars(n).items()):
        if isinstance(v, Expr):
            setattr(n, k, _map_expr(v, f))
        elif isinstance(v, list) and v and all(isinstance(x, Expr) for x in v):
            setattr(n, k, [_map_expr(x, f) for x in v])
        elif isinstance(v, dict) and v and all(isinstance(x, Expr) for x in v.values()):
            setattr(n, k, {kk: _map_expr(x, f) for kk, x in v.items()})
    return f(n)


def _map_stmts(stmts, fe, fs=None):
    out = []
    for s in stmts:
        n = copy.copy(s)
        for k, v in list(vars(n).items()):
            if isinstance(v, Expr):
                if isinstance(n, Match) and k == 'subj':
                    setattr(n, k, _map_expr(v, fe))
                else:
                    setattr(n, k, _map_expr(v, fe))
            elif isinstance(v, list) and v and all(hasattr(x, 'src') and not isinstance(x, Expr) for x in v):
                setattr(n, k, _map_stmts(v, fe, fs))
            elif isinstance(v, If):
                setattr(n, k, _map_stmts([v], fe, fs)[0])
        if isinstance(n, Match):
            n.arms = [(p, _map_stmts(b, fe, fs)) for p, b in n.arms]   # patterns stay literal
        if fs:
            r = fs(n)
            out.extend(r if isinstance(r, list) else [r])
        else:
            out.append(n)
    return out


def lit_to_call(prog, entry='t'):
    """R1: every integer literal in an expression of the entry function becomes a call of a function returning it."""
    helpers = {}

    def mark(e, inside):
        """pre-pass: literals inside a fixed-array index expression must stay (documented T0028 rule)."""
        if not isinstance(e, Expr):
            return
        if isinstance(e, Lit) and inside:
            e._keep = True
        for k, v in vars(e).items():
            ins = inside
            if isinstance(e, Index) and k == 'idx':
                bt = e.e.ty.elem if isinstance(e.e.ty, RefT) else e.e.ty
                ins = inside or isinstance(bt, ArrT)
            if isinstance(v, Expr):
                mark(v, ins)
            elif isinstance(v, list):
                for x in v:
                    mark(x, ins)
            elif isinstance(v, dict):
                for x in v.values():
                    mark(x, ins)

    def mark_stmts(stmts):
        for st in stmts:
            for k, v in vars(st).items():
                if isinstance(v, Expr):
                    mark(v, False)
                elif isinstance(v, list) and v and all(hasattr(x, 'src') and not isinstance(x, Expr) for x in v):
                    mark_stmts(v)
                elif isinstance(v, If):
                    mark_stmts([v])
            if isinstance(st, Match):
                for pp, bb in st.arms:
                    mark_stmts(bb)
    mark_stmts(prog.func(entry).body)

    def fe(e):
        if isinstance(e, Lit) and isinstance(e.ty, IntT) and not getattr(e, '_keep', False):
            key = (e.v, e.ty.name)
            if key not in helpers:
                name = 'k%d' % len(helpers)
                helpers[key] = Func(name, [], e.ty, [Return(Lit(e.v, e.ty))])
            c = Call(helpers[key].name, [], e.ty)
            c._orig = e
            return c
        if isinstance(e, Index) and hasattr(e.idx, '_orig'):
            bt = e.e.ty.elem if isinstance(e.e.ty, RefT) else e.e.ty
            if isinstance(bt, ArrT):
                # documented exception: fixed-array indices must stay compile-time constants
                n = copy.copy(e)
                n.idx = e.idx._orig
                return n
        return e
    funcs = []
    changed = False
    for f in prog.funcs:
        if f.name == entry:
            nf = copy.copy(f)
            nf.body = _map_stmts(f.body, fe)
            funcs.append(nf)
        else:
            funcs.append(f)
    if not helpers:
        return None
    return Program(list(helpers.values()) + funcs, types=prog.types, consts=prog.consts)


def bind_subexpr(prog, entry='t', kinds=None):
    """R2: the first arithmetic subexpression nested inside a comparison / cast / division operand of a top-level
    statement is bound to a fresh immutable local just before that statement.  (kinds: the expression classes that
    may be bound; bind_cast binds the first nested CAST instead.)"""
    kinds = kinds or (Bin,)
    f = prog.func(entry)
    done = [False]
    body = []
    for s in f.body:
        if done[0] or not isinstance(s, (If, Let, Return, Assign)):
            body.append(s)
            continue
        found = []

        def fe(e):
            if found:
                return e
            for attr in ('l', 'r', 'e'):
                sub = getattr(e, attr, None)
                if isinstance(e, (Cmp, Cast, Bin)) and isinstance(sub, kinds) and isinstance(sub.ty, IntT):
                    found.append(sub)
                    n = copy.copy(e)
                    setattr(n, attr, Var('h0', sub.ty))
                    return n
            return e
        n = copy.copy(s)
        if isinstance(s, If):
            n.cond = _map_expr(s.cond, fe)
        else:
            n.e = _map_expr(s.e, fe) if s.e is not None else None
        if found:
            body.append(Let('h0', found[0].ty, found[0], const=False))
            body.append(n)
            done[0] = True
        else:
            body.append(s)
    if not done[0]:
        return None
    nf = copy.copy(f)
    nf.body = body
    return Program([nf if x.name == entry else x for x in prog.funcs], types=prog.types, consts=prog.consts)


def _assigned(stmts, acc):
    for s in stmts:
        for k, v in vars(s).items():
            if k == 'place' and isinstance(s, (Assign, OpAssign, IncDec)):
                b = v
                while isinstance(b, (Field, Index)):
                    b = b.e
                if isinstance(b, Var):
                    acc.add(b.name)
            if isinstance(v, list) and v and all(hasattr(x, 'src') and not isinstance(x, Expr) for x in v):
                _assigned(v, acc)
            if isinstance(v, If):
                _assigned([v], acc)
        if isinstance(s, Match):
            for p, b in s.arms:
                _assigned(b, acc)
        if isinstance(s, Append):
            acc.add(s.arr.name)
        # mutable borrows
        def fe(e):
            if isinstance(e, AddrOf) and e.mut:
                b = e.place
                while isinstance(b, (Field, Index)):
                    b = b.e
                if isinstance(b, Var):
                    acc.add(b.name)
            if isinstance(e, MethodCall) and isinstance(e.recv, Var):
                acc.add(e.recv.name)
            return e
        for k, v in vars(s).items():
            if isinstance(v, Expr):
                _map_expr(v, fe)


def let_to_const(prog, entry='t'):
    """R3: every never-reassigned, never-mutably-borrowed scalar `let` of the entry function becomes `const`."""
    f = prog.func(entry)
    acc = set()
    _assigned(f.body, acc)
    changed = [False]

    def fs(s):
        if isinstance(s, Let) and not s.const and s.name not in acc and isinstance(s.ty, (IntT, BoolT)):
            n = copy.copy(s)
            n.const = True
            changed[0] = True
            return n
        return s
    body = _map_stmts(f.body, lambda e: e, fs)
    if not changed[0]:
        return None
    nf = copy.copy(f)
    nf.body = body
    return Program([nf if x.name == entry else x for x in prog.funcs], types=prog.types, consts=prog.consts)


def wrap_if_true(prog, entry='t', wrap_last_return=False):
    """R4: every top-level non-declaration statement of the entry function is wrapped in `if true { }`
    (the trailing return only when wrap_last_return is set)."""
    f = prog.func(entry)
    body = []
    changed = False
    for i, s in enumerate(f.body):
        last_ret = (i == len(f.body) - 1)   # the statement the return analysis relies on
        if isinstance(s, (Let, FuncLitLet)) or (last_ret and not wrap_last_return):
            body.append(s)
        else:
            body.append(If(Lit(True, BOOL), [s]))
            changed = True
    if not changed:
        return None
    nf = copy.copy(f)
    nf.body = body
    return Program([nf if x.name == entry else x for x in prog.funcs], types=prog.types, consts=prog.consts)


def wrap_if_true_ret(prog, entry='t'):
    f = prog.func(entry)
    if not f.body:
        return None
    return wrap_if_true(prog, entry, wrap_last_return=True)


def bind_cast(prog, entry='t'):
    return bind_subexpr(prog, entry, kinds=(Cast,))


REWRITES = {'lit2call': lit_to_call, 'bind': bind_subexpr, 'bindcast': bind_cast, 'let2const': let_to_const, 'iftrue': wrap_if_true, 'iftrue_ret': wrap_if_true_ret}
