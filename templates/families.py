"""Template families (Ferret programs whose inputs are i64 parameters) shared by the L2 checks."""
import z3
from .lang import *
from vlib.tv import Template

X, Y, Z = Var('x', I64), Var('y', I64), Var('z', I64)


def narrow(arg, ty):
    """z3 value of `arg as ty` for a 64-bit parameter term."""
    return z3.Extract(ty.bits - 1, 0, arg) if ty.bits < 64 else arg


def ext(v, ty, to):
    return z3.SignExt(to - ty.bits, v) if ty.signed else z3.ZeroExt(to - ty.bits, v)


def overflow_region(op, ty):
    """Inputs for which the exact result of `a op b` does not fit ty (used to delimit known finding D1)."""
    def f(args):
        W = 2 * ty.bits + 2
        a = ext(narrow(args[0], ty), ty, W)
        b = ext(narrow(args[1], ty), ty, W)
        r = {'+': a + b, '-': a - b, '*': a * b}[op]
        back = ext(z3.Extract(ty.bits - 1, 0, r), ty, W)
        return back != r
    return f


def div_pre(ty, which=1):
    def f(args):
        b = narrow(args[which], ty)
        c = b != 0
        if ty.signed:
            a = narrow(args[0], ty)
            c = z3.And(c, z3.Not(z3.And(a == z3.BitVecVal(1 << (ty.bits - 1), ty.bits), b == z3.BitVecVal(-1, ty.bits))))
        return c
    return f


def fn2(body, types=(), extra=()):
    return Program(list(extra) + [Func('t', [('x', I64), ('y', I64)], I64, body)], types=types)


def fn1(body, types=(), extra=()):
    return Program(list(extra) + [Func('t', [('x', I64)], I64, body)], types=types)


def fn3(body, types=(), extra=()):
    return Program(list(extra) + [Func('t', [('x', I64), ('y', I64), ('z', I64)], I64, body)], types=types)


ARITH_OPS = ['+', '-', '*', '/', '%']  # Ferret has no binary & | ^ operators
OPNAME = {'+': 'add', '-': 'sub', '*': 'mul', '/': 'div', '%': 'rem', '&': 'and', '|': 'or', '^': 'xor'}
CMP_OPS = ['==', '!=', '<', '<=', '>', '>=']
CMPNAME = {'==': 'eq', '!=': 'ne', '<': 'lt', '<=': 'le', '>': 'gt', '>=': 'ge'}


def arith(types=INTS, ops=ARITH_OPS, consumers=('local', 'cmp', 'widen', 'div', 'eq')):
    out = []
    for ty in types:
        a, b = Var('a', ty), Var('b', ty)
        head = [Let('a', ty, Cast(X, ty)), Let('b', ty, Cast(Y, ty))]
        for op in ops:
            e = Bin(op, a, b)
            for c in consumers:
                if c == 'local':
                    body = head + [Let('r', ty, e), Return(Cast(Var('r', ty), I64))]
                elif c == 'cmp':
                    body = head + [If(Cmp('>', e, Lit(0, ty)), [Return(Lit(1, I64))]), Return(Lit(0, I64))]
                elif c == 'widen':
                    body = head + [Let('r', I64, Cast(e, I64)), Return(Var('r', I64))]
                elif c == 'div':
                    body = head + [Let('r', ty, Bin('/', e, Lit(2, ty))), Return(Cast(Var('r', ty), I64))]
                elif c == 'eq':
                    body = head + [If(Cmp('==', e, b), [Return(Lit(1, I64))]), Return(Lit(0, I64))]
                pre = div_pre(ty) if op in '/%' else None
                regions = {}
                if ty.bits < 32 and op in '+-*':
                    regions['narrow_overflow'] = overflow_region(op, ty)
                out.append(Template('arith/%s/%s/%s' % (OPNAME[op], ty.name, c), fn2(body), pre=pre, family='arith', regions=regions))
    return out


def compare(types=INTS):
    out = []
    for ty in types:
        a, b = Var('a', ty), Var('b', ty)
        head = [Let('a', ty, Cast(X, ty)), Let('b', ty, Cast(Y, ty))]
        for op in CMP_OPS:
            body = head + [If(Cmp(op, a, b), [Return(Lit(1, I64))], [Return(Lit(0, I64))])]
            out.append(Template('cmp/%s/%s' % (CMPNAME[op], ty.name), fn2(body), family='cmp'))
            # comparison result as a bool value stored in a local, then branched on
            body = head + [Let('c', BOOL, Cmp(op, a, b)), If(Var('c', BOOL), [Return(Lit(7, I64))]), Return(Lit(3, I64))]
            out.append(Template('cmpv/%s/%s' % (CMPNAME[op], ty.name), fn2(body), family='cmp'))
    return out


def casts(types=INTS):
    out = []
    for s in types:
        for d in types:
            body = [Let('a', s, Cast(X, s)), Let('r', d, Cast(Var('a', s), d)), Return(Cast(Var('r', d), I64))]
            out.append(Template('cast/%s/%s' % (s.name, d.name), fn1(body), family='cast'))
    return out


def unary(types=INTS):
    out = []
    for ty in types:
        a = Var('a', ty)
        if ty.signed:
            body = [Let('a', ty, Cast(X, ty)), Let('r', ty, Neg(a)), Return(Cast(Var('r', ty), I64))]
            out.append(Template('unary/neg/%s' % ty.name, fn1(body), family='unary'))
        for op in ('+', '-', '*'):
            body = [Let('a', ty, Cast(X, ty)), OpAssign(a, op, Cast(Y, ty)), Return(Cast(a, I64))]
            regions = {}
            if ty.bits < 32:
                regions['narrow_overflow'] = overflow_region(op, ty)
            out.append(Template('unary/opassign_%s/%s' % (OPNAME[op], ty.name), fn2(body), family='unary', regions=regions))
        for op in ('++', '--'):
            body = [Let('a', ty, Cast(X, ty)), IncDec(a, op), Return(Cast(a, I64))]
            out.append(Template('unary/%s/%s' % ('inc' if op == '++' else 'dec', ty.name), fn1(body), family='unary'))
            body = [Let('a', ty, Cast(X, ty)), IncDec(a, op), If(Cmp('>', a, Lit(0, ty)), [Return(Lit(1, I64))]), Return(Lit(0, I64))]
            out.append(Template('unary/%s_cmp/%s' % ('inc' if op == '++' else 'dec', ty.name), fn1(body), family='unary'))
    return out


def control():
    out = []
    ty = I32
    a = Var('a', ty)
    # if / else-if / else chain
    body = [Let('a', ty, Cast(X, ty)),
            If(Cmp('<', a, Lit(0, ty)), [Return(Lit(1, I64))],
               If(Cmp('==', a, Lit(0, ty)), [Return(Lit(2, I64))],
                  If(Cmp('<', a, Lit(100, ty)), [Return(Lit(3, I64))], [Return(Lit(4, I64))])))]
    out.append(Template('ctl/elseif', fn1(body), family='control'))
    # logical operators with short-circuit
    for op in ('&&', '||'):
        body = [If(Logic(op, Cmp('>', X, Lit(5, I64)), Cmp('<', Y, Lit(9, I64))), [Return(Lit(1, I64))]), Return(Lit(0, I64))]
        out.append(Template('ctl/logic_%s' % ('and' if op == '&&' else 'or'), fn2(body), family='control'))
    body = [If(Not(Cmp('>', X, Y)), [Return(Lit(1, I64))]), Return(Lit(0, I64))]
    out.append(Template('ctl/not', fn2(body), family='control'))
    # while with accumulate, break, continue; trip count <= 3
    s, i = Var('s', I64), Var('i', I64)
    pre3 = lambda args: z3.And(args[0] >= 0, args[0] <= 3)
    body = [Let('s', I64, Lit(0, I64)), Let('i', I64, Lit(0, I64)),
            While(Cmp('<', i, X), [OpAssign(s, '+', Bin('*', i, Y)), IncDec(i, '++')]), Return(s)]
    out.append(Template('ctl/while_sum', fn2(body), pre=pre3, family='control'))
    body = [Let('s', I64, Lit(0, I64)), Let('i', I64, Lit(0, I64)),
            While(Cmp('<', i, X), [IncDec(i, '++'), If(Cmp('==', i, Y), [Continue()]), If(Cmp('==', i, Z), [Break()]), OpAssign(s, '+', i)]), Return(s)]
    out.append(Template('ctl/while_break_continue', fn3(body), pre=pre3, family='control'))
    body = [Let('i', I64, Lit(0, I64)), While(Lit(True, BOOL), [If(Cmp('>=', i, X), [Return(Bin('+', i, Y))]), IncDec(i, '++')]), Return(Lit(-1, I64))]
    out.append(Template('ctl/while_true_return', fn2(body), pre=pre3, family='control'))
    # nested while
    j = Var('j', I64)
    pre2 = lambda args: z3.And(args[0] >= 0, args[0] <= 2, args[1] >= 0, args[1] <= 2)
    body = [Let('s', I64, Lit(0, I64)), Let('i', I64, Lit(0, I64)),
            While(Cmp('<', i, X), [Let('j', I64, Lit(0, I64)), While(Cmp('<', j, Y), [OpAssign(s, '+', Bin('+', i, j)), IncDec(j, '++')]), IncDec(i, '++')]), Return(s)]
    out.append(Template('ctl/while_nested', fn2(body), pre=pre2, family='control', unroll=8))
    # match on int with default
    body = [Match(X, [(Lit(1, I64), [Return(Lit(10, I64))]), (Lit(2, I64), [Return(Lit(20, I64))]), (Lit(-3, I64), [Return(Y)]), (None, [Return(Lit(0, I64))])])]
    out.append(Template('ctl/match_int', fn2(body), family='control'))
    body = [Let('r', I64, Lit(5, I64)), Match(Cast(X, I32), [(Lit(1, I32), [Assign(Var('r', I64), Lit(10, I64))]), (Lit(70000, I32), [Assign(Var('r', I64), Y)]), (None, [])]), Return(Var('r', I64))]
    out.append(Template('ctl/match_fallthrough', fn2(body), family='control'))
    # for-in over dynamic array
    arr = Var('arr', DynT(I64))
    body = [Let('arr', DynT(I64), ArrLit(DynT(I64), [X, Y, Lit(3, I64)])), Let('s', I64, Lit(0, I64)),
            ForIn('i', 'v', arr, [OpAssign(s, '+', Var('v', I64))]), Return(s)]
    out.append(Template('ctl/forin_sum', fn2(body), family='control', unroll=5))
    body = [Let('arr', DynT(I64), ArrLit(DynT(I64), [X, Y, Lit(3, I64)])), Let('s', I64, Lit(0, I64)),
            ForIn('i', 'v', arr, [If(Cmp('==', Var('v', I64), Lit(7, I64)), [Break()]), OpAssign(s, '+', Bin('*', Var('v', I64), Cast(Var('i', I32), I64)))]), Return(s)]
    out.append(Template('ctl/forin_break_index', fn2(body), family='control', unroll=5))
    # calls and recursion
    g = Func('g', [('p', I64), ('q', I64)], I64, [If(Cmp('>', Var('p', I64), Var('q', I64)), [Return(Bin('-', Var('p', I64), Var('q', I64)))]), Return(Bin('-', Var('q', I64), Var('p', I64)))])
    body = [Return(Bin('+', Call('g', [X, Y], I64), Call('g', [Y, X], I64)))]
    out.append(Template('ctl/call', fn2(body, extra=[g]), family='control'))
    fact = Func('f', [('n', I64)], I64, [If(Cmp('<=', Var('n', I64), Lit(0, I64)), [Return(Lit(1, I64))]), Return(Bin('*', Var('n', I64), Call('f', [Bin('-', Var('n', I64), Lit(1, I64))], I64)))])
    body = [Return(Call('f', [X], I64))]
    out.append(Template('ctl/recursion', fn1(body, extra=[fact]), pre=lambda a: z3.And(a[0] >= -2, a[0] <= 3), family='control'))
    # left-to-right evaluation with side effects through a reference parameter
    return out


P3 = StructT('P3', [('A', I32), ('B', I64), ('C', I8)])
IN = StructT('Inner', [('U', I16), ('V', I64)])
OUTR = StructT('Outer', [('H', I8), ('In', IN), ('T', I32)])


def composites():
    out = []
    p, q = Var('p', P3), Var('q', P3)
    mk = StructLit(P3, {'A': Cast(X, I32), 'B': Y, 'C': Cast(Z, I8)})
    # copy then mutate original: copy unchanged
    for fld, ty in P3.fields:
        body = [Let('p', P3, mk), Let('q', P3, p), Assign(Field(p, fld), Lit(9, ty)),
                Let('r', ty, Field(q, fld)), Return(Cast(Var('r', ty), I64))]
        out.append(Template('comp/struct_copy_mut_orig/%s' % fld, fn3(body, types=[P3]), family='composite'))
        body = [Let('p', P3, mk), Let('q', P3, p), Assign(Field(q, fld), Lit(9, ty)),
                Let('r', ty, Field(p, fld)), Return(Cast(Var('r', ty), I64))]
        out.append(Template('comp/struct_copy_mut_copy/%s' % fld, fn3(body, types=[P3]), family='composite'))
    # struct passed by value to a function that mutates its parameter copy
    m = Func('m', [('s', P3)], I64, [Assign(Field(Var('s', P3), 'B'), Lit(77, I64)), Return(Field(Var('s', P3), 'B'))])
    body = [Let('p', P3, mk), Let('k', I64, Call('m', [p], I64)), Return(Bin('+', Field(p, 'B'), Var('k', I64)))]
    out.append(Template('comp/struct_byvalue_arg', fn3(body, types=[P3], extra=[m]), family='composite'))
    # struct returned by value
    mkf = Func('mk', [('a', I64), ('b', I64)], P3, [Return(StructLit(P3, {'A': Cast(Var('a', I64), I32), 'B': Var('b', I64), 'C': Lit(5, I8)}))])
    body = [Let('p', P3, Call('mk', [X, Y], P3)), Return(Bin('+', Field(p, 'B'), Cast(Field(p, 'A'), I64)))]
    out.append(Template('comp/struct_return', fn2(body, types=[P3], extra=[mkf]), family='composite'))
    # nested struct
    o = Var('o', OUTR)
    mko = StructLit(OUTR, {'H': Cast(X, I8), 'In': StructLit(IN, {'U': Cast(Y, I16), 'V': Z}), 'T': Lit(11, I32)})
    body = [Let('o', OUTR, mko), Let('c', OUTR, o), Assign(Field(Field(o, 'In'), 'V'), Lit(1, I64)),
            Return(Bin('+', Field(Field(Var('c', OUTR), 'In'), 'V'), Cast(Field(Field(Var('c', OUTR), 'In'), 'U'), I64)))]
    out.append(Template('comp/nested_copy', fn3(body, types=[IN, OUTR]), family='composite'))
    # fixed array copy
    A3 = ArrT(3, I32)
    a, b = Var('a', A3), Var('b', A3)
    body = [Let('a', A3, ArrLit(A3, [Cast(X, I32), Cast(Y, I32), Lit(3, I32)])), Let('b', A3, a), Assign(Index(a, Lit(1, I32)), Lit(50, I32)),
            Let('r', I32, Index(b, Lit(1, I32))), Return(Cast(Var('r', I32), I64))]
    out.append(Template('comp/fixedarr_copy', fn2(body), family='composite'))
    body = [Let('a', A3, ArrLit(A3, [Cast(X, I32), Cast(Y, I32), Lit(3, I32)])), Assign(Index(a, Lit(-1, I32)), Lit(50, I32)),
            Let('r', I32, Index(a, Lit(2, I32))), Let('r2', I32, Index(a, Lit(-3, I32))), Return(Bin('+', Cast(Var('r', I32), I64), Cast(Var('r2', I32), I64)))]
    out.append(Template('comp/fixedarr_negidx', fn2(body), family='composite'))
    return out


def refs():
    out = []
    # local mutable reference: write-through and read-through
    a = Var('a', I32)
    m = Var('m', RefT(I32, True))
    body = [Let('a', I32, Cast(X, I32)), Let('m', RefT(I32, True), AddrOf(a, True)), Assign(m, Cast(Y, I32)), Return(Cast(a, I64))]
    out.append(Template('ref/local_write_through', fn2(body), family='ref'))
    r = Var('r', RefT(I32, False))
    body = [Let('a', I32, Cast(X, I32)), Let('r', RefT(I32, False), AddrOf(a, False)), Let('v', I32, r), Return(Cast(Var('v', I32), I64))]
    out.append(Template('ref/local_read_through', fn1(body), family='ref'))
    # reference parameter
    setf = Func('setv', [('r', RefT(I64, True)), ('v', I64)], VOID, [Assign(Var('r', RefT(I64, True)), Var('v', I64))])
    body = [Let('a', I64, X), ExprStmt(Call('setv', [AddrOf(Var('a', I64), True), Y], VOID)), Return(Var('a', I64))]
    out.append(Template('ref/param_write', fn2(body, extra=[setf]), family='ref'))
    getf = Func('getv', [('r', RefT(I64, False))], I64, [Return(Var('r', RefT(I64, False)))])
    body = [Let('a', I64, X), Return(Call('getv', [AddrOf(Var('a', I64), False)], I64))]
    out.append(Template('ref/param_read', fn1(body, extra=[getf]), family='ref'))
    # field borrow, disjoint fields
    p = Var('p', P3)
    mk = StructLit(P3, {'A': Cast(X, I32), 'B': Y, 'C': Lit(1, I8)})
    body = [Let('p', P3, mk), Let('rb', RefT(I64, True), AddrOf(Field(p, 'B'), True)), Assign(Var('rb', RefT(I64, True)), Lit(5, I64)),
            Return(Bin('+', Field(p, 'B'), Cast(Field(p, 'A'), I64)))]
    out.append(Template('ref/field_borrow', fn2(body, types=[P3]), family='ref'))
    # method with &' receiver and & receiver
    CT = StructT('Counter', [('Value', I32)])
    inc = Func('inc', [], VOID, [IncDec(Field(Var('c', RefT(CT, True)), 'Value'), '++')], recv=('c', RefT(CT, True)))
    get = Func('get', [], I32, [Return(Field(Var('c', RefT(CT, False)), 'Value'))], recv=('c', RefT(CT, False)))
    c = Var('c', CT)
    body = [Let('c', CT, StructLit(CT, {'Value': Cast(X, I32)})), ExprStmt(MethodCall(c, 'inc', [], VOID)), ExprStmt(MethodCall(c, 'inc', [], VOID)),
            Let('r', I32, MethodCall(c, 'get', [], I32)), Return(Cast(Var('r', I32), I64))]
    out.append(Template('ref/method_receiver', fn1(body, types=[CT], extra=[inc, get]), family='ref'))
    return out


def c01_quick():
    return (arith(consumers=('local', 'cmp', 'widen')) + compare() + casts() + unary() + control() + composites() + refs())


def c01_thorough():
    return (arith() + compare() + casts() + unary() + control() + composites() + refs())
