"""Template families (Ferret programs whose inputs are i64 parameters) shared by the L2 checks."""
import z3
from .lang import *
from vlib.tv import Template

X, Y, Z = Var('x', I64), Var('y', I64), Var('z', I64)


def narrow(arg, ty):
    """z3 value of `arg as ty` for a 64-bit parameter term."""
    return z3.Extract(ty.bits - 1, 0, arg) if ty.bits < 64 else arg


def ext(v, ty, to):
    return z3.SignExt(to - ty.bits, v) if ty.signed else z3.ZeroExt(to - ty.bits, v)


def overflow_region(op, ty):
    """Inputs for which the exact result of `a op b` does not fit ty (used to delimit known finding D1)."""
    def f(args):
        W = 2 * ty.bits + 2
        a = ext(narrow(args[0], ty), ty, W)
        b = ext(narrow(args[1], ty), ty, W)
        r = {'+': a + b, '-': a - b, '*': a * b}[op]
        back = ext(z3.Extract(ty.bits - 1, 0, r), ty, W)
        return back != r
    return f


def div_pre(ty, which=1):
    def f(args):
        b = narrow(args[which], ty)
        c = b != 0
        if ty.signed:
            a = narrow(args[0], ty)
            c = z3.And(c, z3.Not(z3.And(a == z3.BitVecVal(1 << (ty.bits - 1), ty.bits), b == z3.BitVecVal(-1, ty.bits))))
        return c
    return f


def fn2(body, types=(), extra=()):
    return Program(list(extra) + [Func('t', [('x', I64), ('y', I64)], I64, body)], types=types)


def fn1(body, types=(), extra=()):
    return Program(list(extra) + [Func('t', [('x', I64)], I64, body)], types=types)


def fn3(body, types=(), extra=()):
    return Program(list(extra) + [Func('t', [('x', I64), ('y', I64), ('z', I64)], I64, body)], types=types)


ARITH_OPS = ['+', '-', '*', '/', '%']  # Ferret has no binary & | ^ operators
OPNAME = {'+': 'add', '-': 'sub', '*': 'mul', '/': 'div', '%': 'rem', '&': 'and', '|': 'or', '^': 'xor'}
CMP_OPS = ['==', '!=', '<', '<=', '>', '>=']
CMPNAME = {'==': 'eq', '!=': 'ne', '<': 'lt', '<=': 'le', '>': 'gt', '>=': 'ge'}


def arith(types=INTS, ops=ARITH_OPS, consumers=('local', 'cmp', 'widen', 'div', 'eq')):
    out = []
    for ty in types:
        a, b = Var('a', ty), Var('b', ty)
        head = [Let('a', ty, Cast(X, ty)), Let('b', ty, Cast(Y, ty))]
        for op in ops:
            e = Bin(op, a, b)
            for c in consumers:
                if c == 'local':
                    body = head + [Let('r', ty, e), Return(Cast(Var('r', ty), I64))]
                elif c == 'cmp':
                    body = head + [If(Cmp('>', e, Lit(0, ty)), [Return(Lit(1, I64))]), Return(Lit(0, I64))]
                elif c == 'widen':
                    body = head + [Let('r', I64, Cast(e, I64)), Return(Var('r', I64))]
                elif c == 'div':
                    body = head + [Let('r', ty, Bin('/', e, Lit(2, ty))), Return(Cast(Var('r', ty), I64))]
                elif c == 'eq':
                    body = head + [If(Cmp('==', e, b), [Return(Lit(1, I64))]), Return(Lit(0, I64))]
                pre = div_pre(ty) if op in '/%' else None
                regions = {}
                if ty.bits < 32 and op in '+-*':
                    regions['narrow_overflow'] = overflow_region(op, ty)
                out.append(Template('arith/%s/%s/%s' % (OPNAME[op], ty.name, c), fn2(body), pre=pre, family='arith', regions=regions))
    return out


def arithlit(types=INTS, tier='quick'):
    """`a op LITERAL` and `LITERAL op a`: the shapes instruction selection likes to specialise (powers of two, +-1, 3, 10)."""
    out = []
    lits = {'+': [1], '-': [1], '*': [3, 8], '/': [2, 8, 3, -1], '%': [2, 8, 3, 10, -4]}
    for ty in types:
        a = Var('a', ty)
        head = [Let('a', ty, Cast(X, ty))]
        for op, ls in lits.items():
            for k in ls:
                if k < 0 and not ty.signed:
                    continue
                pre = None
                if op in '/%' and k == -1:
                    pre = (lambda ty: lambda args: narrow(args[0], ty) != z3.BitVecVal(1 << (ty.bits - 1), ty.bits))(ty)
                kn = ('m%d' % -k) if k < 0 else str(k)
                body = head + [Let('r', ty, Bin(op, a, Lit(k, ty))), Return(Cast(Var('r', ty), I64))]
                out.append(Template('arithlit/%s/%s/r%s' % (OPNAME[op], ty.name, kn), fn1(body), pre=pre, family='arithlit'))
                if tier != 'quick' or op in '-/%':
                    pre2 = (lambda ty: lambda args: narrow(args[0], ty) != 0)(ty) if op in '/%' else None
                    if op in '/%' and ty.signed and k < 0:
                        continue
                    body = head + [Let('r', ty, Bin(op, Lit(k if k > 0 else -k, ty), a)), Return(Cast(Var('r', ty), I64))]
                    if op in '/%' and ty.signed:
                        # LIT / a with a = -1 cannot overflow for a positive literal; only a = 0 is excluded
                        pass
                    out.append(Template('arithlit/%s/%s/l%s' % (OPNAME[op], ty.name, kn), fn1(body), pre=pre2, family='arithlit'))
    return out


def compare(types=INTS):
    out = []
    for ty in types:
        a, b = Var('a', ty), Var('b', ty)
        head = [Let('a', ty, Cast(X, ty)), Let('b', ty, Cast(Y, ty))]
        for op in CMP_OPS:
            body = head + [If(Cmp(op, a, b), [Return(Lit(1, I64))], [Return(Lit(0, I64))])]
            out.append(Template('cmp/%s/%s' % (CMPNAME[op], ty.name), fn2(body), family='cmp'))
            # comparison result as a bool value stored in a local, then branched on
            body = head + [Let('c', BOOL, Cmp(op, a, b)), If(Var('c', BOOL), [Return(Lit(7, I64))]), Return(Lit(3, I64))]
            out.append(Template('cmpv/%s/%s' % (CMPNAME[op], ty.name), fn2(body), family='cmp'))
    return out


def casts(types=INTS):
    out = []
    for s in types:
        for d in types:
            body = [Let('a', s, Cast(X, s)), Let('r', d, Cast(Var('a', s), d)), Return(Cast(Var('r', d), I64))]
            out.append(Template('cast/%s/%s' % (s.name, d.name), fn1(body), family='cast'))
    return out


def unary(types=INTS):
    out = []
    for ty in types:
        a = Var('a', ty)
        if ty.signed:
            body = [Let('a', ty, Cast(X, ty)), Let('r', ty, Neg(a)), Return(Cast(Var('r', ty), I64))]
            out.append(Template('unary/neg/%s' % ty.name, fn1(body), family='unary'))
        for op in ('+', '-', '*'):
            body = [Let('a', ty, Cast(X, ty)), OpAssign(a, op, Cast(Y, ty)), Return(Cast(a, I64))]
            regions = {}
            if ty.bits < 32:
                regions['narrow_overflow'] = overflow_region(op, ty)
            out.append(Template('unary/opassign_%s/%s' % (OPNAME[op], ty.name), fn2(body), family='unary', regions=regions))
        for op in ('++', '--'):
            body = [Let('a', ty, Cast(X, ty)), IncDec(a, op), Return(Cast(a, I64))]
            out.append(Template('unary/%s/%s' % ('inc' if op == '++' else 'dec', ty.name), fn1(body), family='unary'))
            body = [Let('a', ty, Cast(X, ty)), IncDec(a, op), If(Cmp('>', a, Lit(0, ty)), [Return(Lit(1, I64))]), Return(Lit(0, I64))]
            out.append(Template('unary/%s_cmp/%s' % ('inc' if op == '++' else 'dec', ty.name), fn1(body), family='unary'))
    return out


def control():
    out = []
    ty = I32
    a = Var('a', ty)
    # if / else-if / else chain
    body = [Let('a', ty, Cast(X, ty)),
            If(Cmp('<', a, Lit(0, ty)), [Return(Lit(1, I64))],
               If(Cmp('==', a, Lit(0, ty)), [Return(Lit(2, I64))],
                  If(Cmp('<', a, Lit(100, ty)), [Return(Lit(3, I64))], [Return(Lit(4, I64))])))]
    out.append(Template('ctl/elseif', fn1(body), family='control'))
    # logical operators with short-circuit
    for op in ('&&', '||'):
        body = [If(Logic(op, Cmp('>', X, Lit(5, I64)), Cmp('<', Y, Lit(9, I64))), [Return(Lit(1, I64))]), Return(Lit(0, I64))]
        out.append(Template('ctl/logic_%s' % ('and' if op == '&&' else 'or'), fn2(body), family='control'))
    body = [If(Not(Cmp('>', X, Y)), [Return(Lit(1, I64))]), Return(Lit(0, I64))]
    out.append(Template('ctl/not', fn2(body), family='control'))
    # while with accumulate, break, continue; trip count <= 3
    s, i = Var('s', I64), Var('i', I64)
    pre3 = lambda args: z3.And(args[0] >= 0, args[0] <= 3)
    body = [Let('s', I64, Lit(0, I64)), Let('i', I64, Lit(0, I64)),
            While(Cmp('<', i, X), [OpAssign(s, '+', Bin('*', i, Y)), IncDec(i, '++')]), Return(s)]
    out.append(Template('ctl/while_sum', fn2(body), pre=pre3, family='control'))
    body = [Let('s', I64, Lit(0, I64)), Let('i', I64, Lit(0, I64)),
            While(Cmp('<', i, X), [IncDec(i, '++'), If(Cmp('==', i, Y), [Continue()]), If(Cmp('==', i, Z), [Break()]), OpAssign(s, '+', i)]), Return(s)]
    out.append(Template('ctl/while_break_continue', fn3(body), pre=pre3, family='control'))
    body = [Let('i', I64, Lit(0, I64)), While(Lit(True, BOOL), [If(Cmp('>=', i, X), [Return(Bin('+', i, Y))]), IncDec(i, '++')]), Return(Lit(-1, I64))]
    out.append(Template('ctl/while_true_return', fn2(body), pre=pre3, family='control'))
    # nested while
    j = Var('j', I64)
    pre2 = lambda args: z3.And(args[0] >= 0, args[0] <= 2, args[1] >= 0, args[1] <= 2)
    body = [Let('s', I64, Lit(0, I64)), Let('i', I64, Lit(0, I64)),
            While(Cmp('<', i, X), [Let('j', I64, Lit(0, I64)), While(Cmp('<', j, Y), [OpAssign(s, '+', Bin('+', i, j)), IncDec(j, '++')]), IncDec(i, '++')]), Return(s)]
    out.append(Template('ctl/while_nested', fn2(body), pre=pre2, family='control', unroll=8))
    # match on int with default
    body = [Match(X, [(Lit(1, I64), [Return(Lit(10, I64))]), (Lit(2, I64), [Return(Lit(20, I64))]), (Lit(-3, I64), [Return(Y)]), (None, [Return(Lit(0, I64))])])]
    out.append(Template('ctl/match_int', fn2(body), family='control'))
    body = [Let('r', I64, Lit(5, I64)), Match(Cast(X, I32), [(Lit(1, I32), [Assign(Var('r', I64), Lit(10, I64))]), (Lit(70000, I32), [Assign(Var('r', I64), Y)]), (None, [])]), Return(Var('r', I64))]
    out.append(Template('ctl/match_fallthrough', fn2(body), family='control'))
    # for-in over dynamic array
    arr = Var('arr', DynT(I64))
    body = [Let('arr', DynT(I64), ArrLit(DynT(I64), [X, Y, Lit(3, I64)])), Let('s', I64, Lit(0, I64)),
            ForIn('i', 'v', arr, [OpAssign(s, '+', Var('v', I64))]), Return(s)]
    out.append(Template('ctl/forin_sum', fn2(body), family='control', unroll=5))
    body = [Let('arr', DynT(I64), ArrLit(DynT(I64), [X, Y, Lit(3, I64)])), Let('s', I64, Lit(0, I64)),
            ForIn('i', 'v', arr, [If(Cmp('==', Var('v', I64), Lit(7, I64)), [Break()]), OpAssign(s, '+', Bin('*', Var('v', I64), Cast(Var('i', I32), I64)))]), Return(s)]
    out.append(Template('ctl/forin_break_index', fn2(body), family='control', unroll=5))
    # calls and recursion
    g = Func('g', [('p', I64), ('q', I64)], I64, [If(Cmp('>', Var('p', I64), Var('q', I64)), [Return(Bin('-', Var('p', I64), Var('q', I64)))]), Return(Bin('-', Var('q', I64), Var('p', I64)))])
    body = [Return(Bin('+', Call('g', [X, Y], I64), Call('g', [Y, X], I64)))]
    out.append(Template('ctl/call', fn2(body, extra=[g]), family='control'))
    fact = Func('f', [('n', I64)], I64, [If(Cmp('<=', Var('n', I64), Lit(0, I64)), [Return(Lit(1, I64))]), Return(Bin('*', Var('n', I64), Call('f', [Bin('-', Var('n', I64), Lit(1, I64))], I64)))])
    body = [Return(Call('f', [X], I64))]
    out.append(Template('ctl/recursion', fn1(body, extra=[fact]), pre=lambda a: z3.And(a[0] >= -2, a[0] <= 3), family='control'))
    # left-to-right evaluation with side effects through a reference parameter
    return out


P3 = StructT('P3', [('A', I32), ('B', I64), ('C', I8)])
IN = StructT('Inner', [('U', I16), ('V', I64)])
OUTR = StructT('Outer', [('H', I8), ('In', IN), ('T', I32)])


def composites():
    out = []
    p, q = Var('p', P3), Var('q', P3)
    mk = StructLit(P3, {'A': Cast(X, I32), 'B': Y, 'C': Cast(Z, I8)})
    # copy then mutate original: copy unchanged
    for fld, ty in P3.fields:
        body = [Let('p', P3, mk), Let('q', P3, p), Assign(Field(p, fld), Lit(9, ty)),
                Let('r', ty, Field(q, fld)), Return(Cast(Var('r', ty), I64))]
        out.append(Template('comp/struct_copy_mut_orig/%s' % fld, fn3(body, types=[P3]), family='composite'))
        body = [Let('p', P3, mk), Let('q', P3, p), Assign(Field(q, fld), Lit(9, ty)),
                Let('r', ty, Field(p, fld)), Return(Cast(Var('r', ty), I64))]
        out.append(Template('comp/struct_copy_mut_copy/%s' % fld, fn3(body, types=[P3]), family='composite'))
    # struct passed by value to a function that mutates its parameter copy
    m = Func('m', [('s', P3)], I64, [Assign(Field(Var('s', P3), 'B'), Lit(77, I64)), Return(Field(Var('s', P3), 'B'))])
    body = [Let('p', P3, mk), Let('k', I64, Call('m', [p], I64)), Return(Bin('+', Field(p, 'B'), Var('k', I64)))]
    out.append(Template('comp/struct_byvalue_arg', fn3(body, types=[P3], extra=[m]), family='composite'))
    # struct returned by value
    mkf = Func('mk', [('a', I64), ('b', I64)], P3, [Return(StructLit(P3, {'A': Cast(Var('a', I64), I32), 'B': Var('b', I64), 'C': Lit(5, I8)}))])
    body = [Let('p', P3, Call('mk', [X, Y], P3)), Return(Bin('+', Field(p, 'B'), Cast(Field(p, 'A'), I64)))]
    out.append(Template('comp/struct_return', fn2(body, types=[P3], extra=[mkf]), family='composite'))
    # nested struct
    o = Var('o', OUTR)
    mko = StructLit(OUTR, {'H': Cast(X, I8), 'In': StructLit(IN, {'U': Cast(Y, I16), 'V': Z}), 'T': Lit(11, I32)})
    body = [Let('o', OUTR, mko), Let('c', OUTR, o), Assign(Field(Field(o, 'In'), 'V'), Lit(1, I64)),
            Return(Bin('+', Field(Field(Var('c', OUTR), 'In'), 'V'), Cast(Field(Field(Var('c', OUTR), 'In'), 'U'), I64)))]
    out.append(Template('comp/nested_copy', fn3(body, types=[IN, OUTR]), family='composite'))
    # fixed array copy
    A3 = ArrT(3, I32)
    a, b = Var('a', A3), Var('b', A3)
    body = [Let('a', A3, ArrLit(A3, [Cast(X, I32), Cast(Y, I32), Lit(3, I32)])), Let('b', A3, a), Assign(Index(a, Lit(1, I32)), Lit(50, I32)),
            Let('r', I32, Index(b, Lit(1, I32))), Return(Cast(Var('r', I32), I64))]
    out.append(Template('comp/fixedarr_copy', fn2(body), family='composite'))
    body = [Let('a', A3, ArrLit(A3, [Cast(X, I32), Cast(Y, I32), Lit(3, I32)])), Assign(Index(a, Lit(-1, I32)), Lit(50, I32)),
            Let('r', I32, Index(a, Lit(2, I32))), Let('r2', I32, Index(a, Lit(-3, I32))), Return(Bin('+', Cast(Var('r', I32), I64), Cast(Var('r2', I32), I64)))]
    out.append(Template('comp/fixedarr_negidx', fn2(body), family='composite'))
    return out


def refs():
    out = []
    # local mutable reference: write-through and read-through
    a = Var('a', I32)
    m = Var('m', RefT(I32, True))
    body = [Let('a', I32, Cast(X, I32)), Let('m', RefT(I32, True), AddrOf(a, True)), Assign(m, Cast(Y, I32)), Return(Cast(a, I64))]
    out.append(Template('ref/local_write_through', fn2(body), family='ref'))
    r = Var('r', RefT(I32, False))
    body = [Let('a', I32, Cast(X, I32)), Let('r', RefT(I32, False), AddrOf(a, False)), Let('v', I32, r), Return(Cast(Var('v', I32), I64))]
    out.append(Template('ref/local_read_through', fn1(body), family='ref'))
    # reference parameter
    setf = Func('setv', [('r', RefT(I64, True)), ('v', I64)], VOID, [Assign(Var('r', RefT(I64, True)), Var('v', I64))])
    body = [Let('a', I64, X), ExprStmt(Call('setv', [AddrOf(Var('a', I64), True), Y], VOID)), Return(Var('a', I64))]
    out.append(Template('ref/param_write', fn2(body, extra=[setf]), family='ref'))
    getf = Func('getv', [('r', RefT(I64, False))], I64, [Return(Var('r', RefT(I64, False)))])
    body = [Let('a', I64, X), Return(Call('getv', [AddrOf(Var('a', I64), False)], I64))]
    out.append(Template('ref/param_read', fn1(body, extra=[getf]), family='ref'))
    # field borrow, disjoint fields
    p = Var('p', P3)
    mk = StructLit(P3, {'A': Cast(X, I32), 'B': Y, 'C': Lit(1, I8)})
    body = [Let('p', P3, mk), Let('rb', RefT(I64, True), AddrOf(Field(p, 'B'), True)), Assign(Var('rb', RefT(I64, True)), Lit(5, I64)),
            Return(Bin('+', Field(p, 'B'), Cast(Field(p, 'A'), I64)))]
    out.append(Template('ref/field_borrow', fn2(body, types=[P3]), family='ref'))
    # method with &' receiver and & receiver
    CT = StructT('Counter', [('Value', I32)])
    inc = Func('inc', [], VOID, [IncDec(Field(Var('c', RefT(CT, True)), 'Value'), '++')], recv=('c', RefT(CT, True)))
    get = Func('get', [], I32, [Return(Field(Var('c', RefT(CT, False)), 'Value'))], recv=('c', RefT(CT, False)))
    c = Var('c', CT)
    body = [Let('c', CT, StructLit(CT, {'Value': Cast(X, I32)})), ExprStmt(MethodCall(c, 'inc', [], VOID)), ExprStmt(MethodCall(c, 'inc', [], VOID)),
            Let('r', I32, MethodCall(c, 'get', [], I32)), Return(Cast(Var('r', I32), I64))]
    out.append(Template('ref/method_receiver', fn1(body, types=[CT], extra=[inc, get]), family='ref'))
    return out


def c01_quick():
    return (arith(consumers=('local', 'cmp', 'widen')) + arithlit(tier='quick') + compare() + casts() + unary() + control() + composites() + refs() + lang2() + castuse('quick') + litforms('quick'))


def c01_thorough():
    return (arith() + arithlit(tier='thorough') + compare() + casts() + unary() + control() + composites() + refs() + lang2() + castuse('thorough') + litforms('thorough'))


# ------------------------------------------------------------------------------------------------ C04 fixed arrays
def _weights_sum(arr, n, ety):
    """return a[0] + 10*a[1] + 100*a[2] ... as i64 (observes every element)."""
    e = None
    for k in range(n):
        term = Cast(Index(arr, Lit(k, I32)), I64)
        if k:
            # small weights beyond the third element: 64-bit products with 10^3, 10^4 ... make the queries of the
            # five-element i64 arrays undecidable in practice; distinct small odd weights still tell the elements apart
            term = Bin('*', term, Lit(10 ** k if k < 3 else (3, 7, 11, 13, 17)[k - 3], I64))
        e = term if e is None else Bin('+', e, term)
    return e


def c04(tier='quick'):
    out = []
    ns = (1, 3) if tier == 'quick' else (1, 2, 3, 5)
    etys = (I32, I64) if tier == 'quick' else (I8, I32, I64)
    for n in ns:
        for ety in etys:
            AT = ArrT(n, ety)
            a = Var('a', AT)
            elems = [Cast(X, ety), Cast(Y, ety), Lit(3, ety), Lit(4, ety), Cast(Bin('+', X, Y), ety)][:n]
            mk = Let('a', AT, ArrLit(AT, elems))
            tag = 'n%d/%s' % (n, ety.name)

            def rd(idx_expr):
                return [Let('r', ety, Index(a, idx_expr)), Return(Cast(Var('r', ety), I64))]
            # (i) literal indices, in range and just outside
            for k in list(range(-n, n)) + [n, -n - 1]:
                out.append(Template('c04/lit_read/%s/%d' % (tag, k), fn3([mk] + rd(Lit(k, I32))), family='c04-literal', expect='any'))
                body = [mk, Assign(Index(a, Lit(k, I32)), Cast(Z, ety)), Return(_weights_sum(a, n, ety))]
                out.append(Template('c04/lit_write/%s/%d' % (tag, k), fn3(body), family='c04-literal', expect='any'))
            if n < 2:
                continue
            # (ii) const index
            for k in (n - 1, -1):
                body = [Let('K', I32, Lit(k, I32), const=True), mk] + rd(Var('K', I32))
                out.append(Template('c04/const_read/%s/%d' % (tag, k), fn3(body), family='c04-const', expect='any'))
            # (iii) let never reassigned
            for k in (1, -n):
                body = [Let('i', I32, Lit(k, I32)), mk] + rd(Var('i', I32))
                out.append(Template('c04/let_read/%s/%d' % (tag, k), fn3(body), family='c04-let', expect='any'))
                body = [Let('i', I32, Lit(k, I32)), mk, Assign(Index(a, Var('i', I32)), Cast(Z, ety)), Return(_weights_sum(a, n, ety))]
                out.append(Template('c04/let_write/%s/%d' % (tag, k), fn3(body), family='c04-let', expect='any'))
            # (iv) reassigned under a branch whose condition is a parameter
            for k0, k1 in ((0, n - 1), (-1, 0), (1, n)):
                body = [Let('i', I32, Lit(k0, I32)), mk, If(Cmp('>', Z, Lit(0, I64)), [Assign(Var('i', I32), Lit(k1, I32))])] + rd(Var('i', I32))
                out.append(Template('c04/branch_read/%s/%d_%d' % (tag, k0, k1), fn3(body), family='c04-branch', expect='any'))
                body = [Let('i', I32, Lit(k0, I32)), mk, If(Cmp('>', Z, Lit(0, I64)), [Assign(Var('i', I32), Lit(k1, I32))]),
                        Assign(Index(a, Var('i', I32)), Lit(77, ety)), Return(_weights_sum(a, n, ety))]
                out.append(Template('c04/branch_write/%s/%d_%d' % (tag, k0, k1), fn3(body), family='c04-branch', expect='any'))
            # (v) loop-carried index
            for step in ('assign', 'inc'):
                stepst = Assign(Var('i', I32), Bin('+', Var('i', I32), Lit(1, I32))) if step == 'assign' else IncDec(Var('i', I32), '++')
                body = [mk, Let('s', I64, Lit(0, I64)), Let('i', I32, Lit(0, I32)),
                        While(Cmp('<', Var('i', I32), Lit(n, I32)), [OpAssign(Var('s', I64), '+', (Bin('*', Cast(Index(a, Var('i', I32)), I64), Cast(Bin('+', Var('i', I32), Lit(1, I32)), I64)) if n <= 3 else Bin('-', Cast(Index(a, Var('i', I32)), I64), Cast(Var('i', I32), I64)))), stepst]),
                        Return(Var('s', I64))]
                out.append(Template('c04/loop_read/%s/%s' % (tag, step), fn3(body), family='c04-loop', expect='any', unroll=n + 2))
                body = [mk, Let('i', I32, Lit(0, I32)),
                        While(Cmp('<', Var('i', I32), Lit(n, I32)), [Assign(Index(a, Var('i', I32)), Cast(Z, ety)), stepst]),
                        Return(_weights_sum(a, n, ety))]
                out.append(Template('c04/loop_write/%s/%s' % (tag, step), fn3(body), family='c04-loop', expect='any', unroll=n + 2))
                # loop that runs one past the end: must be rejected or panic
                body = [mk, Let('i', I32, Lit(0, I32)),
                        While(Cmp('<=', Var('i', I32), Lit(n, I32)), [Assign(Index(a, Var('i', I32)), Cast(Z, ety)), stepst]),
                        Return(_weights_sum(a, n, ety))]
                out.append(Template('c04/loop_write_oob/%s/%s' % (tag, step), fn3(body), family='c04-loop', expect='any', unroll=n + 3))
                # loops that count DOWN through the negative indices: -1 .. -n are valid, -(n+1) must be rejected or panic
                downst = Assign(Var('i', I32), Bin('-', Var('i', I32), Lit(1, I32))) if step == 'assign' else IncDec(Var('i', I32), '--')
                body = [mk, Let('i', I32, Lit(-1, I32)),
                        While(Cmp('>=', Var('i', I32), Lit(-n, I32)), [Assign(Index(a, Var('i', I32)), Cast(Z, ety)), downst]),
                        Return(_weights_sum(a, n, ety))]
                out.append(Template('c04/loop_write_down/%s/%s' % (tag, step), fn3(body), family='c04-loop', expect='any', unroll=n + 2))
                body = [Let('g', I64, Lit(5, I64)), mk, Let('h', I64, Lit(6, I64)), Let('i', I32, Lit(0, I32)),
                        While(Cmp('>=', Var('i', I32), Lit(-n - 1, I32)), [Assign(Index(a, Var('i', I32)), Cast(Z, ety)), downst]),
                        Return(Bin('+', _weights_sum(a, n, ety), Bin('+', Var('g', I64), Var('h', I64))))]
                out.append(Template('c04/loop_write_oob_down/%s/%s' % (tag, step), fn3(body), family='c04-loop', expect='any', unroll=n + 4))
            # constant *expressions* as indices: the element selected must be the one the run-time value of the
            # expression selects (truncating / and %)
            if n >= 3:
                ce = {'negrem': Bin('+', Bin('%', Bin('-', Lit(0, I32), Lit(7, I32)), Lit(3, I32)), Lit(2, I32)),     # -1+2 = 1
                      'negdiv': Bin('+', Bin('/', Bin('-', Lit(0, I32), Lit(7, I32)), Lit(2, I32)), Lit(4, I32)),     # -3+4 = 1
                      'negrem_rev': Bin('%', Bin('-', Lit(0, I32), Lit(7, I32)), Lit(3, I32)),                          # -1
                      'mul': Bin('-', Bin('*', Lit(2, I32), Lit(3, I32)), Lit(5, I32))}                                 # 1
                for cn, cx in ce.items():
                    out.append(Template('c04/constexpr_read/%s/%s' % (tag, cn), fn3([mk] + rd(cx)), family='c04-constexpr', expect='any'))
                    body = [Let('k', I32, cx), mk] + rd(Var('k', I32))
                    out.append(Template('c04/constexpr_let_read/%s/%s' % (tag, cn), fn3(body), family='c04-constexpr', expect='any'))
            # casts inside a constant index: the index is the VALUE of the cast (an unsigned cast of a negative constant is
            # large, a narrowing cast wraps), whether the cast sits in the index or in the initialiser of a local
            if n >= 3:
                for cn, (m, ut) in {'neg1_u8': (-1, U8), 'neg1_u16': (-1, U16), 'neg2_u32': (-2, U32), 'pos1_u8': (1, U8), 'wrap257_i8': (257, I8), 'wrap255_i8': (255, I8)}.items():
                    body = [Let('m', I32, Lit(m, I32), const=True), mk] + rd(Cast(Var('m', I32), ut))
                    out.append(Template('c04/cast_read/%s/const_%s' % (tag, cn), fn3(body), family='c04-cast', expect='any'))
                    body = [Let('m', I32, Lit(m, I32)), mk] + rd(Cast(Var('m', I32), ut))
                    out.append(Template('c04/cast_read/%s/let_%s' % (tag, cn), fn3(body), family='c04-cast', expect='any'))
                    body = [Let('m', I32, Lit(m, I32)), Let('j', ut, Cast(Var('m', I32), ut)), mk] + rd(Var('j', ut))
                    out.append(Template('c04/cast_read/%s/letbound_%s' % (tag, cn), fn3(body), family='c04-cast', expect='any'))
                    body = [Let('m', I32, Lit(m, I32)), mk, Assign(Index(a, Cast(Var('m', I32), ut)), Cast(Z, ety)), Return(_weights_sum(a, n, ety))]
                    out.append(Template('c04/cast_write/%s/let_%s' % (tag, cn), fn3(body), family='c04-cast', expect='any'))
            # index computed from a parameter (opaque): must be rejected or bounds-checked
            body = [mk] + rd(Cast(Z, I32))
            out.append(Template('c04/param_read/%s' % tag, fn3(body), family='c04-param', expect='any'))
            body = [mk, Assign(Index(a, Cast(Z, I32)), Lit(77, ety)), Return(_weights_sum(a, n, ety))]
            out.append(Template('c04/param_write/%s' % tag, fn3(body), family='c04-param', expect='any'))
    return out


# ------------------------------------------------------------------------------------------------ C08 dynamic arrays / strings
def wide_index_region(ity, maxlen):
    """Index values that do not survive the narrowing to i32 the compiler performs before its bounds check AND whose
    narrowed value lands on an element (in [-maxlen, maxlen)): exactly the inputs on which D5 shows (an out-of-range
    index aliases an element instead of panicking).  Outside this set the narrowed index is out of range too and the
    program panics as it must, so the obligation is re-asked there."""
    def f(args):
        z = args[2]
        low = z3.Extract(31, 0, z)
        lands = z3.And(low >= z3.BitVecVal(-maxlen, 32), low < z3.BitVecVal(maxlen, 32))
        if ity.bits == 64 and ity.signed:
            return z3.And(z3.SignExt(32, low) != z, lands)
        if ity.bits == 64:
            return z3.And(z3.UGE(z, z3.BitVecVal(1 << 31, 64)), lands)
        if ity.bits == 32 and not ity.signed:
            return z3.And(z3.UGE(low, z3.BitVecVal(1 << 31, 32)), lands)
        return z3.BoolVal(False)
    return f


def c08(tier='quick'):
    out = []
    itys = (I8, I32, I64, U8, U32) if tier == 'quick' else (I8, I16, I32, I64, U8, U32, U64)
    etys = (I32,) if tier == 'quick' else (I32, I64, I8)
    for ety in etys:
        DT = DynT(ety)
        a = Var('a', DT)
        for m in (0, 1, 3):
            for p in ((0, 1) if tier == 'quick' else (0, 1, 2)):
                if m == 0 and p == 0:
                    continue
                elems = [Cast(X, ety), Lit(20, ety), Lit(30, ety)][:m]
                pre = [Let('a', DT, ArrLit(DT, elems))] + [Append(a, Lit(40 + k, ety)) for k in range(p)]
                n = m + p
                for ity in itys:
                    idx = Cast(Z, ity) if ity != I64 else Z
                    tag = '%s/m%d_p%d/%s' % (ety.name, m, p, ity.name)
                    body = pre + [Let('r', ety, Index(a, idx)), Return(Cast(Var('r', ety), I64))]
                    reg = {'index_beyond_i32': wide_index_region(ity, n)} if ity.name in ('i64', 'u64', 'u32') else {}
                    out.append(Template('c08/read/' + tag, fn3(body), family='c08-opaque-index', regions=reg))
                    body = pre + [Assign(Index(a, idx), Cast(Y, ety)), Let('r', ety, Index(a, Lit(n - 1, I32))), Return(Cast(Var('r', ety), I64))]
                    out.append(Template('c08/write/' + tag, fn3(body), family='c08-opaque-index', regions=reg))
                # literal in-range indices (including positions that exist only because of appends) must compile
                for k in sorted({0, n - 1, -1, -n}):
                    body = pre + [Let('r', ety, Index(a, Lit(k, I32))), Return(Cast(Var('r', ety), I64))]
                    out.append(Template('c08/lit_read/%s/m%d_p%d/%d' % (ety.name, m, p, k), fn3(body), family='c08-literal-index'))
                    body = pre + [Let('i', I32, Lit(k, I32)), Assign(Index(a, Var('i', I32)), Cast(Y, ety)), Let('r', ety, Index(a, Var('i', I32))), Return(Cast(Var('r', ety), I64))]
                    out.append(Template('c08/let_write/%s/m%d_p%d/%d' % (ety.name, m, p, k), fn3(body), family='c08-literal-index'))
                # literal out-of-range index: rejected or panics
                for k in (n, -n - 1):
                    body = pre + [Let('r', ety, Index(a, Lit(k, I32))), Return(Cast(Var('r', ety), I64))]
                    out.append(Template('c08/lit_oob/%s/m%d_p%d/%d' % (ety.name, m, p, k), fn3(body), family='c08-literal-index', expect='any'))
    # appends executed in a loop: the run-time length is literal length + trip count, not + number of append sites
    DT = DynT(I32)
    a = Var('a', DT)
    for trips in (2, 3):
        n = 3 + trips
        loop = [Let('a', DT, ArrLit(DT, [Cast(X, I32), Lit(20, I32), Lit(30, I32)])), Let('i', I32, Lit(0, I32)),
                While(Cmp('<', Var('i', I32), Lit(trips, I32)), [Append(a, Bin('+', Lit(100, I32), Var('i', I32))), IncDec(Var('i', I32), '++')])]
        for k in sorted({n - 1, -n, 3}):
            body = loop + [Let('r', I32, Index(a, Lit(k, I32))), Return(Cast(Var('r', I32), I64))]
            out.append(Template('c08/loop_append_lit_read/t%d/%d' % (trips, k), fn3(body), family='c08-loop-append', unroll=trips + 2))
        body = loop + [Assign(Index(a, Lit(n - 1, I32)), Cast(Y, I32)), Let('r', I32, Index(a, Lit(-1, I32))), Return(Cast(Var('r', I32), I64))]
        out.append(Template('c08/loop_append_lit_write/t%d' % trips, fn3(body), family='c08-loop-append', unroll=trips + 2))
        body = loop + [Let('r', I32, Index(a, Cast(Z, I32))), Return(Cast(Var('r', I32), I64))]
        out.append(Template('c08/loop_append_read/t%d' % trips, fn3(body), family='c08-loop-append', unroll=trips + 2))
        body = loop + [Let('r', I32, Index(a, Lit(n, I32))), Return(Cast(Var('r', I32), I64))]
        out.append(Template('c08/loop_append_lit_oob/t%d' % trips, fn3(body), family='c08-loop-append', expect='any', unroll=trips + 2))
    # print before panic: the line must be part of the trace before the panic event
    DT = DynT(I32)
    a = Var('a', DT)
    body = [Let('a', DT, ArrLit(DT, [Cast(X, I32), Lit(2, I32)])), Print(Y), Let('r', I32, Index(a, Cast(Z, I32))), Return(Cast(Var('r', I32), I64))]
    out.append(Template('c08/print_then_index', fn3(body), family='c08-print'))
    # string variables whose contents (and length) change: later reassignment, reassignment under a branch
    sv = Var('s', STR)
    for ity in itys:
        idx = Cast(Z, ity) if ity != I64 else Z
        reg = {'index_beyond_i32': wide_index_region(ity, 12)} if ity.name in ('i64', 'u64', 'u32') else {}
        for first, second in (('hi', 'hello, world'), ('hello, world', 'hi')):
            tag = '%d_%d/%s' % (len(first), len(second), ity.name)
            body = [Let('s', STR, StrLit(first)), Let('c', BYTE, Index(sv, idx)), Assign(sv, StrLit(second)),
                    Let('d', BYTE, Index(sv, Lit(0, I32))), Return(Bin('+', Cast(Var('c', BYTE), I64), Bin('*', Cast(Var('d', BYTE), I64), Lit(1000, I64))))]
            out.append(Template('c08/str_reassign_later/' + tag, fn3(body), family='c08-string', regions=reg))
            body = [Let('s', STR, StrLit(first)), If(Cmp('>', Y, Lit(0, I64)), [Assign(sv, StrLit(second))]),
                    Let('c', BYTE, Index(sv, idx)), Return(Cast(Var('c', BYTE), I64))]
            out.append(Template('c08/str_reassign_branch/' + tag, fn3(body), family='c08-string', regions=reg))
    # dynamic arrays re-bound to a literal of a different length
    DT = DynT(I32)
    a = Var('a', DT)
    for l1, l2 in ((1, 3), (3, 1)):
        e1 = [Lit(10 + k, I32) for k in range(l1)]
        e2 = [Lit(20 + k, I32) for k in range(l2)]
        body = [Let('a', DT, ArrLit(DT, e1)), Let('r', I32, Index(a, Cast(Z, I32))), Assign(a, ArrLit(DT, e2)),
                Let('q', I32, Index(a, Lit(0, I32))), Return(Bin('+', Cast(Var('r', I32), I64), Bin('*', Cast(Var('q', I32), I64), Lit(1000, I64))))]
        out.append(Template('c08/arr_rebind_later/%d_%d' % (l1, l2), fn3(body), family='c08-rebind'))
    # strings
    for s in ('hello', 'a'):
        for ity in itys:
            idx = Cast(Z, ity) if ity != I64 else Z
            body = [Let('s', STR, StrLit(s)), Let('c', BYTE, Index(Var('s', STR), idx)), Return(Cast(Var('c', BYTE), I64))]
            reg = {'index_beyond_i32': wide_index_region(ity, len(s))} if ity.name in ('i64', 'u64', 'u32') else {}
            out.append(Template('c08/str_read/%d/%s' % (len(s), ity.name), fn3(body), family='c08-string', regions=reg))
    return out


# ------------------------------------------------------------------------------------------------ C18 layout
def _struct_pool(tier):
    IN2 = StructT('In2', [('P', I8), ('Q', I64)])
    pool = [
        StructT('S0', [('A', I8), ('B', I64)]),
        StructT('S1', [('A', I64), ('B', I8), ('C', I16)]),
        StructT('S2', [('A', I8), ('B', I16), ('C', I32), ('D', I64)]),
        StructT('S3', [('A', I32), ('B', U8), ('C', U8), ('D', I16)]),
        StructT('S4', [('A', BOOL), ('B', I64), ('C', BOOL)]),
        StructT('S5', [('A', I16), ('N', IN2), ('Z', I8)]),
        StructT('S6', [('A', U8), ('R', ArrT(2, I32)), ('Z', I16)]),
    ]
    if tier != 'quick':
        pool += [
            StructT('S7', [('A', I8), ('B', I8), ('C', I8), ('D', I64)]),
            StructT('S8', [('N', IN2), ('M', IN2)]),
            StructT('S9', [('R', ArrT(3, I8)), ('B', I32)]),
            StructT('S10', [('A', U16), ('B', U32), ('C', U64), ('D', U8)]),
        ]
    return pool, IN2


def _leaves(ty, base, path=()):
    """(place_expr, leaf_ty) for every scalar component of a value of type ty rooted at expression base."""
    if isinstance(ty, StructT):
        out = []
        for f, ft in ty.fields:
            out += _leaves(ft, Field(base, f))
        return out
    if isinstance(ty, ArrT):
        out = []
        for k in range(ty.n):
            out += _leaves(ty.elem, Index(base, Lit(k, I32)))
        return out
    return [(base, ty)]


def _init_expr(ty, k):
    """Initial value of leaf k: a distinct symbolic value derived from parameter z."""
    if isinstance(ty, BoolT):
        return Cmp('>', Bin('+', Z, Lit(k, I64)), Lit(0, I64))
    return Cast(Bin('+', Z, Lit(k * 37 + 1, I64)), ty)


def _mk_value(ty, counter):
    if isinstance(ty, StructT):
        return StructLit(ty, {f: _mk_value(ft, counter) for f, ft in ty.fields})
    if isinstance(ty, ArrT):
        return ArrLit(ty, [_mk_value(ty.elem, counter) for _ in range(ty.n)])
    counter[0] += 1
    return _init_expr(ty, counter[0])


def _as_i64(e, ty):
    if isinstance(ty, BoolT):
        return None
    return Cast(e, I64)


def c18(tier='quick'):
    out = []
    pool, IN2 = _struct_pool(tier)
    for S in pool:
        s = Var('s', S)
        leaves = _leaves(S, s)
        types = [IN2, S] if any(isinstance(ft, StructT) for _, ft in S.fields) else [S]
        for wi, (wplace, wty) in enumerate(leaves):
            newv = Cmp('>', X, Lit(0, I64)) if isinstance(wty, BoolT) else Cast(X, wty)
            reads = list(enumerate(leaves)) + [('before', None), ('after', None), ('copy', None)]
            for ri, rd in reads:
                head = [Let('before', I64, Bin('+', Z, Lit(1000, I64))), Let('s', S, _mk_value(S, [0])), Let('after', I64, Bin('-', Z, Lit(1000, I64)))]
                if ri == 'copy':
                    # copy after the write copies everything: read the written leaf from the copy
                    body = head + [Assign(wplace, newv), Let('c', S, s)]
                    cplace = _leaves(S, Var('c', S))[wi][0]
                    rplace, rty = cplace, wty
                elif ri in ('before', 'after'):
                    body = head + [Assign(wplace, newv)]
                    rplace, rty = Var(ri, I64), I64
                else:
                    body = head + [Assign(wplace, newv)]
                    rplace, rty = rd
                if isinstance(rty, BoolT):
                    body += [If(rplace, [Return(Lit(1, I64))]), Return(Lit(0, I64))]
                else:
                    body += [Let('r', rty, rplace), Return(Cast(Var('r', rty), I64))]
                out.append(Template('c18/%s/w%d/r%s' % (S.name, wi, ri), fn3(body, types=types), family='c18-struct'))
    # optionals: payload and discriminant
    for pty in ((I8, I32, I64) if tier == 'quick' else (I8, I16, I32, I64, U8)):
        OT = OptT(pty)
        o = Var('o', OT)
        body = [Let('before', I64, Bin('+', Z, Lit(5, I64))), Let('o', OT, NoneLit(OT)), Let('after', I64, Bin('-', Z, Lit(5, I64))),
                If(Cmp('>', Y, Lit(0, I64)), [Assign(o, Cast(X, pty))]), Let('d', pty, Lit(7, pty)), Let('r', pty, Coalesce(o, Var('d', pty))),
                Return(Bin('+', Bin('+', Cast(Var('r', pty), I64), Var('before', I64)), Var('after', I64)))]
        out.append(Template('c18/opt/%s' % pty.name, fn3(body), family='c18-optional'))
    # whole-value copies of small, byte-aligned composites (sizes 2, 3, 4, 7 ... bytes): assignment of a struct into an
    # element of a fixed array of structs, a struct wrapped into / read out of an optional, the optional's discriminant
    # set and cleared again; every component of the copy, the other element and the neighbouring locals are read back
    small = [StructT('RGB', [('R', U8), ('G', U8), ('B', U8)]), StructT('P2', [('A', U8), ('B', U8)]),
             StructT('B7', [('A', U8), ('B', U8), ('C', U8), ('D', U8), ('E', U8), ('F', U8), ('G', U8)]),
             StructT('M6', [('A', I16), ('B', U8), ('C', U8), ('D', I16)])]
    if tier != 'quick':
        small += [StructT('B5', [('A', I8), ('B', I8), ('C', I8), ('D', I8), ('E', I8)]), StructT('W12', [('A', I32), ('B', I32), ('C', I16), ('D', U8)]),
                  StructT('B11', [(n, U8) for n in 'ABCDEFGHIJK'])]
    for S in small:
        AT = ArrT(2, S)
        px, c = Var('px', AT), Var('c', S)
        nf = len(S.fields)
        head = [Let('before', I64, Bin('+', Z, Lit(1000, I64))),
                Let('px', AT, ArrLit(AT, [StructLit(S, {f: Lit(10 + k, ft) for k, (f, ft) in enumerate(S.fields)}), StructLit(S, {f: Lit(40 + k, ft) for k, (f, ft) in enumerate(S.fields)})])),
                Let('after', I64, Bin('-', Z, Lit(1000, I64))),
                Let('c', S, StructLit(S, {f: Cast(Bin('+', X, Lit(k, I64)), ft) for k, (f, ft) in enumerate(S.fields)}))]
        for el in (0, 1):
            for k, (f, ft) in enumerate(S.fields):
                for rel in (0, 1):
                    body = head + [Assign(Index(px, Lit(el, I32)), c), Let('r', ft, Field(Index(px, Lit(rel, I32)), f)), Return(Cast(Var('r', ft), I64))]
                    out.append(Template('c18/arrelem/%s/w%d/r%d_%s' % (S.name, el, rel, f), fn3(body, types=[S]), family='c18-copy'))
            for nb in ('before', 'after'):
                body = head + [Assign(Index(px, Lit(el, I32)), c), Return(Var(nb, I64))]
                out.append(Template('c18/arrelem/%s/w%d/%s' % (S.name, el, nb), fn3(body, types=[S]), family='c18-copy'))
        OT = OptT(S)
        oc = Var('oc', OT)
        ohead = [Let('before', I64, Bin('+', Z, Lit(1000, I64))), Let('oc', OT, NoneLit(OT)), Let('after', I64, Bin('-', Z, Lit(1000, I64))),
                 Let('c', S, StructLit(S, {f: Cast(Bin('+', X, Lit(k, I64)), ft) for k, (f, ft) in enumerate(S.fields)})),
                 If(Cmp('>', Y, Lit(0, I64)), [Assign(oc, c)])]
        for k, (f, ft) in enumerate(S.fields):
            body = ohead + [Let('r', I64, Lit(-1, I64)), If(IsSome(oc), [Assign(Var('r', I64), Cast(Field(Unwrap(oc), f), I64))]), Return(Var('r', I64))]
            out.append(Template('c18/optstruct/%s/r_%s' % (S.name, f), fn3(body, types=[S]), family='c18-copy'))
        # discriminant: set, cleared, set again
        body = ohead + [Let('r', I64, Lit(0, I64)), If(IsSome(oc), [OpAssign(Var('r', I64), '+', Lit(1, I64))]), Assign(oc, NoneLit(OT)),
                        If(IsSome(oc), [OpAssign(Var('r', I64), '+', Lit(10, I64))]), Assign(oc, c), If(IsSome(oc), [OpAssign(Var('r', I64), '+', Lit(100, I64))]),
                        Return(Bin('+', Var('r', I64), Bin('+', Var('before', I64), Var('after', I64))))]
        out.append(Template('c18/optstruct/%s/flag' % S.name, fn3(body, types=[S]), family='c18-copy'))
    return out


# ------------------------------------------------------------------------------------------------ C05 return shapes
def _c05_items(depth, params, counter):
    """Enumerate statement shapes; every condition / subject uses the next parameter."""
    def nxt():
        p = params[counter[0] % len(params)]
        counter[0] += 1
        return p
    RET = lambda: Return(Bin('+', Var(nxt(), I64), Lit(counter[0], I64)))
    if depth == 0:
        return None
    return RET


def c05_shapes(depth):
    """Return list of (name, body-builder) where builder(ctx) -> list of statements.  ctx supplies fresh conditions and return values."""
    class Ctx:
        def __init__(self):
            self.k = 0

        def cond(self):
            self.k += 1
            return Cmp('>', Var(['x', 'y', 'z'][self.k % 3], I64), Lit(self.k, I64))

        def subj(self):
            self.k += 1
            return Var(['x', 'y', 'z'][self.k % 3], I64)

        def ret(self):
            self.k += 1
            return Return(Bin('+', Var(['x', 'y', 'z'][self.k % 3], I64), Lit(100 * self.k, I64)))

        def nop(self):
            self.k += 1
            return Let('v%d' % self.k, I64, Lit(self.k, I64))

    def gen(d):
        """yield (name, fn(ctx)->stmts, always_returns?)"""
        if d >= 1:
            # while-true loops whose only exits are inside if/else arms that all terminate (break or return)
            arms = {'brk': lambda c: [Break()], 'ret': lambda c: [c.ret()], 'nopbrk': lambda c: [c.nop(), Break()]}
            for an, af in arms.items():
                for bn, bf in arms.items():
                    yield ('wt_ifelse(%s,%s)' % (an, bn), lambda c, af=af, bf=bf: [While(Lit(True, BOOL), [If(c.cond(), af(c), bf(c))])])
            yield ('wt_elif(brk,ret,brk)', lambda c: [While(Lit(True, BOOL), [If(c.cond(), [Break()], If(c.cond(), [c.ret()], [Break()]))])])
            yield ('wt_elif(ret,brk,ret)', lambda c: [While(Lit(True, BOOL), [If(c.cond(), [c.ret()], If(c.cond(), [Break()], [c.ret()]))])])
            yield ('wt_nested(brk)', lambda c: [While(Lit(True, BOOL), [If(c.cond(), [If(c.cond(), [Break()], [c.ret()])], [c.ret()])])])
            # loops / branches whose condition is a bool local holding a compile-time-looking constant that is only
            # conditionally (re)assigned before: whether the body runs is a run-time matter
            def flag(c, init, then):
                return [Let('g', BOOL, Lit(init, BOOL)), If(c.cond(), [Assign(Var('g', BOOL), Lit(then, BOOL))])]
            yield ('wflag_ft(ret)', lambda c: flag(c, False, True) + [While(Var('g', BOOL), [c.ret()])])
            yield ('wflag_tf(ret)', lambda c: flag(c, True, False) + [While(Var('g', BOOL), [c.ret()])])
            yield ('wflag_tt(ret)', lambda c: flag(c, True, True) + [While(Var('g', BOOL), [c.ret()])])
            yield ('wflag_ft(ifret)', lambda c: flag(c, False, True) + [While(Var('g', BOOL), [If(c.cond(), [c.ret()]), Break()])])
            yield ('ifflag_ft(ret)', lambda c: flag(c, False, True) + [If(Var('g', BOOL), [c.ret()])])
            yield ('ifflag_tf(ret,nop)', lambda c: flag(c, True, False) + [If(Var('g', BOOL), [c.ret()], [c.nop()])])
            yield ('wconst(ret)', lambda c: [Let('G', BOOL, Lit(True, BOOL), const=True), While(Var('G', BOOL), [c.ret()])])
            yield ('wnotflag(ret)', lambda c: flag(c, True, False) + [While(Not(Var('g', BOOL)), [c.ret()])])
        yield ('ret', lambda c: [c.ret()])
        yield ('nop', lambda c: [c.nop()])
        if d == 0:
            return
        subs = list(gen(d - 1))
        for n1, f1 in subs:
            yield ('if(%s)' % n1, lambda c, f1=f1: [If(c.cond(), f1(c))])
            yield ('while(%s)' % n1, lambda c, f1=f1: [While(c.cond(), f1(c) + [Break()])])
            yield ('whiletrue(%s)' % n1, lambda c, f1=f1: [While(Lit(True, BOOL), f1(c) + [If(c.cond(), [Break()])])])
            for n2, f2 in subs:
                yield ('ifelse(%s,%s)' % (n1, n2), lambda c, f1=f1, f2=f2: [If(c.cond(), f1(c), f2(c))])
                yield ('match(%s,_%s)' % (n1, n2), lambda c, f1=f1, f2=f2: [Match(c.subj(), [(Lit(1, I64), f1(c)), (None, f2(c))])])
                yield ('matchnd(%s,%s)' % (n1, n2), lambda c, f1=f1, f2=f2: [Match(c.subj(), [(Lit(1, I64), f1(c)), (Lit(2, I64), f2(c))])])
                # the default arm is not the last one: the arms written after it are still live in the generated code
                yield ('matchdf(_%s,%s)' % (n1, n2), lambda c, f1=f1, f2=f2: [Match(c.subj(), [(None, f1(c)), (Lit(1, I64), f2(c))])])
                yield ('matchdm(%s,_%s,%s)' % (n1, n2, n1), lambda c, f1=f1, f2=f2: [Match(c.subj(), [(Lit(1, I64), f1(c)), (None, f2(c)), (Lit(2, I64), f1(c))])])
                yield ('elif(%s,%s)' % (n1, n2), lambda c, f1=f1, f2=f2: [If(c.cond(), f1(c), If(c.cond(), f2(c)))])
                yield ('elifelse(%s,%s)' % (n1, n2), lambda c, f1=f1, f2=f2: [If(c.cond(), f1(c), If(c.cond(), f2(c), [c.ret()]))])
    return list(gen(depth)), Ctx


def _c05_wrap(kind, body):
    """Place a generated body in a named function, a method or a function literal; entry is always t(x,y,z)."""
    if kind == 'fn':
        return fn3(body)
    if kind == 'method':
        ST = StructT('Box', [('V', I64)])
        m = Func('m', [('x', I64), ('y', I64), ('z', I64)], I64, body, recv=('s', RefT(ST, False)))
        tb = [Let('b', ST, StructLit(ST, {'V': Lit(1, I64)})), Return(MethodCall(Var('b', ST), 'm', [X, Y, Z], I64))]
        return fn3(tb, types=[ST], extra=[m])
    if kind == 'mclash':
        # the method shares its name with a top-level function of another (void) signature
        ST = StructT('Box', [('V', I64)])
        m = Func('m', [('x', I64), ('y', I64), ('z', I64)], I64, body, recv=('s', RefT(ST, False)))
        free = Func('m', [], VOID, [])
        tb = [Let('b', ST, StructLit(ST, {'V': Lit(1, I64)})), Return(MethodCall(Var('b', ST), 'm', [X, Y, Z], I64))]
        return fn3(tb, types=[ST], extra=[free, m])
    if kind == 'pshadow':
        # the body ends in a call of a USER function named like the builtin `panic` (it shadows the builtin and returns
        # normally): that call does not end the path
        free = Func('panic', [('m', I64)], VOID, [])
        return fn3(body + [ExprStmt(Call('panic', [Lit(1, I64)], VOID))], extra=[free])
    if kind == 'lit':
        lf = Func('f', [('x', I64), ('y', I64), ('z', I64)], I64, body)
        tb = [FuncLitLet('f', lf), Return(Call('f', [X, Y, Z], I64))]
        return fn3(tb)
    raise ValueError(kind)


def c05(tier='quick', seed=0):
    import random
    out = []
    shapes, Ctx = c05_shapes(1 if tier == 'quick' else 2)
    d1, _ = c05_shapes(1)
    names1 = {n for n, _ in d1}
    rnd = random.Random(seed)
    sel = shapes
    if tier != 'quick' and len(shapes) > 500:
        rest = [s for s in shapes if s[0] not in names1]
        sel = [s for s in shapes if s[0] in names1] + rnd.sample(rest, 400)
    meta = {'nonterm_ok': True}
    for name, f in sel:
        kinds = ('fn', 'method', 'lit', 'mclash', 'pshadow') if name in names1 else ('fn',)
        for kind in kinds:
            for tail in (False, True):
                if kind == 'pshadow' and tail:
                    continue
                c = Ctx()
                body = f(c) + ([c.ret()] if tail else [])
                tid = 'c05/%s/%s/%s' % (kind, name, 'tail' if tail else 'notail')
                out.append(Template(tid, _c05_wrap(kind, body), family='c05-' + kind, expect='any', unroll=3, meta=meta))
    # sequences of two depth-1 shapes without a tail return
    dd = [s for s in d1 if s[0] not in ('ret', 'nop')]
    pairs = [(a, b) for a in dd for b in dd]
    for (n1, f1), (n2, f2) in rnd.sample(pairs, min(60 if tier == 'quick' else 200, len(pairs))):
        c = Ctx()
        body = f1(c) + f2(c)
        out.append(Template('c05/fn/seq[%s;%s]/notail' % (n1, n2), fn3(body), family='c05-fn', expect='any', unroll=3, meta=meta))
    return out


# ------------------------------------------------------------------------------------------------ C02 extras
def castuse(tier='quick'):
    """A cast whose result is consumed directly (by a compare, a second cast, a call argument, a division) instead of
    going through a typed local first (a store/load pair re-normalises the value and hides a missing wrap)."""
    out = []
    srcs = [I64, U64, I32, U32] if tier == 'quick' else INTS
    for d in INTS:
        for s in INTS:
            if tier == 'quick':
                # narrowing casts from the 32/64-bit sources, and every same-width cast that changes signedness
                if not ((s in srcs and s.bits > d.bits) or (s.bits == d.bits and s != d)):
                    continue
            a = Var('a', s)
            head = [Let('a', s, Cast(X, s))] if s != I64 else []
            e = Cast(a if s != I64 else X, d)
            body = head + [If(Cmp('>', e, Lit(0, d)), [Return(Lit(1, I64))]), Return(Lit(0, I64))]
            out.append(Template('castuse/cmp/%s/%s' % (s.name, d.name), fn1(body), family='castuse'))
            body = head + [Let('r', I64, Cast(e, I64)), Return(Var('r', I64))]
            out.append(Template('castuse/widen/%s/%s' % (s.name, d.name), fn1(body), family='castuse'))
            h = Func('h', [('v', d)], I64, [Let('w', I64, Cast(Var('v', d), I64)), Return(Var('w', I64))])
            body = head + [Let('r', I64, Call('h', [e], I64)), Return(Var('r', I64))]
            out.append(Template('castuse/arg/%s/%s' % (s.name, d.name), fn1(body, extra=[h]), family='castuse'))
            body = head + [Let('r', d, Bin('/', e, Lit(2, d))), Return(Cast(Var('r', d), I64))]
            out.append(Template('castuse/div/%s/%s' % (s.name, d.name), fn1(body), family='castuse'))
    return out


def c02_extra(tier='quick'):
    """Division / remainder WITHOUT the usual precondition: only agreement of the two targets is asserted, so the
    corner cases /0 and MIN/-1 are in."""
    out = []
    for ty in INTS:
        a, b = Var('a', ty), Var('b', ty)
        head = [Let('a', ty, Cast(X, ty)), Let('b', ty, Cast(Y, ty))]
        for op in '/%':
            body = head + [Let('r', ty, Bin(op, a, b)), Return(Cast(Var('r', ty), I64))]
            regions = {}
            if op == '%' and ty.signed and ty.bits >= 32:
                regions['min_rem_minus1'] = (lambda ty: lambda args: z3.And(narrow(args[0], ty) == z3.BitVecVal(1 << (ty.bits - 1), ty.bits),
                                                                          narrow(args[1], ty) == z3.BitVecVal(-1, ty.bits)))(ty)
            out.append(Template('rawdiv/%s/%s' % (OPNAME[op], ty.name), fn2(body), family='rawdiv', regions=regions))
    return out


def litforms(tier='quick'):
    """The same literal value written in different spellings (decimal, leading zeros, digit separators, hex, octal,
    binary) as an initialiser, an operand, a comparison operand and a match pattern."""
    out = []
    forms = [('dec', 17, '17'), ('lead0', 17, '017'), ('lead00', 10, '0010'), ('lead0_755', 755, '0755'), ('lead0_8', 8, '08'), ('sep', 1000, '1_000'),
             ('hex', 255, '0xFF'), ('oct', 15, '0o17'), ('bin', 10, '0b1010'), ('zero', 0, '0'), ('zeros', 0, '00')]
    tys = (I32, I64, U8) if tier == 'quick' else (I8, I16, I32, I64, U8, U16, U32, U64)
    for ty in tys:
        for name, v, text in forms:
            if v > ty.max:
                continue
            L = lambda: Lit(v, ty, text=text)
            a = Var('a', ty)
            head = [Let('a', ty, Cast(X, ty))]
            body = [Let('r', ty, L()), Return(Cast(Var('r', ty), I64))]
            out.append(Template('litforms/init/%s/%s' % (ty.name, name), fn1(body), family='litforms'))
            body = head + [If(Cmp('==', a, L()), [Return(Lit(1, I64))]), Return(Cast(Bin('-', a, L()), I64))]
            out.append(Template('litforms/cmp_sub/%s/%s' % (ty.name, name), fn1(body), family='litforms'))
            if ty in (I32, I64):
                body = head + [Match(a, [(L(), [Return(Lit(5, I64))]), (None, [Return(Lit(6, I64))])])]
                out.append(Template('litforms/match/%s/%s' % (ty.name, name), fn1(body), family='litforms'))
    return out


def rtjs(tier='quick'):
    """Operation sequences that lean on the JS runtime behind the wasm imports (array growth from capacity 0, 1, 2, 3;
    a second array allocated after appends; element writes after growth).  The symbolic comparison goes through the
    import contracts; these templates are ALWAYS replayed natively and under node with the shipped runtime.js, so a
    runtime that breaks its contract on the witness input shows as a witness disagreement."""
    out = []
    DT = DynT(I64)
    a, b = Var('a', DT), Var('b', DT)

    def total(arr, n):
        e = None
        for k in range(n):
            t = Index(arr, Lit(k, I32))
            e = t if e is None else Bin('-', Bin('+', e, e), t)
        return e
    for m in (0, 1, 2, 3):
        for p in (1, 2, 3, 5):
            lit = [X, Lit(20, I64), Lit(30, I64)][:m]
            body = [Let('a', DT, ArrLit(DT, lit))] + [Append(a, Bin('+', Y, Lit(k, I64))) for k in range(p)] + \
                   [Let('b', DT, ArrLit(DT, [Lit(100, I64), Lit(200, I64)])), Append(b, X), Print(Index(b, Lit(2, I32))),
                    Assign(Index(a, Lit(m + p - 1, I32)), Lit(77, I64)),
                    Return(Bin('+', total(a, m + p), Index(b, Lit(0, I32))))]
            out.append(Template('rtjs/grow/m%d_p%d' % (m, p), fn2(body), family='rtjs', meta={'replay_witness': True, 'always_replay': True}))
    return out


def c02(tier='quick', seed=0):
    if tier == 'quick':
        T6 = [I8, I32, I64, U8, U32, U64]
        base = arith(types=T6, consumers=('local', 'cmp')) + arithlit(types=T6, tier='quick') + compare(types=T6) + casts() + unary(types=T6) + control() + composites() + refs() + lang2()
        out = base + castuse(tier) + c02_extra(tier) + c08(tier) + c18(tier)[::2] + litforms(tier)
        # encoder validation by witness replay (two compiles, one native run, one node run) on a third of the templates
        # per run (which third depends on the seed); counterexamples are always replayed
        for i, t in enumerate(out):
            t.meta = dict(t.meta, replay_witness=(i % 3 == seed % 3))
        return out + rtjs(tier)
    return c01_thorough() + c02_extra(tier) + c04(tier) + c08(tier) + c18(tier) + c05(tier, 0) + litforms(tier) + rtjs(tier)


# ------------------------------------------------------------------------------------------------ C10 wide literals
I128, U128, I256, U256 = IntT(128, True), IntT(128, False), IntT(256, True), IntT(256, False)


def c10_wide(tier='quick'):
    """An integer literal of a 128/256-bit type keeps its value in generated code: the literal is compared (==, >, <)
    with a value built from the parameter and its low 64 bits are returned; boundary values around 2^63, 2^64, 2^127."""
    out = []
    vals = {I128: [0, 1, -1, 2**63 - 1, 2**63, 2**64 - 1, 2**64, 2**100 + 12345, 2**127 - 1, -2**127, -2**63, -2**63 - 1, -2**64],
            U128: [0, 2**63, 2**64 - 1, 2**64, 2**127, 2**128 - 1],
            I256: [2**63, 2**64 - 1, 2**127, 2**200 + 7, 2**255 - 1, -2**255, -2**64 + 1],
            U256: [2**63, 2**64 - 1, 2**128, 2**256 - 1]}
    if tier == 'quick':
        vals = {k: v for k, v in vals.items()}
    for ty, vs in vals.items():
        for i, v in enumerate(vs):
            c, z, e = Var('c', ty), Var('z', ty), Var('e', ty)
            # e is built from the parameter without relying on what a negative value cast to a wide unsigned type means
            mk_e = [Let('e', ty, Cast(X, ty))] if ty.signed else [Let('u', U64, Cast(X, U64)), Let('e', ty, Cast(Var('u', U64), ty))]
            body = [Let('c', ty, Lit(v, ty)), Let('z', ty, Lit(0, ty))] + mk_e + [
                    If(Cmp('==', e, c), [Return(Lit(7, I64))]),
                    If(Cmp('>', c, z), [Return(Bin('+', Cast(c, I64), Lit(1000, I64)))]),
                    If(Cmp('<', c, e), [Return(Lit(3, I64))]),
                    Return(Cast(c, I64))]
            out.append(Template('c10/wide/%s/%d' % (ty.name, i), fn1(body), family='c10-wide-literal'))
    return out


# ------------------------------------------------------------------------------------------------ C01 language features
def lang2():
    """Enums with match, optionals with ??, function literals, value-receiver methods, nested structs, strings
    (len, indexing), prints of several types, for-in over dynamic arrays, multi-parameter calls."""
    out = []
    # enum + match on enum values chosen by a parameter
    ET = EnumT('Color', ['Red', 'Green', 'Blue'])
    pick = Func('pick', [('k', I64)], ET, [If(Cmp('==', Var('k', I64), Lit(0, I64)), [Return(EnumVal(ET, 'Red'))]),
                                             If(Cmp('==', Var('k', I64), Lit(1, I64)), [Return(EnumVal(ET, 'Green'))]), Return(EnumVal(ET, 'Blue'))])
    body = [Let('c', ET, Call('pick', [X], ET)),
            Match(Var('c', ET), [(EnumVal(ET, 'Red'), [Return(Lit(10, I64))]), (EnumVal(ET, 'Green'), [Return(Lit(20, I64))]), (None, [Return(Lit(30, I64))])])]
    out.append(Template('lang/enum_match', fn1(body, types=[ET], extra=[pick]), family='lang'))
    body = [Let('c', ET, Call('pick', [X], ET)), If(Cmp('==', Var('c', ET), EnumVal(ET, 'Green')), [Return(Lit(1, I64))]), Return(Lit(0, I64))]
    out.append(Template('lang/enum_eq', fn1(body, types=[ET], extra=[pick]), family='lang'))
    # optional: none or some(value) depending on a parameter, then ??
    for ty in (I32, I64, I8):
        OT = OptT(ty)
        body = [Let('o', OT, NoneLit(OT)), If(Cmp('>', Y, Lit(0, I64)), [Assign(Var('o', OT), Cast(X, ty))]),
                Let('r', ty, Coalesce(Var('o', OT), Lit(7, ty))), Return(Cast(Var('r', ty), I64))]
        out.append(Template('lang/optional_coalesce/%s' % ty.name, fn2(body), family='lang'))
    # optional narrowed by `if x != none`: read of the narrowed parameter / local, assignment to it inside the
    # narrowed block (the slot keeps its optional layout; the neighbouring local g keeps its value)
    for ty in (I32, I64, I8):
        OT = OptT(ty)
        x, n, g = Var('x', OT), Var('n', ty), Var('g', I64)
        pick = Func('pick', [('x', OT), ('d', ty)], ty, [If(IsSome(x), [Return(Unwrap(x))]), Return(Var('d', ty))])
        body = [Let('o', OT, NoneLit(OT)), If(Cmp('>', Y, Lit(0, I64)), [Assign(Var('o', OT), Cast(X, ty))]),
                Return(Cast(Call('pick', [Var('o', OT), Lit(7, ty)], ty), I64))]
        out.append(Template('lang/optional_narrow_param/%s' % ty.name, fn2(body, extra=[pick]), family='lang'))
        upd = Func('upd', [('x', OT), ('n', ty), ('k', I64)], I64,
                   [Let('g', I64, Var('k', I64)), If(IsSome(x), [Assign(x, n)]), Let('r', ty, Coalesce(x, Lit(5, ty))),
                    Return(Bin('+', Cast(Var('r', ty), I64), Bin('*', g, Lit(1000, I64))))])
        body = [Let('o', OT, NoneLit(OT)), If(Cmp('>', Y, Lit(0, I64)), [Assign(Var('o', OT), Cast(X, ty))]),
                Return(Call('upd', [Var('o', OT), Cast(Y, ty), Lit(3, I64)], I64))]
        out.append(Template('lang/optional_narrow_assign_param/%s' % ty.name, fn2(body, extra=[upd]), family='lang'))
        o = Var('o', OT)
        body = [Let('g', I64, Lit(3, I64)), Let('o', OT, NoneLit(OT)), Let('h', I64, Lit(4, I64)),
                If(Cmp('>', Y, Lit(0, I64)), [Assign(o, Cast(X, ty))]),
                Let('r', ty, Lit(1, ty)),
                If(IsSome(o), [Assign(Var('r', ty), Unwrap(o)), Assign(o, Cast(Y, ty))]),
                Return(Bin('+', Bin('+', Cast(Var('r', ty), I64), Cast(Coalesce(o, Lit(9, ty)), I64)), Bin('+', Bin('*', g, Lit(1000, I64)), Bin('*', Var('h', I64), Lit(100000, I64)))))]
        out.append(Template('lang/optional_narrow_local/%s' % ty.name, fn2(body), family='lang'))
    # function literal called twice
    lf = Func('f', [('a', I32), ('b', I32)], I32, [Return(Bin('-', Bin('+', Var('a', I32), Lit(3, I32)), Var('b', I32)))])
    body = [FuncLitLet('f', lf), Let('u', I32, Call('f', [Cast(X, I32), Cast(Y, I32)], I32)), Let('v', I32, Call('f', [Var('u', I32), Lit(1, I32)], I32)), Return(Cast(Var('v', I32), I64))]
    out.append(Template('lang/funclit_twice', fn2(body), family='lang'))
    # closures: variables of the enclosing function are captured by reference
    for ty in (I64, I32):
        tn = ty.name
        p, q, d, c = Var('p', ty), Var('q', ty), Var('d', ty), Var('c', ty)
        # a parameter modified BEFORE the literal that captures it is created
        lf = Func('f', [('d', ty)], ty, [Return(Bin('+', p, d))])
        outer = Func('outer', [('p', ty), ('q', ty)], ty, [Assign(p, Bin('+', p, Lit(5, ty))), FuncLitLet('f', lf), Return(Call('f', [q], ty))])
        body = [Return(Cast(Call('outer', [Cast(X, ty), Cast(Y, ty)], ty), I64))]
        out.append(Template('lang/closure_param_modified_before/%s' % tn, fn2(body, extra=[outer]), family='lang'))
        # ... modified with ++ and +=, then captured, then modified again: the literal sees the latest value
        lf = Func('f', [], ty, [Return(p)])
        outer = Func('outer', [('p', ty), ('q', ty)], ty, [IncDec(p, '++'), OpAssign(p, '+', q), FuncLitLet('f', lf), Let('a', ty, Call('f', [], ty)),
                                                         Assign(p, Bin('-', p, Lit(3, ty))), Let('b', ty, Call('f', [], ty)), If(Cmp('!=', Bin('-', Var('a', ty), Var('b', ty)), Lit(3, ty)), [Return(Lit(-7, ty))]), Return(Var('a', ty))])
        out.append(Template('lang/closure_param_modified_around/%s' % tn, fn2(body, extra=[outer]), family='lang'))
        # a local counter incremented by the literal: both sides see the writes
        lf = Func('inc', [], ty, [Assign(c, Bin('+', c, Lit(1, ty))), Return(c)])
        body2 = [Let('c', ty, Cast(X, ty)), FuncLitLet('inc', lf), Let('a', ty, Call('inc', [], ty)), Assign(c, Bin('+', c, Cast(Y, ty))), Let('b', ty, Call('inc', [], ty)),
                 If(Cmp('!=', Var('b', ty), c), [Return(Lit(-7, I64))]), Return(Bin('-', Cast(Var('a', ty), I64), Cast(c, I64)))]
        out.append(Template('lang/closure_counter/%s' % tn, fn2(body2), family='lang'))
        # the literal captures a parameter and a local; the parameter is never modified
        lf = Func('f', [('d', ty)], ty, [Return(Bin('+', Bin('+', p, p), Bin('-', Var('k', ty), d)))])
        outer = Func('outer', [('p', ty), ('q', ty)], ty, [Let('k', ty, Bin('+', q, Lit(1, ty))), FuncLitLet('f', lf), Return(Call('f', [q], ty))])
        out.append(Template('lang/closure_param_and_local/%s' % tn, fn2(body, extra=[outer]), family='lang'))
    # a parameter that is assigned inside a loop whose condition reads it (the condition is lowered before the first
    # assignment), and a parameter assigned before a loop
    for ty in (I64, I32):
        n, c = Var('n', ty), Var('c', ty)
        cd = Func('cd', [('n', ty)], ty, [Let('c', ty, Lit(0, ty)),
                                           While(Cmp('>', n, Lit(0, ty)), [Assign(n, Bin('-', n, Lit(1, ty))), Assign(c, Bin('+', c, Lit(1, ty))), If(Cmp('>', c, Lit(4, ty)), [Return(Lit(-1, ty))])]),
                                           Return(Bin('+', c, n))])
        body = [Return(Cast(Call('cd', [Cast(X, ty)], ty), I64))]
        out.append(Template('lang/param_loop_countdown/%s' % ty.name, fn1(body, extra=[cd]), family='lang', unroll=8))
        up = Func('up', [('n', ty), ('k', ty)], ty, [If(Cmp('>', Var('k', ty), Lit(0, ty)), [Assign(n, Bin('+', n, Var('k', ty)))]), Let('r', ty, n), OpAssign(n, '+', Lit(1, ty)), Return(Bin('+', Var('r', ty), n))])
        body = [Return(Cast(Call('up', [Cast(X, ty), Cast(Y, ty)], ty), I64))]
        out.append(Template('lang/param_reassigned/%s' % ty.name, fn2(body, extra=[up]), family='lang'))
    # range loops: literal bounds, variable bounds, inclusive ranges, and bounds assigned inside the body (the bounds
    # are evaluated once)
    for ty in (I32, I64):
        sv, cv, hv, lv_ = Var('s', ty), Var('c', ty), Var('hi', ty), Var('lo', ty)
        body = [Let('s', ty, Cast(X, ty)), Let('z', ty, Lit(0, ty)), ForRange('i', ty, Lit(0, ty) if ty == I32 else Var('z', ty), Lit(4, ty), [Assign(sv, Bin('+', sv, Var('i', ty)))]), Return(Cast(sv, I64))]
        out.append(Template('lang/range_literal/%s' % ty.name, fn1(body), family='lang', unroll=6))
        body = [Let('s', ty, Lit(0, ty)), Let('hi', ty, Cast(X, ty)), ForRange('j', ty, Lit(1, ty), hv, [Assign(sv, Bin('+', sv, Var('j', ty)))], inclusive=True), Return(Cast(sv, I64))]
        out.append(Template('lang/range_inclusive_var/%s' % ty.name, fn1(body), family='lang', unroll=6,
                            pre=(lambda ty: lambda a: z3.And(narrow(a[0], ty) >= 0, narrow(a[0], ty) <= 3))(ty)))
        body = [Let('c', ty, Lit(0, ty)), Let('lo', ty, Lit(0, ty)), Let('hi', ty, Lit(4, ty)),
                ForRange('i', ty, lv_, hv, [Assign(hv, Bin('-', hv, Lit(1, ty))), Assign(lv_, Bin('+', lv_, Cast(X, ty))), Assign(cv, Bin('+', cv, Lit(1, ty)))]),
                Return(Bin('+', Cast(cv, I64), Bin('+', Cast(hv, I64), Cast(lv_, I64))))]
        out.append(Template('lang/range_bounds_assigned_in_body/%s' % ty.name, fn1(body), family='lang', unroll=6))
    # compound assignment whose right operand is a literal (typed i32 by default) or a narrower variable
    for ty in (I64, U64, I8, U16):
        v = Var('v', ty)
        body = [Let('v', ty, Cast(X, ty)), OpAssign(v, '+', Lit(1, ty)), OpAssign(v, '-', Lit(3, ty)), OpAssign(v, '*', Lit(2, ty)), Return(Cast(v, I64))]
        out.append(Template('lang/compound_literal/%s' % ty.name, fn1(body), family='lang'))
    AT2 = ArrT(2, I64)
    body = [Let('a', AT2, ArrLit(AT2, [X, Y])), OpAssign(Index(Var('a', AT2), Lit(1, I32)), '+', Lit(5, I64)), Return(Bin('-', Index(Var('a', AT2), Lit(1, I32)), Index(Var('a', AT2), Lit(0, I32))))]
    out.append(Template('lang/compound_literal_element/i64', fn2(body), family='lang'))
    # by-value fixed array and struct parameters written in the callee: the caller's value is unchanged
    AT3 = ArrT(3, I32)
    aa = Var('a', AT3)
    poke = Func('poke', [('a', AT3), ('v', I32)], I32, [Assign(Index(aa, Lit(0, I32)), Var('v', I32)), Assign(Index(aa, Lit(2, I32)), Bin('+', Var('v', I32), Lit(1, I32))), Return(Bin('+', Index(aa, Lit(0, I32)), Index(aa, Lit(2, I32))))])
    xs = Var('xs', AT3)
    body = [Let('xs', AT3, ArrLit(AT3, [Cast(X, I32), Lit(2, I32), Lit(3, I32)])), Let('r', I32, Call('poke', [xs, Cast(Y, I32)], I32)),
            If(Cmp('!=', Index(xs, Lit(0, I32)), Cast(X, I32)), [Return(Lit(-7, I64))]), If(Cmp('!=', Index(xs, Lit(2, I32)), Lit(3, I32)), [Return(Lit(-8, I64))]),
            Return(Cast(Var('r', I32), I64))]
    out.append(Template('lang/array_param_written/i32', fn2(body, extra=[poke]), family='lang'))
    # value receiver: the method works on a copy
    CT = StructT('Cnt', [('V', I32), ('W', I64)])
    bump = Func('bump', [], I32, [Assign(Field(Var('c', CT), 'V'), Bin('+', Field(Var('c', CT), 'V'), Lit(1, I32))), Return(Field(Var('c', CT), 'V'))], recv=('c', CT))
    body = [Let('c', CT, StructLit(CT, {'V': Cast(X, I32), 'W': Y})), Let('a', I32, MethodCall(Var('c', CT), 'bump', [], I32)),
            Return(Bin('+', Bin('*', Cast(Var('a', I32), I64), Lit(1000, I64)), Cast(Field(Var('c', CT), 'V'), I64)))]
    out.append(Template('lang/value_receiver', fn2(body, types=[CT], extra=[bump]), family='lang', pre=lambda a: z3.And(z3.Extract(31, 0, a[0]) != 0x7fffffff, a[0] == z3.SignExt(32, z3.Extract(31, 0, a[0])), z3.ULT(a[0] + 1000, 2000))))
    # nested struct: write an inner field, read everything back
    IN = StructT('Inner', [('P', I8), ('Q', I64)])
    OUTT = StructT('Outer', [('A', I16), ('N', IN), ('Z', I32)])
    o = Var('o', OUTT)
    body = [Let('o', OUTT, StructLit(OUTT, {'A': Cast(X, I16), 'N': StructLit(IN, {'P': Cast(Y, I8), 'Q': Y}), 'Z': Lit(5, I32)})),
            Assign(Field(Field(o, 'N'), 'Q'), X),
            Return(Bin('+', Bin('+', Cast(Field(o, 'A'), I64), Cast(Field(Field(o, 'N'), 'P'), I64)), Bin('+', Field(Field(o, 'N'), 'Q'), Cast(Field(o, 'Z'), I64))))]
    out.append(Template('lang/nested_struct_write', fn2(body, types=[IN, OUTT]), family='lang'))
    # strings: length and indexing of a literal chosen by a branch
    body = [Let('s', STR, StrLit('ferret')), If(Cmp('>', X, Lit(0, I64)), [Assign(Var('s', STR), StrLit('ab'))]),
            Let('n', I32, Len(Var('s', STR))), Let('c', BYTE, Index(Var('s', STR), Lit(1, I32))),
            Return(Bin('+', Bin('*', Cast(Var('n', I32), I64), Lit(1000, I64)), Cast(Var('c', BYTE), I64)))]
    out.append(Template('lang/string_len_index', fn1(body), family='lang'))
    # prints of several types, then a return
    body = [Print(Cast(X, I8)), Print(Cast(Y, U16)), Print(Cmp('<', X, Y)), Print(Cast(X, U64)), Return(Bin('+', X, Y))]
    out.append(Template('lang/prints', fn2(body), family='lang'))
    # for-in over a dynamic array built with appends
    DT = DynT(I64)
    a = Var('a', DT)
    body = [Let('a', DT, ArrLit(DT, [X, Lit(5, I64)])), Append(a, Y), Append(a, Bin('-', X, Y)), Let('s', I64, Lit(0, I64)),
            ForIn('i', 'v', a, [OpAssign(Var('s', I64), '+', Bin('+', Var('v', I64), Cast(Var('i', I32), I64)))]), Return(Var('s', I64))]
    out.append(Template('lang/forin_dynarray', fn2(body), family='lang'))
    # results: error / success chosen by a parameter; catch with a handler that prints, catch with a bare fallback,
    # catch whose handler returns from the enclosing function
    for ety, oty in ((I32, I32), (I8, I64), (I64, I16)):
        RT = ResT(ety, oty)
        a, b = Var('a', I64), Var('b', I64)
        chk = Func('chk', [('a', I64), ('b', I64)], RT, [If(Cmp('==', b, Lit(0, I64)), [ReturnErr(Cast(a, ety))]), Return(Cast(Bin('-', a, b), oty))])
        tag = '%s_%s' % (ety.name, oty.name)
        body = [Let('r', oty, Catch(Call('chk', [X, Y], RT), Lit(-1, oty), 'e', [Print(Var('e', ety))])),
                Let('s', oty, Catch(Call('chk', [Y, X], RT), Lit(-2, oty))),
                Return(Bin('+', Cast(Var('r', oty), I64), Cast(Var('s', oty), I64)))]
        out.append(Template('lang/result_catch/%s' % tag, fn2(body, extra=[chk]), family='lang'))
        body = [Let('r', oty, Catch(Call('chk', [X, Y], RT), Lit(0, oty), 'e', [Return(Bin('+', Cast(Var('e', ety), I64), Lit(100, I64)))])),
                Return(Cast(Var('r', oty), I64))]
        out.append(Template('lang/result_catch_return/%s' % tag, fn2(body, extra=[chk]), family='lang'))
    # a call with five parameters of different widths, evaluated left to right
    h = Func('h', [('a', I8), ('b', U16), ('c', I32), ('d', U64), ('e', BOOL)], I64,
             [If(Var('e', BOOL), [Return(Bin('+', Bin('+', Cast(Var('a', I8), I64), Cast(Var('b', U16), I64)), Cast(Var('c', I32), I64)))]), Return(Cast(Var('d', U64), I64))])
    body = [Let('r', I64, Call('h', [Cast(X, I8), Cast(Y, U16), Cast(X, I32), Cast(Y, U64), Cmp('>', X, Y)], I64)), Return(Var('r', I64))]
    out.append(Template('lang/call5', fn2(body, extra=[h]), family='lang'))
    return out
