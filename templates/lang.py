"""A miniature Ferret AST with two renderings: Ferret source text, and a *reference evaluator* that turns a
template function into SMT terms according to the semantics stated in the properties (fixed-width two's
complement wrapping at the declared width after every operation, truncating / and %, left-to-right evaluation,
by-value structs and fixed arrays, write-through references, negative indices counting from the end, panic on
out-of-range).  The reference evaluator knows nothing about HIR/MIR/QBE/wasm.

Evaluation is guarded (no forking): every effect happens under a `live` condition, so a whole function becomes
one result term, one `panicked` term, one guarded event list.
"""
import z3


class Unsupported(Exception):
    pass


# ---------------------------------------------------------------------------------------- types
class Ty:
    pass


class IntT(Ty):
    def __init__(self, bits, signed):
        self.bits, self.signed = bits, signed
        self.name = ('i' if signed else 'u') + str(bits)

    def __repr__(self):
        return self.name

    def __eq__(self, o):
        return isinstance(o, IntT) and o.name == self.name

    def __hash__(self):
        return hash(self.name)

    @property
    def min(self):
        return -(1 << (self.bits - 1)) if self.signed else 0

    @property
    def max(self):
        return (1 << (self.bits - 1)) - 1 if self.signed else (1 << self.bits) - 1


class ByteT(IntT):
    def __init__(self):
        IntT.__init__(self, 8, False)
        self.name = 'byte'


class BoolT(Ty):
    name = 'bool'

    def __repr__(self):
        return 'bool'

    def __eq__(self, o):
        return isinstance(o, BoolT)

    def __hash__(self):
        return 7


class StrT(Ty):
    name = 'str'

    def __repr__(self):
        return 'str'


class StructT(Ty):
    def __init__(self, name, fields):
        self.name = name
        self.fields = fields  # list of (fname, ty)

    def __repr__(self):
        return self.name

    def field(self, n):
        for f, t in self.fields:
            if f == n:
                return t
        raise KeyError(n)


class ArrT(Ty):
    def __init__(self, n, elem):
        self.n, self.elem = n, elem
        self.name = '[%d]%s' % (n, elem.name)

    def __repr__(self):
        return self.name


class DynT(Ty):
    def __init__(self, elem):
        self.elem = elem
        self.name = '[]%s' % elem.name

    def __repr__(self):
        return self.name


class RefT(Ty):
    def __init__(self, elem, mut):
        self.elem, self.mut = elem, mut
        self.name = ("&'" if mut else '&') + elem.name

    def __repr__(self):
        return self.name


class OptT(Ty):
    def __init__(self, elem):
        self.elem = elem
        self.name = elem.name + '?'

    def __repr__(self):
        return self.name


class ResT(Ty):
    """result type  E ! T  (error type first, as Ferret writes it)"""

    def __init__(self, err, ok):
        self.err, self.ok = err, ok
        self.name = '%s ! %s' % (err.name, ok.name)

    def __repr__(self):
        return self.name


class EnumT(Ty):
    def __init__(self, name, variants):
        self.name = name
        self.variants = variants

    def __repr__(self):
        return self.name


class VoidT(Ty):
    name = 'void'


I8, I16, I32, I64 = IntT(8, True), IntT(16, True), IntT(32, True), IntT(64, True)
U8, U16, U32, U64 = IntT(8, False), IntT(16, False), IntT(32, False), IntT(64, False)
BOOL = BoolT()
STR = StrT()
BYTE = ByteT()
VOID = VoidT()
INTS = [I8, I16, I32, I64, U8, U16, U32, U64]


# ---------------------------------------------------------------------------------------- expressions
class Expr:
    ty = None


class Var(Expr):
    def __init__(self, name, ty):
        self.name, self.ty = name, ty

    def src(self):
        return self.name


class Lit(Expr):
    def __init__(self, v, ty, text=None):
        self.v, self.ty, self.text = v, ty, text   # text: the spelling in the source (hex, leading zeros, separators)

    def src(self):
        if self.text is not None:
            return self.text
        if isinstance(self.ty, BoolT):
            return 'true' if self.v else 'false'
        if self.v < 0:
            return '(0 - %d)' % (-self.v) if False else '-%d' % (-self.v)
        return str(self.v)


class StrLit(Expr):
    ty = STR

    def __init__(self, s):
        self.s = s

    def src(self):
        return '"%s"' % self.s


class Bin(Expr):
    def __init__(self, op, l, r):
        self.op, self.l, self.r = op, l, r
        self.ty = l.ty

    def src(self):
        return '(%s %s %s)' % (self.l.src(), self.op, self.r.src())


class Cmp(Expr):
    ty = BOOL

    def __init__(self, op, l, r):
        self.op, self.l, self.r = op, l, r

    def src(self):
        return '(%s %s %s)' % (self.l.src(), self.op, self.r.src())


class Logic(Expr):
    ty = BOOL

    def __init__(self, op, l, r):
        self.op, self.l, self.r = op, l, r

    def src(self):
        return '(%s %s %s)' % (self.l.src(), self.op, self.r.src())


class Not(Expr):
    ty = BOOL

    def __init__(self, e):
        self.e = e

    def src(self):
        return '(!%s)' % self.e.src()


class Neg(Expr):
    def __init__(self, e):
        self.e = e
        self.ty = e.ty

    def src(self):
        return '(-%s)' % self.e.src()


class Cast(Expr):
    def __init__(self, e, ty):
        self.e, self.ty = e, ty

    def src(self):
        return '(%s as %s)' % (self.e.src(), self.ty.name)


class Field(Expr):
    def __init__(self, e, name):
        self.e, self.name = e, name
        t = e.ty.elem if isinstance(e.ty, RefT) else e.ty
        self.ty = t.field(name)

    def src(self):
        return '%s.%s' % (self.e.src(), self.name)


class Index(Expr):
    def __init__(self, e, idx):
        self.e, self.idx = e, idx
        t = e.ty.elem if isinstance(e.ty, RefT) else e.ty
        self.ty = BYTE if isinstance(t, StrT) else t.elem

    def src(self):
        return '%s[%s]' % (self.e.src(), self.idx.src())


class Call(Expr):
    def __init__(self, fname, args, ty):
        self.fname, self.args, self.ty = fname, args, ty

    def src(self):
        return '%s(%s)' % (self.fname, ', '.join(a.src() for a in self.args))


class MethodCall(Expr):
    def __init__(self, recv, mname, args, ty):
        self.recv, self.mname, self.args, self.ty = recv, mname, args, ty

    def src(self):
        return '%s.%s(%s)' % (self.recv.src(), self.mname, ', '.join(a.src() for a in self.args))


class Len(Expr):
    ty = I32

    def __init__(self, e):
        self.e = e

    def src(self):
        return 'len(%s)' % self.e.src()


class AddrOf(Expr):
    def __init__(self, place, mut):
        self.place, self.mut = place, mut
        self.ty = RefT(place.ty, mut)

    def src(self):
        return ("&'" if self.mut else '&') + self.place.src()


class StructLit(Expr):
    def __init__(self, ty, vals):
        self.ty, self.vals = ty, vals  # vals: dict fname->Expr

    def src(self):
        return '({ %s } as %s)' % (', '.join('.%s = %s' % (f, self.vals[f].src()) for f, _ in self.ty.fields), self.ty.name)


class ArrLit(Expr):
    def __init__(self, ty, elems):
        self.ty, self.elems = ty, elems

    def src(self):
        return '[%s]' % ', '.join(e.src() for e in self.elems)


class NoneLit(Expr):
    def __init__(self, ty):
        self.ty = ty

    def src(self):
        return 'none'


class Coalesce(Expr):
    def __init__(self, opt, dflt):
        self.opt, self.dflt = opt, dflt
        self.ty = opt.ty.elem

    def src(self):
        return '(%s ?? %s)' % (self.opt.src(), self.dflt.src())


class IsSome(Expr):
    """x != none  (x == none with neg=True): the test that narrows x inside the guarded block"""
    def __init__(self, opt, neg=False):
        self.opt, self.neg = opt, neg
        self.ty = BOOL

    def src(self):
        return '%s %s none' % (self.opt.src(), '==' if self.neg else '!=')


class Unwrap(Expr):
    """a use of an optional variable where flow narrowing has made it its payload type (inside if x != none { })"""
    def __init__(self, opt):
        self.opt = opt
        self.ty = opt.ty.elem

    def src(self):
        return self.opt.src()


class Catch(Expr):
    """call catch e { handler } fallback   |   call catch fallback   (handler may end in a return)"""

    def __init__(self, call, fallback, errname=None, handler=None):
        self.call, self.fallback, self.errname, self.handler = call, fallback, errname, handler
        self.ty = call.ty.ok

    def src(self):
        if self.handler is None:
            return '(%s catch %s)' % (self.call.src(), self.fallback.src())
        return '(%s catch %s {\n%s    } %s)' % (self.call.src(), self.errname, block_src(self.handler, '        '), self.fallback.src())


class EnumVal(Expr):
    def __init__(self, ty, variant):
        self.ty, self.variant = ty, variant

    def src(self):
        return '%s::%s' % (self.ty.name, self.variant)


# ---------------------------------------------------------------------------------------- statements
class Let:
    def __init__(self, name, ty, e, const=False):
        self.name, self.ty, self.e, self.const = name, ty, e, const

    def src(self, ind):
        return '%s%s %s: %s = %s;' % (ind, 'const' if self.const else 'let', self.name, self.ty.name, self.e.src())


class Assign:
    def __init__(self, place, e):
        self.place, self.e = place, e

    def src(self, ind):
        return '%s%s = %s;' % (ind, self.place.src(), self.e.src())


class OpAssign:
    def __init__(self, place, op, e):
        self.place, self.op, self.e = place, op, e

    def src(self, ind):
        return '%s%s %s= %s;' % (ind, self.place.src(), self.op, self.e.src())


class IncDec:
    def __init__(self, place, op):
        self.place, self.op = place, op

    def src(self, ind):
        return '%s%s%s;' % (ind, self.place.src(), self.op)


class If:
    def __init__(self, cond, then, els=None):
        self.cond, self.then, self.els = cond, then, els  # els: None | list | If

    def src(self, ind):
        s = '%sif %s {\n%s%s}' % (ind, self.cond.src(), block_src(self.then, ind + '    '), ind)
        if self.els is None:
            return s
        if isinstance(self.els, If):
            return s + ' else ' + self.els.src(ind).lstrip()
        return s + ' else {\n%s%s}' % (block_src(self.els, ind + '    '), ind)


class While:
    def __init__(self, cond, body):
        self.cond, self.body = cond, body

    def src(self, ind):
        return '%swhile %s {\n%s%s}' % (ind, self.cond.src(), block_src(self.body, ind + '    '), ind)


class ForRange:
    """for v in lo..hi { body }   (lo..=hi with inclusive=True): the bounds are evaluated ONCE, before the first
    iteration; v takes lo, lo+1, ... while v < hi (<= hi); assignments to the bound variables inside the body do not
    change the number of iterations.  (No `continue` in the body: the reference steps v at the end of the body.)"""

    def __init__(self, v, ty, lo, hi, body, inclusive=False):
        self.v, self.ty, self.lo, self.hi, self.body, self.inclusive = v, ty, lo, hi, body, inclusive

    def src(self, ind):
        return '%sfor %s in %s%s%s {\n%s%s}' % (ind, self.v, self.lo.src(), '..=' if self.inclusive else '..', self.hi.src(), block_src(self.body, ind + '    '), ind)


class ForIn:
    """for i, v in arr { body }  (i: i32 index, v: element)"""

    def __init__(self, i, v, arr, body):
        self.i, self.v, self.arr, self.body = i, v, arr, body

    def src(self, ind):
        return '%sfor %s, %s in %s {\n%s%s}' % (ind, self.i, self.v, self.arr.src(), block_src(self.body, ind + '    '), ind)


class Break:
    def src(self, ind):
        return ind + 'break;'


class Continue:
    def src(self, ind):
        return ind + 'continue;'


class Return:
    def __init__(self, e=None):
        self.e = e

    def src(self, ind):
        return '%sreturn%s;' % (ind, ' ' + self.e.src() if self.e is not None else '')


class ReturnErr:
    """return e!;   (the error side of a result-returning function)"""

    def __init__(self, e):
        self.e = e

    def src(self, ind):
        return '%sreturn %s!;' % (ind, self.e.src())


class Match:
    def __init__(self, subj, arms):
        self.subj, self.arms = subj, arms  # arms: list of (Expr-or-None(default), body)

    def src(self, ind):
        s = '%smatch %s {\n' % (ind, self.subj.src())
        for pat, body in self.arms:
            s += '%s    %s => {\n%s%s    }\n' % (ind, pat.src() if pat is not None else '_', block_src(body, ind + '        '), ind)
        return s + ind + '}'


class ExprStmt:
    def __init__(self, e):
        self.e = e

    def src(self, ind):
        return ind + self.e.src() + ';'


class Print:
    def __init__(self, e):
        self.e = e

    def src(self, ind):
        return '%sio::Println(%s);' % (ind, self.e.src())


class Append:
    def __init__(self, arr, e):
        self.arr, self.e = arr, e

    def src(self, ind):
        return "%sappend(&'%s, %s);" % (ind, self.arr.src(), self.e.src())


class FuncLitLet:
    """let name := fn(params) -> ret { body };   the body may use (and assign) variables of the enclosing function:
    they are captured by reference - the literal and the enclosing function see each other's writes"""

    def __init__(self, name, func):
        self.name, self.func = name, func

    def src(self, ind):
        f = self.func
        ps = ', '.join('%s: %s' % (n, t.name) for n, t in f.params)
        return '%slet %s := fn(%s) -> %s {\n%s%s};' % (ind, self.name, ps, f.ret.name, block_src(f.body, ind + '    '), ind)


class Raw:
    """Raw source line with no reference meaning (only for shapes whose semantics are irrelevant)."""

    def __init__(self, text):
        self.text = text

    def src(self, ind):
        return ind + self.text


def block_src(stmts, ind):
    return ''.join(s.src(ind) + '\n' for s in stmts)


class Func:
    def __init__(self, name, params, ret, body, recv=None):
        self.name, self.params, self.ret, self.body, self.recv = name, params, ret, body, recv

    def src(self):
        ps = ', '.join('%s: %s' % (n, t.name) for n, t in self.params)
        r = '' if isinstance(self.ret, VoidT) else ' -> %s' % self.ret.name
        rc = '' if self.recv is None else '(%s: %s) ' % (self.recv[0], self.recv[1].name)
        return 'fn %s%s(%s)%s {\n%s}\n' % (rc, self.name, ps, r, block_src(self.body, '    '))


class Program:
    def __init__(self, funcs, types=(), consts=()):
        self.funcs, self.types, self.consts = list(funcs), list(types), list(consts)

    def src(self, main_body=None):
        out = ['import "std/io";\n']
        for t in self.types:
            if isinstance(t, StructT):
                out.append('type %s struct {\n%s\n};\n' % (t.name, ',\n'.join('    .%s: %s' % (f, ft.name) for f, ft in t.fields)))
            elif isinstance(t, EnumT):
                out.append('type %s enum {\n%s\n};\n' % (t.name, ',\n'.join('    ' + v for v in t.variants)))
        for c in self.consts:
            out.append(c.src(''))
        for f in self.funcs:
            out.append(f.src())
        if main_body is None:
            main_body = '    io::Println(0);\n'
        out.append('fn main() {\n%s}\n' % main_body)
        return '\n'.join(out)

    def func(self, name):
        for f in self.funcs:
            if f.name == name:
                return f
        raise KeyError(name)


# ---------------------------------------------------------------------------------------- reference evaluator
class DynArr:
    """Reference model of a dynamic array: a list of element values (concrete length)."""

    def __init__(self, elems):
        self.elems = list(elems)


class OptVal:
    def __init__(self, has, val):
        self.has, self.val = has, val


class ResVal:
    def __init__(self, is_err, ok, err):
        self.is_err, self.ok, self.err = is_err, ok, err


class RefVal:
    def __init__(self, env, name, path):
        self.env, self.name, self.path = env, name, path


class StrVal:
    """Reference model of a string value: symbolic length (32 bit) and a padded list of byte terms."""

    def __init__(self, n, bs):
        self.n, self.bs = n, bs

    @staticmethod
    def lit(b):
        return StrVal(z3.BitVecVal(len(b), 32), [z3.BitVecVal(c, 8) for c in b])


class RefResult:
    def __init__(self):
        self.ret = None
        self.panicked = z3.BoolVal(False)
        self.trapped = z3.BoolVal(False)
        self.exceeded = z3.BoolVal(False)
        self.events = []  # (guard, kind, payload)


def ite_val(c, a, b):
    if a is b:
        return a
    if isinstance(a, dict):
        return {k: ite_val(c, a[k], b[k]) for k in a}
    if isinstance(a, list):
        if len(a) != len(b):
            raise Unsupported('merge of arrays of different length')
        return [ite_val(c, x, y) for x, y in zip(a, b)]
    if isinstance(a, OptVal):
        return OptVal(z3.If(c, a.has, b.has), ite_val(c, a.val, b.val))
    if isinstance(a, ResVal):
        return ResVal(z3.If(c, a.is_err, b.is_err), ite_val(c, a.ok, b.ok), ite_val(c, a.err, b.err))
    if isinstance(a, StrVal):
        m = max(len(a.bs), len(b.bs))
        pa = a.bs + [z3.BitVecVal(0, 8)] * (m - len(a.bs))
        pb = b.bs + [z3.BitVecVal(0, 8)] * (m - len(b.bs))
        return StrVal(z3.If(c, a.n, b.n), [z3.If(c, x, y) for x, y in zip(pa, pb)])
    if isinstance(a, (DynArr, RefVal)):
        raise Unsupported('merge of distinct array/reference values')
    return z3.If(c, a, b)


def default_val(ty):
    if isinstance(ty, IntT):
        return z3.BitVecVal(0, ty.bits)
    if isinstance(ty, BoolT):
        return z3.BoolVal(False)
    if isinstance(ty, StructT):
        return {f: default_val(t) for f, t in ty.fields}
    if isinstance(ty, ArrT):
        return [default_val(ty.elem) for _ in range(ty.n)]
    if isinstance(ty, OptT):
        return OptVal(z3.BoolVal(False), default_val(ty.elem))
    if isinstance(ty, ResT):
        return ResVal(z3.BoolVal(False), default_val(ty.ok), default_val(ty.err))
    if isinstance(ty, EnumT):
        return z3.BitVecVal(0, 32)
    raise Unsupported('default of %s' % ty)


class RefEval:
    def __init__(self, prog, unroll=4, depth=6):
        self.prog = prog
        self.unroll = unroll
        self.maxdepth = depth
        self.res = RefResult()

    # ---- top level
    def run(self, fname, args):
        f = self.prog.func(fname)
        v = self.call(f, args, z3.BoolVal(True), 0)
        self.res.ret = v
        return self.res

    def dead(self):
        return z3.Or(self.res.panicked, self.res.trapped, self.res.exceeded)

    def call(self, f, args, guard, depth, recv=None, cenv=None):
        if depth > self.maxdepth:
            self.res.exceeded = z3.Or(self.res.exceeded, guard)
            return default_val(f.ret) if not isinstance(f.ret, VoidT) else None
        env = {} if cenv is None else ScopeEnv(cenv)   # a function literal runs inside the scope that created it
        if f.recv is not None:
            env[f.recv[0]] = recv
        for (n, t), a in zip(f.params, args):
            if cenv is None:
                env[n] = a
            else:
                env.declare(n, a)
        ctx = {'returned': z3.BoolVal(False), 'ret': None if isinstance(f.ret, VoidT) else default_val(f.ret),
               'guard': guard, 'depth': depth, 'loops': [], 'fn': f}
        self.block(f.body, env, ctx, guard)
        return ctx['ret']

    def uncond(self, ctx, g):
        """True when the statement executes on every run that is still alive (only death could skip it)."""
        c = z3.And(g, z3.Not(ctx['returned']))
        for lp in ctx['loops']:
            c = z3.And(c, z3.Not(lp['brk']), z3.Not(lp['cont']))
        return z3.is_true(z3.simplify(c))

    def live(self, ctx, g):
        c = z3.And(g, z3.Not(ctx['returned']), z3.Not(self.dead()))
        for lp in ctx['loops']:
            c = z3.And(c, z3.Not(lp['brk']), z3.Not(lp['cont']))
        return z3.simplify(c)

    # ---- statements
    def block(self, stmts, env, ctx, g):
        env = ScopeEnv(env)
        for s in stmts:
            self.stmt(s, env, ctx, g)

    def stmt(self, s, env, ctx, g):
        lv = self.live(ctx, g)
        if isinstance(s, Let):
            v = self.eval(s.e, env, ctx, lv)
            if not isinstance(s.ty, RefT):
                v = self.deref(v, lv)
            v = self.coerce(v, s.e.ty, s.ty)
            env.declare(s.name, self.copy(v))
        elif isinstance(s, Assign):
            v = self.deref(self.eval(s.e, env, ctx, lv), lv)
            v = self.coerce(v, s.e.ty, s.place.ty)
            if isinstance(s.place, Var) and self.uncond(ctx, g) and not isinstance(env.lookup(s.place.name), RefVal):
                env.find(s.place.name).set(s.place.name, self.copy(v))  # state after death is irrelevant
            else:
                self.write(s.place, env, ctx, lv, self.copy(v))
        elif isinstance(s, OpAssign):
            cur = self.eval(s.place, env, ctx, lv)
            r = self.eval(s.e, env, ctx, lv)
            pty = s.place.ty.elem if isinstance(s.place.ty, RefT) else s.place.ty
            v = self.binop(s.op, cur, r, pty, lv)
            self.write(s.place, env, ctx, self.live(ctx, g), v)
        elif isinstance(s, IncDec):
            cur = self.eval(s.place, env, ctx, lv)
            pty = s.place.ty.elem if isinstance(s.place.ty, RefT) else s.place.ty
            one = z3.BitVecVal(1, pty.bits)
            self.write(s.place, env, ctx, lv, cur + one if s.op == '++' else cur - one)
        elif isinstance(s, If):
            c = self.eval(s.cond, env, ctx, lv)
            self.block(s.then, env, ctx, z3.And(g, c))
            if s.els is not None:
                if isinstance(s.els, If):
                    self.stmt(s.els, env, ctx, z3.And(g, z3.Not(c)))
                else:
                    self.block(s.els, env, ctx, z3.And(g, z3.Not(c)))
        elif isinstance(s, While):
            lp = {'brk': z3.BoolVal(False), 'cont': z3.BoolVal(False)}
            ctx['loops'].append(lp)
            gg = g
            for k in range(self.unroll + 1):
                lp['cont'] = z3.BoolVal(False)
                lvk = self.live(ctx, gg)
                c = self.eval(s.cond, env, ctx, lvk)
                gg = z3.And(gg, c)
                if z3.is_false(z3.simplify(self.live(ctx, gg))):
                    break      # the loop has ended on every run (concrete trip count)
                if k == self.unroll:
                    self.res.exceeded = z3.Or(self.res.exceeded, self.live(ctx, gg))
                    break
                self.block(s.body, env, ctx, gg)
            ctx['loops'].pop()
        elif isinstance(s, ForRange):
            self._rng = getattr(self, '_rng', 0) + 1
            lo_n, hi_n = '__rlo%d' % self._rng, '__rhi%d' % self._rng
            v = Var(s.v, s.ty)
            desugared = [Let(lo_n, s.ty, s.lo), Let(hi_n, s.ty, s.hi), Let(s.v, s.ty, Var(lo_n, s.ty)),
                         While(Cmp('<=' if s.inclusive else '<', v, Var(hi_n, s.ty)), list(s.body) + [Assign(v, Bin('+', v, Lit(1, s.ty)))])]
            self.block(desugared, env, ctx, g)
        elif isinstance(s, ForIn):
            arr = self.eval(s.arr, env, ctx, lv)
            elems = arr.elems if isinstance(arr, DynArr) else arr
            lp = {'brk': z3.BoolVal(False), 'cont': z3.BoolVal(False)}
            ctx['loops'].append(lp)
            n = len(elems)
            for k in range(n):
                lp['cont'] = z3.BoolVal(False)
                inner = ScopeEnv(env)
                inner.declare(s.i, z3.BitVecVal(k, 32))
                cur = arr.elems if isinstance(arr, DynArr) else elems
                if k >= len(cur):
                    break
                inner.declare(s.v, self.copy(cur[k]))
                self.block(s.body, inner, ctx, g)
            ctx['loops'].pop()
        elif isinstance(s, Break):
            ctx['loops'][-1]['brk'] = z3.Or(ctx['loops'][-1]['brk'], lv)
        elif isinstance(s, Continue):
            ctx['loops'][-1]['cont'] = z3.Or(ctx['loops'][-1]['cont'], lv)
        elif isinstance(s, Return):
            if s.e is not None:
                v = self.eval(s.e, env, ctx, lv)
                if not isinstance(ctx['fn'].ret, RefT):
                    v = self.deref(v, lv)
                rt = ctx['fn'].ret
                if isinstance(rt, ResT):
                    v = ResVal(z3.BoolVal(False), self.coerce(v, s.e.ty, rt.ok), default_val(rt.err))
                else:
                    v = self.coerce(v, s.e.ty, rt)
                lv = self.live(ctx, g)
                ctx['ret'] = ite_val(lv, self.copy(v), ctx['ret'])
            ctx['returned'] = z3.Or(ctx['returned'], lv)
        elif isinstance(s, ReturnErr):
            rt = ctx['fn'].ret
            v = self.deref(self.eval(s.e, env, ctx, lv), lv)
            v = ResVal(z3.BoolVal(True), default_val(rt.ok), self.coerce(v, s.e.ty, rt.err))
            lv = self.live(ctx, g)
            ctx['ret'] = ite_val(lv, v, ctx['ret'])
            ctx['returned'] = z3.Or(ctx['returned'], lv)
        elif isinstance(s, Match):
            subj = self.eval(s.subj, env, ctx, lv)
            taken = z3.BoolVal(False)
            # the default arm is the fallback WHEREVER it is written: the compiler lowers arms that follow `_` as live
            # (its "unreachable case after default" warning notwithstanding), and the return-path analysis agrees
            arms = [a for a in s.arms if a[0] is not None] + [a for a in s.arms if a[0] is None]
            for pat, body in arms:
                if pat is None:
                    c = z3.Not(taken)
                else:
                    pv = self.eval(pat, env, ctx, lv)
                    c = z3.And(z3.Not(taken), subj == pv)
                self.block(body, env, ctx, z3.And(g, c))
                taken = z3.Or(taken, c)
        elif isinstance(s, ExprStmt):
            self.eval(s.e, env, ctx, lv)
        elif isinstance(s, Print):
            v = self.eval(s.e, env, ctx, lv)
            self.res.events.append((self.live(ctx, g), 'print', (s.e.ty, v)))
        elif isinstance(s, Append):
            arr = self.eval(s.arr, env, ctx, lv)
            v = self.eval(s.e, env, ctx, lv)
            if z3.is_false(z3.simplify(lv)):
                return
            if not z3.is_true(z3.simplify(lv)):
                raise Unsupported('append under a symbolic guard')
            arr.elems.append(self.copy(v))
        elif isinstance(s, FuncLitLet):
            env.declare('fn:' + s.name, Closure(s.func, env))
        elif isinstance(s, Raw):
            raise Unsupported('raw statement has no reference meaning')
        else:
            raise Unsupported('statement %r' % s)

    # ---- places
    def place(self, e, env, ctx, lv):
        """Resolve a place expression to (env, name, path); path items: ('f', name) | ('i', idx_term, n)."""
        if isinstance(e, Var):
            v = env.lookup(e.name)
            if isinstance(v, RefVal):
                return v.env, v.name, list(v.path)
            return env.find(e.name), e.name, []
        if isinstance(e, Field):
            en, n, p = self.place(e.e, env, ctx, lv)
            return en, n, p + [('f', e.name)]
        if isinstance(e, Index):
            en, n, p = self.place(e.e, env, ctx, lv)
            idx = self.eval(e.idx, env, ctx, lv)
            return en, n, p + [('i', idx, e.idx.ty)]
        raise Unsupported('place %r' % e)

    def norm_index(self, idx, ity, n, lv):
        """Normalise a (possibly negative) index of integer type ity against length n; returns (k_term as int-sort-free
        list of conditions).  Panics (under lv) when outside [-n, n)."""
        w = ity.bits
        if ity.signed:
            neg = idx < 0
            eff = z3.If(neg, idx + z3.BitVecVal(n, w) if n < (1 << (w - 1)) else idx, idx)
            # in range iff -n <= idx < n  (careful with narrow widths: compare in a wide domain)
            wide = z3.SignExt(72 - w, idx)
        else:
            wide = z3.ZeroExt(72 - w, idx)
        inr = z3.And(wide >= z3.BitVecVal(-n, 72), wide < z3.BitVecVal(n, 72))
        effw = z3.If(wide < 0, wide + z3.BitVecVal(n, 72), wide)
        self.res.panicked = z3.Or(self.res.panicked, z3.And(lv, z3.Not(inr)))
        return effw

    def str_index(self, sv, idx, ity, lv):
        w = ity.bits
        wide = z3.SignExt(72 - w, idx) if ity.signed else z3.ZeroExt(72 - w, idx)
        n = z3.ZeroExt(40, sv.n)
        inr = z3.And(wide >= -n, wide < n)
        eff = z3.If(wide < 0, wide + n, wide)
        self.res.panicked = z3.Or(self.res.panicked, z3.And(lv, z3.Not(inr)))
        r = z3.BitVecVal(0, 8)
        for k in range(len(sv.bs) - 1, -1, -1):
            r = z3.If(eff == z3.BitVecVal(k, 72), sv.bs[k], r)
        return r

    def read_path(self, v, path, lv):
        for it in path:
            if isinstance(v, RefVal):
                v = self.read_path(v.env.get(v.name), v.path, lv)
            if it[0] == 'f':
                v = v[it[1]]
            else:
                elems = v.elems if isinstance(v, DynArr) else v
                n = len(elems)
                if n == 0:
                    self.res.panicked = z3.Or(self.res.panicked, lv)
                    raise _Empty()
                effw = self.norm_index(it[1], it[2], n, lv)
                r = elems[n - 1]
                for k in range(n - 2, -1, -1):
                    r = ite_val(effw == z3.BitVecVal(k, 72), elems[k], r)
                v = r
        return v

    def write_path(self, v, path, lv, new):
        if not path:
            if z3.is_true(z3.simplify(lv)):
                return new
            return ite_val(lv, new, v)
        it = path[0]
        if it[0] == 'f':
            nv = dict(v)
            nv[it[1]] = self.write_path(v[it[1]], path[1:], lv, new)
            return nv
        elems = v.elems if isinstance(v, DynArr) else v
        n = len(elems)
        if n == 0:
            self.res.panicked = z3.Or(self.res.panicked, lv)
            return v
        effw = self.norm_index(it[1], it[2], n, lv)
        lv2 = z3.And(lv, z3.Not(self.dead()))
        out = [self.write_path(elems[k], path[1:], z3.And(lv2, effw == z3.BitVecVal(k, 72)), new) for k in range(n)]
        if isinstance(v, DynArr):
            v.elems = out
            return v
        return out

    def write(self, place, env, ctx, lv, new):
        en, n, p = self.place(place, env, ctx, lv)
        lv = z3.And(lv, z3.Not(self.dead()))
        en.set(n, self.write_path(en.get(n), p, lv, new))

    # ---- expressions
    def coerce(self, v, from_ty, to_ty):
        if isinstance(to_ty, OptT) and not isinstance(from_ty, OptT):
            return OptVal(z3.BoolVal(True), v)
        return v

    def copy(self, v):
        if isinstance(v, dict):
            return {k: self.copy(x) for k, x in v.items()}
        if isinstance(v, list):
            return [self.copy(x) for x in v]
        return v

    def binop(self, op, a, b, ty, lv):
        if op == '+':
            return a + b
        if op == '-':
            return a - b
        if op == '*':
            return a * b
        if op == '&':
            return a & b
        if op == '|':
            return a | b
        if op == '^':
            return a ^ b
        if op in ('/', '%'):
            w = ty.bits
            bad = b == 0
            if ty.signed:
                bad = z3.Or(bad, z3.And(a == z3.BitVecVal(1 << (w - 1), w), b == z3.BitVecVal(-1, w)))
            self.res.trapped = z3.Or(self.res.trapped, z3.And(lv, bad))
            # Truncating division of the *values*: for types narrower than 32 bits the values are divided at 32 bits
            # (sign-/zero-extended) and the result wrapped to the declared width - the same mathematical function
            # as a w-bit bvsdiv/bvudiv, written at the width at which equivalence queries stay tractable.
            if w < 32:
                ea = z3.SignExt(32 - w, a) if ty.signed else z3.ZeroExt(32 - w, a)
                eb = z3.SignExt(32 - w, b) if ty.signed else z3.ZeroExt(32 - w, b)
                if ty.signed:
                    r = ea / eb if op == '/' else z3.SRem(ea, eb)
                else:
                    r = z3.UDiv(ea, eb) if op == '/' else z3.URem(ea, eb)
                return z3.Extract(w - 1, 0, r)
            if ty.signed:
                return a / b if op == '/' else z3.SRem(a, b)
            return z3.UDiv(a, b) if op == '/' else z3.URem(a, b)
        raise Unsupported('binop %s' % op)

    def eval(self, e, env, ctx, lv):
        if isinstance(e, Var):
            v = env.lookup(e.name)
            if isinstance(v, RefVal) and not isinstance(e.ty, RefT):
                return self.read_path(v.env.get(v.name), v.path, lv)
            if isinstance(v, RefVal):
                return v
            return v
        if isinstance(e, Lit):
            if isinstance(e.ty, BoolT):
                return z3.BoolVal(bool(e.v))
            return z3.BitVecVal(e.v, e.ty.bits)
        if isinstance(e, Bin):
            a = self.deref(self.eval(e.l, env, ctx, lv), lv)
            b = self.deref(self.eval(e.r, env, ctx, lv), lv)
            return self.binop(e.op, a, b, e.ty.elem if isinstance(e.ty, RefT) else e.ty, lv)
        if isinstance(e, Cmp):
            a = self.deref(self.eval(e.l, env, ctx, lv), lv)
            b = self.deref(self.eval(e.r, env, ctx, lv), lv)
            t = e.l.ty.elem if isinstance(e.l.ty, RefT) else e.l.ty
            if isinstance(t, BoolT):
                return {'==': a == b, '!=': a != b}[e.op]
            s = getattr(t, 'signed', True)
            return {'==': lambda: a == b, '!=': lambda: a != b,
                    '<': lambda: a < b if s else z3.ULT(a, b), '<=': lambda: a <= b if s else z3.ULE(a, b),
                    '>': lambda: a > b if s else z3.UGT(a, b), '>=': lambda: a >= b if s else z3.UGE(a, b)}[e.op]()
        if isinstance(e, Logic):
            a = self.eval(e.l, env, ctx, lv)
            if e.op == '&&':
                b = self.eval(e.r, env, ctx, z3.And(lv, a))
                return z3.And(a, b)
            b = self.eval(e.r, env, ctx, z3.And(lv, z3.Not(a)))
            return z3.Or(a, b)
        if isinstance(e, Not):
            return z3.Not(self.eval(e.e, env, ctx, lv))
        if isinstance(e, Neg):
            return -self.deref(self.eval(e.e, env, ctx, lv), lv)
        if isinstance(e, Cast):
            v = self.deref(self.eval(e.e, env, ctx, lv), lv)
            ft = e.e.ty.elem if isinstance(e.e.ty, RefT) else e.e.ty
            tt = e.ty
            if isinstance(ft, IntT) and isinstance(tt, IntT):
                if tt.bits == ft.bits:
                    return v
                if tt.bits < ft.bits:
                    return z3.Extract(tt.bits - 1, 0, v)
                return z3.SignExt(tt.bits - ft.bits, v) if ft.signed else z3.ZeroExt(tt.bits - ft.bits, v)
            if isinstance(ft, EnumT) and isinstance(tt, IntT):
                return v if tt.bits == 32 else (z3.Extract(tt.bits - 1, 0, v) if tt.bits < 32 else z3.SignExt(tt.bits - 32, v))
            raise Unsupported('cast %s -> %s' % (ft, tt))
        if isinstance(e, (Field, Index)):
            base = e
            chain = []
            while isinstance(base, (Field, Index)):
                chain.append(base)
                base = base.e
            v = self.eval(base, env, ctx, lv)
            for c in reversed(chain):
                if isinstance(v, RefVal):
                    v = self.read_path(v.env.get(v.name), v.path, lv)
                if isinstance(c, Field):
                    v = v[c.name]
                else:
                    idx = self.eval(c.idx, env, ctx, lv)
                    if isinstance(v, StrVal):
                        v = self.str_index(v, idx, c.idx.ty, lv)
                        continue
                    try:
                        v = self.read_path(v, [('i', idx, c.idx.ty)], lv)
                    except _Empty:
                        v = default_val(c.ty)
            return v
        if isinstance(e, StrLit):
            return StrVal.lit(e.s.encode())
        if isinstance(e, Len):
            v = self.deref(self.eval(e.e, env, ctx, lv), lv)
            if isinstance(v, StrVal):
                return v.n
            n = len(v.elems) if isinstance(v, DynArr) else len(v)
            return z3.BitVecVal(n, 32)
        if isinstance(e, StructLit):
            return {f: self.coerce(self.eval(e.vals[f], env, ctx, lv), e.vals[f].ty, t) for f, t in e.ty.fields}
        if isinstance(e, ArrLit):
            vs = [self.eval(x, env, ctx, lv) for x in e.elems]
            return DynArr(vs) if isinstance(e.ty, DynT) else vs
        if isinstance(e, NoneLit):
            return OptVal(z3.BoolVal(False), default_val(e.ty.elem))
        if isinstance(e, Coalesce):
            o = self.eval(e.opt, env, ctx, lv)
            d = self.eval(e.dflt, env, ctx, lv)
            return ite_val(o.has, o.val, d)
        if isinstance(e, IsSome):
            o = self.eval(e.opt, env, ctx, lv)
            return z3.Not(o.has) if e.neg else o.has
        if isinstance(e, Unwrap):
            return self.eval(e.opt, env, ctx, lv).val
        if isinstance(e, EnumVal):
            return z3.BitVecVal(e.ty.variants.index(e.variant), 32)
        if isinstance(e, AddrOf):
            en, n, p = self.place(e.place, env, ctx, lv)
            for it in p:
                if it[0] == 'i' and not z3.is_bv_value(z3.simplify(it[1])):
                    raise Unsupported('reference to an element at a symbolic index')
            return RefVal(en, n, p)
        if isinstance(e, Catch):
            r = self.eval(e.call, env, ctx, lv)
            if e.handler is not None:
                inner = ScopeEnv(env)
                inner.declare(e.errname, r.err)
                # the handler runs only on the error side; a return inside it leaves the enclosing function
                self.block(e.handler, inner, ctx, z3.And(ctx['guard'] if False else lv, r.is_err))
            fb = self.eval(e.fallback, env, ctx, z3.And(lv, r.is_err))
            fb = self.coerce(fb, e.fallback.ty, e.ty)
            return ite_val(r.is_err, fb, r.ok)
        if isinstance(e, Call):
            try:
                f = env.lookup('fn:' + e.fname)
            except KeyError:
                f = self.prog.func(e.fname)
            cenv = None
            if isinstance(f, Closure):
                f, cenv = f.func, f.env
            args = []
            for a, (pn, pt) in zip(e.args, f.params):
                v = self.eval(a, env, ctx, lv)
                if not isinstance(pt, RefT):
                    v = self.copy(self.deref(v, lv))
                args.append(v)
            return self.call(f, args, lv, ctx['depth'] + 1, cenv=cenv)
        if isinstance(e, MethodCall):
            f = [x for x in self.prog.funcs if x.name == e.mname and x.recv is not None][0]
            if isinstance(f.recv[1], RefT):
                en, n, p = self.place(e.recv, env, ctx, lv)
                recv = RefVal(en, n, p)
            else:
                recv = self.copy(self.eval(e.recv, env, ctx, lv))
            args = [self.copy(self.eval(a, env, ctx, lv)) for a in e.args]
            return self.call(f, args, lv, ctx['depth'] + 1, recv=recv)
        raise Unsupported('expression %r' % e)

    def deref(self, v, lv):
        if isinstance(v, RefVal):
            return self.read_path(v.env.get(v.name), v.path, lv)
        return v


class Closure:
    def __init__(self, func, env):
        self.func, self.env = func, env


class _Empty(Exception):
    pass


class ScopeEnv:
    """Lexically scoped environment (chain of dicts)."""

    def __init__(self, parent=None):
        self.parent = parent if isinstance(parent, ScopeEnv) else None
        self.vars = dict(parent) if isinstance(parent, dict) else {}

    def declare(self, n, v):
        self.vars[n] = v

    def find(self, n):
        e = self
        while e is not None:
            if n in e.vars:
                return e
            e = e.parent
        raise KeyError(n)

    def lookup(self, n):
        return self.find(n).vars[n]

    def get(self, n):
        return self.find(n).vars[n]

    def set(self, n, v):
        self.find(n).vars[n] = v
