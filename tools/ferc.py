#!/usr/bin/env python3
"""ferc.py [native|wasm|check] < program.fer : compile a Ferret program with a compiler freshly built from VERIF_REPO
(default /repo) and, for native, run it.  Exploration helper, not a registered check."""
import sys, os
sys.path.insert(0, os.path.dirname(os.path.dirname(os.path.abspath(__file__))))
from vlib import build
target = sys.argv[1] if len(sys.argv) > 1 else 'native'
import re
progs = re.split(r'^//====.*$', sys.stdin.read(), flags=re.M)
for k, text in enumerate(progs):
  if not text.strip():
    continue
  print('== program %d: %s' % (k, text.strip().splitlines()[0][:80]))
  c = build.compile_fer(text, target)
  print('rc=%s errors=%d' % (c.rc, c.diag_errors))
  for l in c.out.splitlines():
      if l.startswith(('error', 'warning')) or 'Compilation' in l:
          print('  ' + l)
  if c.exe:
      rc, so, se = build.run_exe(c.exe, pty=True)
      print('exit=%s' % rc)
      print(so.rstrip())
      if se.strip():
          print('stderr: ' + se.strip()[:300])
