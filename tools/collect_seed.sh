#!/bin/bash
# collect_seed.sh <round> <Cxx> : move a round-3 sub-agent result (SEED/ in its scratch worktree) into /verif/seeded/<Cxx>-r$R,
# confirm it in a fresh scratch worktree (tools/verify_seed.sh) and remove the sub-agent's worktree.
R="$1"; id="$2"; wt=/tmp/seed$R/$id; dst=/verif/seeded/$id-r$R
[ -d "$wt/SEED" ] || { echo "no SEED dir in $wt"; exit 1; }
mkdir -p "$dst"
cp -r "$wt/SEED/." "$dst/"
if [ ! -s "$dst/patch.diff" ]; then git -C "$wt" diff > "$dst/patch.diff"; fi
# run.sh scripts refer to their own location; keep them relocatable
sed -i "s#/tmp/seed$R/$id/SEED#$dst#g; s#/tmp/seed$R/$id#\$1#g" "$dst/run.sh" 2>/dev/null
/verif/tools/verify_seed.sh "$id-r$R" "$dst" | tee "$dst/verify.json"
git -C /repo worktree remove --force "$wt" >/dev/null 2>&1; rm -rf "$wt"; git -C /repo worktree prune
