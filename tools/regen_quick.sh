#!/bin/bash
# regen_quick.sh : run every quick check on /repo's working tree (sequentially) and rewrite the evidence files.
cd /verif
log=${1:-/tmp/regen_quick.log}
rm -f "$log"
for i in 01 02 03 04 05 06 07 08 09 10 11 12 13 14 15 16 17 18 19 20; do
  s=$(date +%s)
  VERIF_SEED=1 ./check C$i --tier quick > /tmp/quick_C$i.log 2>&1; rc=$?
  e=$(date +%s)
  echo "C$i rc=$rc $((e-s))s $(tail -1 /tmp/quick_C$i.log)" >> "$log"
done
echo ALLDONE >> "$log"
