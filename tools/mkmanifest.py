#!/usr/bin/env python3
"""Regenerate MANIFEST.json from the table below (single source of truth for the registered checks)."""
import json, os
V = os.path.dirname(os.path.dirname(os.path.abspath(__file__)))
props = [json.loads(l) for l in open(os.path.join(V, 'properties.jsonl'))]

CHECKS = {
 'C01': dict(level='translation_validation', engine='lirsym/qbe', design='4/C01',
   technique='SMT-decided translation validation: symbolic execution of the emitted QBE IL vs a reference evaluator, all parameter values, z3',
   text='For a generated family of core-language template functions the QBE IL emitted by the freshly built compiler is executed symbolically with all parameters free 64-bit vectors; z3 decides, per IL path, equality with an independent reference evaluation (return value, panic, trap, prints). Bounded by the template family and loop unrolling; every counterexample and one witness per template is replayed on the linked native executable.',
   note='Trusted: z3; QBE IL semantics in lirsym/qbe.py (validated by witness replay through qbe+as+ld each run); runtime contracts in lirsym/rtsum.py (discharged by C16/C17); reference semantics templates/lang.py. Program shapes outside the families are not covered.'),
}
NA_DEFAULT = 'check not built yet (work in progress, see DESIGN.md section 11)'
NA = {}

def main():
    checks = []
    for p in props:
        c = CHECKS.get(p['id'])
        if not c:
            continue
        checks.append({
            'property_id': p['id'],
            'quick_cmd': './check %s --tier quick' % p['id'],
            'thorough_cmd': './check %s --tier thorough' % p['id'],
            'evidence_file': '/verif/evidence/%s.json' % p['id'],
            'replay_cmd_template': 'cat {path}',
            'engine': c['engine'],
            'level_claimed': {'category': c['level'], 'text': c['text'], 'design_ref': 'DESIGN.md section ' + c['design']},
            'level_note': c['note'],
            'technique': c['technique'],
        })
    m = {
        'version': 1,
        'setup_cmd': './setup.sh',
        'hooks': {'guard': 'verif', 'enable': 'no guarded code in /repo: Go harnesses are injected with go/packages overlays (symbolic run) and go test -overlay (native replay); the tag verif is reserved',
                  'baseline_off_cmd': 'cd /repo && go test -mod=mod -vet=off -count=1 -timeout 25m ./...', 'source_commits': [], 'add_only': True},
        'engines': [
            {'name': 'lirsym/qbe', 'path': 'lirsym/qbe.py', 'serves_properties': ['C01', 'C04', 'C05', 'C08', 'C09', 'C18'], 'kind_free_text': 'path-wise symbolic executor for the QBE IL the compiler emits (Python, z3 API)'},
        ],
        'checks': checks,
        'notes': 'Solver-based checking only; see DESIGN.md. Exit codes: 0 held, 1 violation, 2 inconclusive.',
        'not_applicable': [{'property_id': p['id'], 'reason': NA.get(p['id'], NA_DEFAULT)} for p in props if p['id'] not in CHECKS],
    }
    json.dump(m, open(os.path.join(V, 'MANIFEST.json'), 'w'), indent=1)
    print('checks:', [c['property_id'] for c in checks])

if __name__ == '__main__':
    main()
