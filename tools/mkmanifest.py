#!/usr/bin/env python3
"""Regenerate MANIFEST.json from the table below (single source of truth for the registered checks)."""
import json, os
V = os.path.dirname(os.path.dirname(os.path.abspath(__file__)))
props = [json.loads(l) for l in open(os.path.join(V, 'properties.jsonl'))]

CHECKS = {
 'C01': dict(level='translation_validation', engine='lirsym/qbe', design='4/C01',
   technique='SMT-decided translation validation: symbolic execution of the emitted QBE IL vs a reference evaluator, all parameter values, z3',
   text='For a generated family of core-language template functions the QBE IL emitted by the freshly built compiler is executed symbolically with all parameters free 64-bit vectors; z3 decides, per IL path, equality with an independent reference evaluation (return value, panic, trap, prints). Bounded by the template family and loop unrolling; every counterexample and one witness per template is replayed on the linked native executable.',
   note='Trusted: z3; QBE IL semantics in lirsym/qbe.py (validated by witness replay through qbe+as+ld each run); runtime contracts in lirsym/rtsum.py (discharged by C16/C17); reference semantics templates/lang.py. Program shapes outside the families are not covered.'),
}
_TV_NOTE = 'Trusted: z3; QBE IL semantics in lirsym/qbe.py (validated by witness replay through qbe+as+ld each run); runtime contracts in lirsym/rtsum.py (discharged by C16/C17); reference semantics templates/lang.py. Program shapes outside the generated families are not covered.'
CHECKS.update({
 'C04': dict(level='model_checking', engine='lirsym/qbe', design='4/C04',
   technique='bounded symbolic execution of emitted QBE IL with region memory-safety obligations, all index/parameter values, z3',
   text='Fixed-array templates (literal, const, let, branch-reassigned, loop-carried and parameter indices; reads and writes; N in {1,3} quick) are compiled by the fresh compiler; the IL is executed symbolically, every access must stay inside the array region and the result must equal a reference evaluation using the run-time index value; out-of-range executions must panic or the program be rejected. All parameter values; loops unrolled with unwinding assertion.',
   note=_TV_NOTE),
 'C05': dict(level='model_checking', engine='lirsym/qbe', design='4/C05',
   technique='bounded symbolic execution of emitted QBE IL: reachability of value-less ret (fall-off) for all argument values, z3',
   text='Function bodies generated from nested if/else-if/else, match with and without default, while/break, early returns (depth 1 + sampled sequences quick; depth 2 thorough) in named functions, methods and function literals. For every accepted body the solver decides that no feasible IL path reaches a ret without value and that the returned value equals the reference; rejected bodies are not constrained.',
   note=_TV_NOTE + ' Loop conditions in the shapes are loop-invariant, so runs beyond the unrolling never terminate and are outside the obligation.'),
 'C08': dict(level='model_checking', engine='lirsym/qbe', design='4/C08',
   technique='bounded symbolic execution of emitted QBE IL against array/string contracts: all index values of 4-7 index types, z3',
   text='Dynamic-array and string templates (literal construction, appends, element assignment, re-binding, indexing with opaque, let-bound and literal indices). For all index values: in range => the stored element, out of range => an index-out-of-bounds panic with no runtime access outside [0,len); literal indices valid for the current length must compile; prints before a panic stay in the trace.',
   note=_TV_NOTE + ' Delivery of buffered stdout on abort (panic.c) is not decided here.'),
 'C18': dict(level='model_checking', engine='lirsym/qbe', design='4/C18',
   technique='bounded symbolic execution of emitted QBE IL: write-one/read-every-component non-interference, all values, z3',
   text='L2: for a pool of struct types one template per (written component, read component / neighbour local / copy): the IL is executed symbolically and the solver decides that the written component reads back the new value and every other component, neighbouring locals and copies are unchanged, for all values. L1 (gosym): alignTo; SizeOf / AlignOf / StructLayout / resultTagOffset for a pool of 16 payload types x both pointer sizes; HISTORY INDEPENDENCE of DataLayout: two five-field structs agreeing on their first two and last fields, middle fields symbolic, laid out on one DataLayout in either order, must each get the layout a fresh DataLayout gives.',
   note=_TV_NOTE + ' Pointer size 4 (wasm) and result types are not covered yet.'),
})
CHECKS['C09'] = dict(level='translation_validation', engine='lirsym/qbe', design='4/C09',
   technique='SMT-decided relational translation validation: IL of P vs IL of rewrite R(P), all parameter values, z3',
   text='For base templates (arithmetic, comparisons, control flow, composites, constant-expression forms) and four meaning-preserving rewrites (literal -> call, bind subexpression to a local, let -> const, wrap in if true {}) both programs are compiled by the fresh compiler; obligations: same accept/reject (apart from the documented constant-index rule) and, for every pair of IL paths, no input on which return value, termination or prints differ. Counterexamples are replayed on both native executables.',
   note=_TV_NOTE + ' No reference semantics is involved in C09. Compile-time rejection of overflowing constant expressions is not exercised.')
_GO_NOTE = 'Trusted: z3; go/ssa; the gosym interpreter (x/tools ssa/interp extended with symbolic scalars/strings, validated by replaying witness models natively through the same harness); intrinsics for fmt, strings.Builder, bytealg, math/big, sync; harness oracles.'
CHECKS['C11'] = dict(level='model_checking', engine='gosym', design='4/C11',
   technique='symbolic execution of the Go kernels (go/ssa) with SMT-decided value witnesses; pair space explored exhaustively, z3',
   text='KERNEL: checkTypeCompatibility / isImplicitlyCompatible / isLosslessNumericConversion executed from their SSA for every ordered pair of the 17 numeric types (all 289 pairs); for each implicit pair the solver decides whether the source type has a value the target cannot represent (integer ranges as SMT Int; significand witness family for floats; bit-precise cross-check on a symbolic 64-bit value). FRONT END: for every ordered pair and each of 12 assignment-like positions (let initialiser, assignment, call argument, return, ok- and error-side return of a result function, struct-literal field, array-literal element, optional target, field assignment through a reference, function-literal argument / return, assignment inside a match arm) the real front end runs on the program: accepted only if every value of S is representable in T. Exhaustive in the pair x position space.',
   note=_GO_NOTE + ' Float formats as documented in the repository. That every assignment-like site consults this kernel is read from the call sites, not decided.')
CHECKS['C20'] = dict(level='model_checking', engine='gosym', design='4/C20',
   technique='bounded symbolic execution of the Go writer and parser (go/ssa) on symbolic strings/ints/keys, z3',
   text='The real TOML writer and parser functions are executed symbolically: string values (all ASCII strings up to L=4 quick / 6 thorough in the writable domain), ints (|v|<100000 plus extremes), bools, float representatives, keys, inline comments and padding are symbolic; the solver decides that value and dynamic type survive the round trip and that parsing never panics on any ASCII content up to L bytes.',
   note=_GO_NOTE + ' ASCII only; Scanner line splitting replaced by its documented behaviour; float digit generation and ParseFloat on symbolic text are not executed symbolically.')
CHECKS['C16'] = dict(level='model_checking', engine='lirsym/llvm', design='4/C16',
   technique='symbolic execution of clang -O0 LLVM IR of bigint.c with all limbs symbolic; z3 bit-vectors at width N, uninterpreted partial products for mul, inductive steps for text accumulation and for the division loop',
   text='The *_ptr entry points of runtime/core/bigint.c that the compiler calls are executed symbolically on regions of symbolic 64-bit limbs (the full 2^128 / 2^256 operand spaces): add, sub, and, or, xor, not, eq, lt, gt, from/to 64-bit for all four types, 128-bit unsigned mul (schoolbook identity over range-constrained uninterpreted 64x64 products), decimal from_string for short texts with every digit symbolic, one inductive step of the text accumulation (v*base+digit from an arbitrary limb state, bases 10/16/8/2), and div/mod: INIT/STEP/EXIT obligations on the real shift-subtract loop (one iteration from an arbitrary invariant state, bit position symbolic) plus the eight div/mod entry points over the contract of the divider; 256-bit pow: INIT/STEP/EXIT on the real square-and-multiply loop over the contract of the multiply. Counterexamples are replayed through a C driver under ASan/UBSan.',
   note='Trusted: clang front end (-O0 IR = source), the C optimiser/back end that builds the shipped library, LLVM semantics in lirsym/llvm.py, libc summaries, z3. The induction that turns the loop obligations into quot = numer div denom is a paper argument. Not covered: to_string, 128-bit pow, 256-bit and signed mul (thorough only), shifts, division by zero.')
CHECKS['C17'] = dict(level='model_checking', engine='lirsym/llvm', design='4/C17',
   technique='symbolic execution of clang -O0 LLVM IR of array.c/map.c over region memory: one inductive step (arrays), bounded histories with symbolic keys (maps), z3',
   text='Dynamic arrays: ONE operation (append incl. realloc growth, get, set, len) from an arbitrary valid state with symbolic index / element; the solver decides the list-abstraction step and refusal of out-of-range requests, every access inside a live region. Maps: new_i32/new_i64, a concrete prefix (none, 12 spread keys so the next insert crosses the resize threshold, or 3-4 keys forming ONE hash chain), then 1-2 sets with symbolic keys / values (insert or overwrite at any chain position) and get / size / full iteration with a symbolic query key, against an abstract map over the same terms; the hash of a symbolic key is an uninterpreted function agreeing with FNV-1a on the concrete keys.',
   note='Trusted: clang front end, LLVM semantics in lirsym/llvm.py, libc summaries (malloc/calloc/realloc never fail), z3. Not covered: string/blob keys, from_pairs, free/destroy histories, capacities beyond 8, the optional out-layout.')
CHECKS['C10'] = dict(level='model_checking', engine='gosym', design='4/C10',
   technique='bounded symbolic execution of the Go range-check kernels on literals with symbolic digits (gosym), and of the emitted QBE IL for 128/256-bit literals over wide-integer runtime contracts (lirsym/qbe), z3',
   text='KERNEL: fitsInType / numeric.NewNumericValue / FitsInBitSize executed symbolically on integer literal texts whose digits are symbolic (decimal, hex, octal, binary; separator; minus sign; leading zeros); for each of the eight types up to 64 bits the solver decides accepted <=> mathematical value in range, both directions. GENERATED CODE: for i128 / u128 / i256 / u256 literals at and around 2^63, 2^64, 2^127, 2^255 the emitted QBE IL is executed symbolically (the literal is compared with ==, >, < against a value built from the parameter and its low 64 bits are returned) and compared with the reference for all parameter values: the running program observes exactly the literal value.',
   note=_GO_NOTE + ' 128/256-bit types, the lexer pattern, literal positions and value materialisation in generated code are not decided here (the 128/256-bit text accumulation step is decided by C16).')
CHECKS['C03'] = dict(level='other', engine='gosym', design='4/C03',
   technique='symbolic execution (go/ssa) of the real front end on a rule-catalogue x context product of ill-typed programs, plus the type-compatibility decision kernel over a pool of type pairs',
   text='FRONT END: 36 ill-typed statements covering every rule class of the catalogue (mixed-type arithmetic, narrowing, float->int, non-bool condition / logical operand, argument count and type, undefined and redeclared names, missing / wrong return value, optional where T is required, unknown / missing / mistyped struct field, too many array initialisers, calling a non-function, unhandled result with and without arguments, error return from a non-result function) x 8 syntactic contexts x {function, method}: each program is run through the real lexer, parser, collector, resolver and type checker inside the symbolic interpreter and must be rejected with an error on the injected line; without the injection every context is accepted. KERNEL: checkTypeCompatibility / isImplicitlyCompatible for every ordered pair of a pool of 36 types; pairs in a forbidden rule class must not be implicit.',
   note=_GO_NOTE + ' That checkNode/checkExpr reach every context, argument counts, name resolution, return checking and the errors-gate-codegen rule are NOT decided (traversals over pointer-rich ASTs have no symbolic content within this technique).')
CHECKS['C15'] = dict(level='model_checking', engine='gosym', design='4/C15',
   technique='symbolic execution of the dependency-graph code (go/ssa): edges and their arrival order are symbolic choices, all histories up to K explored',
   text='AddDependency / findCycle / hasCyclePath / ComputeTopologicalOrder executed from their SSA for every sequence of up to 4 (5 thorough) import edges over 3 modules (9^K histories): an import is refused with a circular-import error exactly when it closes a cycle in the accepted graph (reference: transitive closure), the stored graph equals the accepted one, and the build order lists every module once, dependencies first, for both map iteration directions; and for every sequence of 4 edges (12^4) over FOUR modules two of which share their file base name (module identity must be the full import path).',
   note=_GO_NOTE + ' Mutexes are no-ops: the atomicity of check-then-insert under real concurrency, exactly-once module scheduling and cross-module symbol visibility are NOT decided.')
CHECKS['C14'] = dict(level='other', engine='gosym', design='4/C14',
   technique='symbolic execution of the diagnostic sorter and the module ordering (go/ssa) with the arrival interleaving and the map iteration direction as symbolic choices',
   text='PARTIAL: (a) sortDiagnostics on 13 diagnostics of two concurrently parsed modules for all 1716 arrival interleavings (sort.Slice executed as Go\'s own pdqsort, sort.SliceStable as a stable sort): the emitted order must not depend on the interleaving; (b) the module build order after every import history of C15 for both map iteration directions.',
   note=_GO_NOTE + ' NOT covered: real goroutine schedules of parsing, the process-global literal-ID counters (utils/literals.go), map iteration inside the QBE / wasm emitters (emitTypeIDs, vtables), byte identity of generated code.')
CHECKS['C13'] = dict(level='other', engine='gosym', design='4/C13',
   technique='bounded symbolic execution (go/ssa) of the real front end (through HIR generation and analyses) on every one-token mutation of two programs and on a one-byte symbolic mutation, with a step bound as termination obligation; lexer totality; diagnostic builder',
   text='FRONT END: ONE token of a well-formed program deleted or replaced by one of 18 tokens (every token position of two programs covering unions, struct / map literals, enums, methods, results with catch, loops, match, function literals), and one byte of a short program replaced by a SYMBOLIC ASCII byte: the lexer, parser, collector, resolver, type checker, HIR generator and HIR analyses come back within 6,000,000 interpreted instructions (about 40x the well-formed cost; overflow is a violation, replayed under a 20 s watchdog), do not panic, and every diagnostic points inside the file. BOUNDED SLICE: lexer.Tokenize on every ASCII source up to 2 bytes (3 thorough); diagnostic builder / sorter with nil-ness of locations symbolic.',
   note=_GO_NOTE + ' NOT covered: parser, collector, resolver and type checker on partial ASTs, exit status, left-over artifacts, multi-file projects, non-ASCII input.')
CHECKS['C19'] = dict(level='other', engine='gosym', design='4/C19',
   technique='bounded symbolic execution (go/ssa) of the real front end with trivia (symbolic comment text) inserted in every token gap, of Position.Advance and of the lexer on token-trivia-token strings',
   text='FRONT END: for every gap between two tokens of each program (two small ones quick, plus a broad-syntax one thorough) and every trivia kind (blank, newline, blank-newline-blanks, block comment, line comment; the comment text is ONE symbolic character) the real lexer, parser, collector, resolver and type checker run on the reformatted text: acceptance is unchanged, the set of error diagnostics is unchanged, and each diagnostic\'s byte index, line and column move exactly with the inserted text. KERNELS: Position.Advance for every ASCII string up to 3 bytes and every split point; the lexer on tok1 . whitespace . tok2 for 6 token pairs.',
   note=_GO_NOTE + ' NOT covered: comments as trivia, doc-comment attachment in the parser, acceptance and output of whole reformatted programs, diagnostics locations beyond the lexer.')
CHECKS['C06'] = dict(level='other', engine='gosym', design='4/C06',
   technique='symbolic execution (go/ssa) of the real front end on a binding x mutation-form x context product, plus the mutability decision kernel over symbolically chosen place expressions',
   text='FRONT END: binding {index of a two-variable for loop over [N]T / []T / str / map / range, const, catch error variable, field behind an &P parameter, field behind an & receiver, let, field behind an &\'P parameter} x mutation form {=, +=, ++, --, let p: &\'T = &\'x, f(&\'x)} x context {function body, if, while, match arm, function literal}: the real front end must report an error on the mutating line for the immutable bindings and accept the mutable ones. KERNEL: checkMutability + reportMutabilityError on place expressions of depth <= 2 whose root symbol has symbolic kind, read-only flag and reference type.',
   note=_GO_NOTE + ' NOT decided: that every mutation form and syntactic context reaches the kernel, and that loop-index / catch variables are flagged read-only by the collector and type checker.')
CHECKS['C07'] = dict(level='other', engine='gosym', design='4/C07',
   technique='symbolic execution (go/ssa) of the real front end + HIR generation + borrow checker on a last-use-shape x conflict x position product, plus the loan table and place-overlap kernels over all short event histories',
   text='FRONT END + BORROW CHECKER: a shared or mutable reference to a local whose last use sits in one of ten statement shapes (plain, then, else, trailing else of 2- and 3-arm else-if chains, middle arm, loop body, match arms, nested if) x a conflicting access (write, read of a mutably borrowed place, shared / mutable re-borrow) placed before the shape, inside the arm before the last use, or after the shape: rejected while the reference is still used later, accepted once its last use has passed. KERNELS: pathsOverlap/pathsEqual vs the prefix relation; the loan table driven through every 4-event history over 4 places and 2 references (2880 histories) against a reference aliasing-xor-mutation model.',
   note=_GO_NOTE + ' NOT decided: last-use computation and scope exit over real bodies, checkReturnLifetime, reference write-through in generated code (a few templates in C01).')
CHECKS['C12'] = dict(level='other', engine='gosym', design='4/C12',
   technique='symbolic execution (go/ssa) of the real front end with the first letter of the name symbolic (field access sites; two-module project), plus the visibility decision kernels',
   text='FRONT END: (1) a struct field whose first letter is a SYMBOLIC ASCII letter accessed from 11 kinds of site (function, write through a &\' parameter, receiver read / write, another parameter of the same type inside a method, a method of another type, a function literal, a field chain, a loop body, a struct literal, with a same-named method present): accepted iff upper-case or reached through the receiver / initialised in a literal; (2) a function, constant, variable, type (let annotation, function-literal parameter) or method of module p/lib with a symbolic first letter named from module p/app (both modules run through the real front end in pipeline order): accepted iff upper-case. KERNELS: utils.IsExported on every ASCII name up to 3 bytes; checkSelectorExpr on selectors of depth <= 3 with symbol kinds, reference-ness and shadowing symbolic.',
   note=_GO_NOTE + ' NOT decided: module::symbol export checks, private types in type positions, other syntactic positions (range expressions etc.), multi-module projects.')
CHECKS['C02'] = dict(level='translation_validation', engine='lirsym/qbe + lirsym/wasm', design='A.8 and 4/C02',
   technique='SMT-decided back-end agreement: the emitted QBE IL and the emitted .wasm binary of the same function executed symbolically on the same inputs, pairwise path comparison, all parameter values, z3',
   text='For a generated family of template functions (arithmetic, comparisons, casts incl. directly consumed narrowing casts, unguarded division/remainder, control flow, composites, references, dynamic arrays and strings, struct layout) the freshly built compiler emits native code (QBE IL, pointer size 8) and a .wasm module (pointer size 4). The IL and the decoded wasm function are executed symbolically on the same free 64-bit inputs; for every pair of paths z3 decides that termination class (normal / panic-or-trap), returned value and printed values agree. Counterexamples and one witness per template are replayed on the linked native executable and under node with the shipped runtime.js.',
   note='Trusted: z3; go/ssa; the gosym interpreter; intrinsics; harness oracles. Front-end harnesses run the REAL lexer, parser, collector, resolver and type checker (go/ssa) inside the symbolic interpreter on programs assembled from symbolic choices / symbolic characters; within the stated finite product the exploration is exhaustive, nothing beyond it is claimed. NOT decided: what an accepted reformatted program prints, doc-comment / @extern attachment, programs outside the fixed set, multi-character comment bodies, tabs among the inserted trivia (the tool counts a tab as 4 columns and the character after it as 0; split-invariance of Position.Advance over tabs is decided by HarnessC19Advance).')
# additions of the third seeding round (appended to the texts above)
EXTRA = {
 'C20': ' HarnessC20Sections: every pair of the seven known sections (the header-less default included) through writeTOMLSections and back. HarnessC20HeaderComment: blanks and a comment after a section header.',
 'C01': ' Families added later: optional narrowing (if x != none: read / assign the narrowed parameter or local), closures that capture parameters and locals by reference (modified before / around the literal, counter incremented by the literal), literal spellings (leading zeros, separators, hex, octal, binary), same-width sign-changing casts used directly, range loops (literal / variable / inclusive bounds, bounds assigned inside the body), parameters assigned inside loops and before literals, by-value array parameters written in the callee, compound assignment with literal operands on every width.',
 'C02': ' Also: literal spellings (a decimal literal with leading zeros must have the same value on both targets), optional narrowing, closures where the wasm target accepts them, small byte-aligned composite copies.',
 'C04': ' Also loops whose index counts DOWN through the negative indices (-1 .. -N valid, -(N+1) must panic or be rejected).',
 'C05': ' Also match statements whose default arm is not the last arm, methods that share their name with a top-level function of another signature, and bodies that end in a call of a user function named like the builtin panic.',
 'C06': ' HarnessC06Receivers: 11 struct-typed places (const, element / field of a const, value behind &P parameter / receiver / local, struct field of type &P | let, let array element, &\'P parameter / local) x 8 mutation forms incl. calls of &\'-receiver methods x 5 contexts. HarnessC06FnTypes: a function writing through a &\'P parameter supplied where fn(q: &P) is expected, 6 positions x named function / literal.',
 'C07': ' HarnessC07Escapes: returning a reference to a local (initialised or declared bare, whole or field, direct or through a reference variable, 3 contexts) is rejected; returning a received reference is accepted.',
 'C08': ' u32 index type in the quick tier; the known-finding region of D5 is exactly the inputs whose narrowed index lands on an element, the obligation is re-asked outside it.',
 'C09': ' Fifth rewrite: bind the first nested cast to a fresh local (bases: casts consumed directly by a compare or a widening cast, incl. same-width sign changes).',
 'C10': ' HarnessC10Sequence: two range checks in one compilation (boundary texts of one width against its signed and unsigned type, either order) - the verdict has no memory.',
 'C12': ' HarnessC12Modules now covers 31 positions of a cross-module name (type annotations, struct field types, aliases, interface signatures, array / optional / map / result / reference / function types, array length, range bounds, index, match pattern, ?? default, multi-item declarations).',
 'C13': ' HarnessC13Highlight: the snippet colouriser on every line of <= 4 characters over its 10 scanner-relevant characters. HarnessC13CodegenFailure: the native code generation phase under environment stubs (mkdir, write, embedded QBE exit code, linker fail by free choice): an error return implies an error diagnostic and the gen directory is removed again. HarnessC13Imports: 16 import forms (missing path, bad alias, unknown module, self import, duplicates, stray tokens) before / after a declaration on a two-module project. HarnessC13EmitAll: the real bag / emitter on N notes (N up to 64) followed by one error prints the error. HarnessC13Bytes also binds the unrecognized-character diagnostic to the position of the inserted character.',
 'C14': ' HarnessC14LitIDs now runs the REAL lexer and parser on two modules as two logical threads (delay bound 2): the IDs of function / struct / interface / enum literals equal those of a solitary parse. HarnessC14WasmOrder: wasm EmitProgram on three-module programs with same-named functions under both map iteration orders: byte-identical binary. HarnessC14VTableOrder: mir/gen GenerateModule under both map orders. HarnessC14ImportResolution: the real module scheduler over a (stub / real) file system where a shadowing file sits next to one importer: the file that becomes a module does not depend on the schedule (delay bound 2).',
 'C15': ' HarnessC15Order: every acyclic graph over 5 modules (6 thorough): the topological order lists each module once, dependencies first.',
 'C17': ' Also the map-literal constructor ferret_map_from_pairs on 2 (3 thorough) symbolic pairs whose keys may coincide; ferret_map_has and the optional-returning lookup ferret_map_get_optional_out (flag byte and payload) against the abstract map; ferret_map_destroy frees every block exactly once (no double free, nothing left allocated); iteration over an EMPTY map the way the compiled loop does it (iter_next after a refused iter_begin, iterator object with arbitrary initial bytes).',
 'C18': ' Also whole-value copies of byte-aligned composites of 2, 3, 6, 7 bytes (struct assigned into a fixed-array element, struct wrapped into / read out of an optional, discriminant set / cleared / set).',
 'C19': ' Non-ASCII comment text (2- and 3-byte UTF-8 characters): columns advance by characters, indices by bytes (gap harness and Position.Advance kernel).',
 'C16': ' pow: INIT/STEP/EXIT on the real square-and-multiply loop for all four types (the 128-bit ones through their register ABI). Integer -> decimal text: to_string_ptr on every value of at most 2 (4 thorough) decimal digits incl. negative ones, and one step of the digit extraction (ferret_div_small_limbs) from an arbitrary limb state.',
}
for _k, _v in EXTRA.items():
    CHECKS[_k]['text'] += _v

NA_DEFAULT = 'check not built yet (work in progress, see DESIGN.md section 11)'
NA = {}

def main():
    checks = []
    for p in props:
        c = CHECKS.get(p['id'])
        if not c:
            continue
        checks.append({
            'property_id': p['id'],
            'quick_cmd': './check %s --tier quick' % p['id'],
            'thorough_cmd': './check %s --tier thorough' % p['id'],
            'evidence_file': '/verif/evidence/%s.json' % p['id'],
            'replay_cmd_template': 'cat {path}',
            'engine': c['engine'],
            'level_claimed': {'category': c['level'], 'text': c['text'], 'design_ref': 'DESIGN.md section ' + c['design']},
            'level_note': c['note'],
            'technique': c['technique'],
        })
    m = {
        'version': 1,
        'setup_cmd': './setup.sh',
        'hooks': {'guard': 'verif', 'enable': 'no guarded code in /repo: Go harnesses are injected with go/packages overlays (symbolic run) and go test -overlay (native replay); the tag verif is reserved',
                  'baseline_off_cmd': 'cd /repo && go test -mod=mod -vet=off -count=1 -timeout 25m ./...', 'source_commits': [], 'add_only': True},
        'engines': [
            {'name': 'gosym', 'path': 'gosym/', 'serves_properties': ['C03', 'C06', 'C07', 'C10', 'C11', 'C12', 'C13', 'C14', 'C15', 'C18', 'C19', 'C20'], 'kind_free_text': 'symbolic interpreter for go/ssa (Go, x/tools v0.50.0 ssa/interp extended with SMT terms, fork-by-replay, z3 -in)'},
            {'name': 'lirsym/llvm', 'path': 'lirsym/llvm.py', 'serves_properties': ['C16', 'C17'], 'kind_free_text': 'path-wise symbolic executor for clang -O0 LLVM IR of the C runtime (Python, z3 API)'},
            {'name': 'lirsym/wasm', 'path': 'lirsym/wasm.py', 'serves_properties': ['C02'], 'kind_free_text': 'binary decoder and path-wise symbolic stack-machine executor for the .wasm modules the compiler emits (Python, z3 API)'},
            {'name': 'lirsym/qbe', 'path': 'lirsym/qbe.py', 'serves_properties': ['C01', 'C02', 'C04', 'C05', 'C08', 'C09', 'C18'], 'kind_free_text': 'path-wise symbolic executor for the QBE IL the compiler emits (Python, z3 API)'},
        ],
        'checks': checks,
        'notes': 'Solver-based checking only; see DESIGN.md. Exit codes: 0 held, 1 violation, 2 inconclusive.',
        'not_applicable': [{'property_id': p['id'], 'reason': NA.get(p['id'], NA_DEFAULT)} for p in props if p['id'] not in CHECKS],
    }
    json.dump(m, open(os.path.join(V, 'MANIFEST.json'), 'w'), indent=1)
    print('checks:', [c['property_id'] for c in checks])

if __name__ == '__main__':
    main()
