#!/bin/bash
# try_seed.sh <seed-dir-name> <check-id>... : apply a seeded change to /repo, run the named checks (quick), undo it.
s="$1"; shift
cd /verif
if [ -n "$(git -C /repo status --porcelain)" ]; then echo "/repo not clean"; exit 3; fi
git -C /repo apply "/verif/seeded/$s/patch.diff" || { echo "patch does not apply"; exit 3; }
for c in "$@"; do
  echo "== seed $s / check $c"
  ./check "$c" --tier "${TIER:-quick}" 2>&1 | grep -E "^(VIOLATION|KNOWN-FINDING|C[0-9]+ (quick|thorough))|^INCONCLUSIVE" | cut -c1-260 | head -${LINES_MAX:-12}
  echo "rc=${PIPESTATUS[0]}"
done
git -C /repo checkout -- . && git -C /repo status --porcelain
