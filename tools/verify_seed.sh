#!/bin/bash
# verify_seed.sh <id> <dir-with-patch.diff-and-run.sh>  : confirm a seeded change in a scratch worktree.
# Prints a JSON line with the results. Leaves nothing behind.
id="$1"; d="$2"
wt=/tmp/vs-$id-$$
git -C /repo worktree add -f --detach "$wt" HEAD >/dev/null 2>&1 || { echo "{\"id\":\"$id\",\"error\":\"worktree\"}"; exit 1; }
cd "$wt"
( timeout 1500 bash "$d/run.sh" "$wt" ) >"$d/verify_clean.log" 2>&1; rc_clean=$?
git -C "$wt" checkout -- . >/dev/null 2>&1
git -C "$wt" apply "$d/patch.diff"; rc_apply=$?
( go build ./... ) >"$d/verify_build.log" 2>&1; rc_build=$?
( go test -mod=mod -vet=off -count=1 ./... ) >"$d/verify_tests.log" 2>&1; rc_tests=$?
nfail=$(grep -c "^FAIL\|^--- FAIL" "$d/verify_tests.log")
( timeout 1500 bash "$d/run.sh" "$wt" ) >"$d/verify_seeded.log" 2>&1; rc_seeded=$?
cd /
git -C /repo worktree remove --force "$wt" >/dev/null 2>&1
rm -rf "$wt"
echo "{\"id\":\"$id\",\"demo_rc_clean\":$rc_clean,\"apply_rc\":$rc_apply,\"build_rc\":$rc_build,\"tests_rc\":$rc_tests,\"tests_fail_lines\":$nfail,\"demo_rc_seeded\":$rc_seeded}"
