#!/bin/bash
# collect_seed3.sh <Cxx> : move a round-3 sub-agent result (SEED/ in its scratch worktree) into /verif/seeded/<Cxx>-r3,
# confirm it in a fresh scratch worktree (tools/verify_seed.sh) and remove the sub-agent's worktree.
id="$1"; wt=/tmp/seed3/$id; dst=/verif/seeded/$id-r3
[ -d "$wt/SEED" ] || { echo "no SEED dir in $wt"; exit 1; }
mkdir -p "$dst"
cp -r "$wt/SEED/." "$dst/"
if [ ! -s "$dst/patch.diff" ]; then git -C "$wt" diff > "$dst/patch.diff"; fi
# run.sh scripts refer to their own location; keep them relocatable
sed -i "s#/tmp/seed3/$id/SEED#$dst#g; s#/tmp/seed3/$id#\$1#g" "$dst/run.sh" 2>/dev/null
/verif/tools/verify_seed.sh "$id-r3" "$dst" | tee "$dst/verify.json"
git -C /repo worktree remove --force "$wt" >/dev/null 2>&1; rm -rf "$wt"; git -C /repo worktree prune
