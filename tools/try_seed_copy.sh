#!/bin/bash
# try_seed_copy.sh <seed-dir-name> <check-id>... : export /repo HEAD to a scratch copy, apply the seeded change there, run the
# named checks against the copy (VERIF_REPO), remove the copy.  /repo itself is not touched, so runs can overlap.
s="$1"; shift
cd /verif
d=$(mktemp -d /tmp/seedcopy-XXXXXX)
git -C /repo archive HEAD | tar -x -C "$d"
( cd "$d" && git init -q . >/dev/null 2>&1 && git apply "/verif/seeded/$s/patch.diff" ) || { echo "patch does not apply"; rm -rf "$d"; exit 3; }
for c in "$@"; do
  echo "== seed $s / check $c"
  VERIF_REPO="$d" VERIF_NO_EVIDENCE=1 ./check "$c" --tier "${TIER:-quick}" 2>&1 | grep -E "^(VIOLATION|KNOWN-FINDING|C[0-9]+ (quick|thorough))|^INCONCLUSIVE" | cut -c1-300 | head -${LINES_MAX:-8}
  echo "rc=${PIPESTATUS[0]}"
done
rm -rf "$d"
