package lexer

import (
	"compiler/internal/diagnostics"
	"compiler/internal/tokens"
	"compiler/internal/verifrt"
)

func zzLex(src string) ([]tokens.Token, *diagnostics.DiagnosticBag) {
	diag := diagnostics.NewDiagnosticBag("")
	lex := New("f.fer", src, diag)
	return lex.Tokenize(false), diag
}

// HarnessC13Lex: the lexer terminates without crashing on every ASCII source up to L bytes, ends the token list
// with EOF, and every token span lies inside the input with non-decreasing start indices.
func HarnessC13Lex() {
	maxn := 2
	if verifrt.Thorough() {
		maxn = 3
	}
	n := verifrt.Choice("n", maxn+1)
	s := verifrt.String("s", n)
	for i := 0; i < len(s); i++ {
		verifrt.Assume(s[i] < 0x80)
	}
	toks, _ := zzLex(s)
	verifrt.Assert(len(toks) >= 1 && toks[len(toks)-1].Kind == tokens.EOF_TOKEN, "token list does not end with EOF")
	prev := 0
	for _, t := range toks {
		verifrt.Assert(t.Start.Index >= prev && t.End.Index >= t.Start.Index && t.End.Index <= n, "token span outside the input or out of order")
		prev = t.Start.Index
	}
}

// HarnessC19Trivia: between two fixed tokens, any trivia made of blanks, tabs and newlines (L <= 2) yields the same
// non-comment token kinds and values as a single space, and the second token starts where the trivia ends.
func HarnessC19Trivia() {
	pairs := [][2]string{{"a", "b"}, {"1", "-"}, {"-", "1"}, {"/", "x"}, {"x", "="}, {"let", "x"}}
	p := pairs[verifrt.Choice("pair", len(pairs))]
	maxn := 2
	if verifrt.Thorough() {
		maxn = 3
	}
	n := 1 + verifrt.Choice("n", maxn)
	tr := verifrt.String("trivia", n)
	for i := 0; i < len(tr); i++ {
		c := tr[i]
		verifrt.Assume(c == ' ' || c == '\t' || c == '\n' || c == '\r')
	}
	base, _ := zzLex(p[0] + " " + p[1])
	got, _ := zzLex(p[0] + tr + p[1])
	verifrt.Assert(len(got) == len(base), "whitespace between two tokens changes the number of tokens")
	if len(got) != len(base) {
		return
	}
	for i := range got {
		verifrt.Assert(got[i].Kind == base[i].Kind && got[i].Value == base[i].Value, "whitespace between two tokens changes a token")
	}
	if len(got) >= 2 {
		verifrt.Assert(got[1].Start.Index == len(p[0])+n, "second token does not start where the trivia ends")
	}
}
