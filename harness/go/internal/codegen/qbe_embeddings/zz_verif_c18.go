package qbe

import (
	"compiler/internal/context_v2"
	"compiler/internal/diagnostics"
	"compiler/internal/mir"
	"compiler/internal/source"
	"compiler/internal/tokens"
	"compiler/internal/types"
	"compiler/internal/verifrt"
)

func zzPool() []types.SemType {
	s3 := types.NewStruct("", []types.StructField{{Name: "A", Type: types.TypeI32}, {Name: "B", Type: types.TypeI32}, {Name: "C", Type: types.TypeI32}})
	s2 := types.NewStruct("", []types.StructField{{Name: "A", Type: types.TypeI8}, {Name: "B", Type: types.TypeI64}})
	return []types.SemType{
		types.TypeI8, types.TypeI16, types.TypeI32, types.TypeI64, types.TypeU8, types.TypeBool, types.TypeString, types.TypeI128, types.TypeI256,
		types.NewArray(types.TypeI32, 3), types.NewArray(types.TypeU8, 9), types.NewArray(types.TypeI16, 5), s3, s2,
		types.NewOptional(types.TypeI32), types.NewOptional(types.TypeI8),
	}
}

// HarnessC18Layout: for every pair (ok, err) of payload types from the pool, on both pointer sizes: the result's
// discriminant lies inside the value and after both payloads; the optional flag (at SizeOf(inner), which is also what
// optional.c and map.c assume) lies inside the optional; sizes are multiples of the alignment; struct fields are
// aligned, disjoint and inside the struct.
func HarnessC18Layout() {
	pool := zzPool()
	ps := []int{4, 8}[verifrt.Choice("ptr", 2)]
	layout := mir.NewDataLayout(ps)
	g := &Generator{layout: layout}
	a := pool[verifrt.Choice("ok", len(pool))]
	b := pool[verifrt.Choice("err", len(pool))]
	res := types.NewResult(a, b)
	size := layout.SizeOf(res)
	align := layout.AlignOf(res)
	tag, ok := g.resultTagOffset(res, nil)
	verifrt.Assert(ok, "resultTagOffset refuses a well-formed result type")
	verifrt.Assert(tag >= layout.SizeOf(a) && tag >= layout.SizeOf(b), "result discriminant overlaps a payload")
	verifrt.Assert(tag < size, "result discriminant lies outside the result value (copies of SizeOf bytes lose it)")
	verifrt.Assert(align >= 1 && size%align == 0, "result size is not a multiple of its alignment")
	// optional of a
	opt := types.NewOptional(a)
	osz := layout.SizeOf(opt)
	verifrt.Assert(layout.SizeOf(a) < osz, "optional flag (at SizeOf(inner)) lies outside the optional value")
	verifrt.Assert(osz%layout.AlignOf(opt) == 0, "optional size is not a multiple of its alignment")
	// struct {a, b, a}
	st := types.NewStruct("", []types.StructField{{Name: "X", Type: a}, {Name: "Y", Type: b}, {Name: "Z", Type: a}})
	sl := layout.StructLayout(st)
	end := 0
	for _, f := range sl.Fields {
		fa := layout.AlignOf(f.Type)
		verifrt.Assert(f.Offset%fa == 0, "struct field is misaligned")
		verifrt.Assert(f.Offset >= end, "struct fields overlap")
		end = f.Offset + layout.SizeOf(f.Type)
	}
	verifrt.Assert(end <= sl.Size && sl.Size%sl.Align == 0, "struct size does not cover its fields or is not a multiple of its alignment")
	verifrt.Assert(len(sl.Fields) == 3, "struct layout dropped a field")
}

// HarnessC13EmitGate: a module of three functions is handed to the QBE generator; a symbolic choice decides which of
// them (if any) contains an instruction the generator cannot emit (it reports an error and goes on).  Emit must fail
// - so that no IL reaches qbe/as/ld and no executable is produced - exactly when an error was reported in ANY of the
// functions, whatever its position.
func HarnessC13EmitGate() {
	bad := verifrt.Choice("bad", 4) // 3 = none
	kind := verifrt.Choice("kind", 2)
	mkfn := func(i int) *mir.Function {
		loc := source.Location{}
		blk := &mir.Block{ID: 1, Name: "entry"}
		blk.Instrs = append(blk.Instrs, &mir.Const{Result: 1, Type: types.TypeI32, Value: "7", Location: loc})
		blk.Instrs = append(blk.Instrs, &mir.Const{Result: 2, Type: types.TypeI32, Value: "8", Location: loc})
		if i == bad {
			if kind == 0 {
				blk.Instrs = append(blk.Instrs, &mir.Binary{Result: 3, Op: tokens.TOKEN("@@"), Left: 1, Right: 2, Type: types.TypeI32, Location: loc})
			} else {
				blk.Instrs = append(blk.Instrs, &mir.Unary{Result: 3, Op: tokens.TOKEN("@@"), X: 1, Type: types.TypeI32, Location: loc})
			}
		} else {
			blk.Instrs = append(blk.Instrs, &mir.Binary{Result: 3, Op: tokens.PLUS_TOKEN, Left: 1, Right: 2, Type: types.TypeI32, Location: loc})
		}
		blk.Term = &mir.Return{Value: 3, HasValue: true, Location: loc}
		return &mir.Function{Name: "f" + string(rune('0'+i)), Return: types.TypeI32, Blocks: []*mir.Block{blk}, Location: loc}
	}
	mm := &mir.Module{ImportPath: "m", Functions: []*mir.Function{mkfn(0), mkfn(1), mkfn(2)}}
	ctx := &context_v2.CompilerContext{Modules: map[string]*context_v2.Module{}, Diagnostics: diagnostics.NewDiagnosticBag(""), DepGraph: map[string][]string{},
		Config: &context_v2.Config{Extension: ".fer"}}
	mod := &context_v2.Module{ImportPath: "m", FilePath: "m.fer"}
	out, err := New(ctx, mod, mm).Emit()
	if bad < 3 {
		verifrt.Assert(ctx.HasErrors(), "an instruction the generator cannot emit is not reported")
		verifrt.Assert(err != nil, "code generation reported an error in one function but Emit succeeded: IL (and then an executable) is produced from a failed compilation")
	} else {
		verifrt.Assert(err == nil && len(out) > 0, "CALIBRATION: a well-formed module is not emitted")
	}
}

// HarnessC14EmitOrder: the QBE generator is run twice on the same MIR module (three type IDs, two vtables, two
// functions), once with ascending and once with descending iteration order of every Go map it ranges over: the
// emitted IL must be byte-identical (Go's map iteration order is unspecified and differs from run to run).
func HarnessC14EmitOrder() {
	mk := func() *mir.Module {
		loc := source.Location{}
		fn := func(name string) *mir.Function {
			blk := &mir.Block{ID: 1, Name: "entry"}
			blk.Instrs = append(blk.Instrs, &mir.Const{Result: 1, Type: types.TypeI32, Value: "7", Location: loc})
			blk.Term = &mir.Return{Value: 1, HasValue: true, Location: loc}
			return &mir.Function{Name: name, Return: types.TypeI32, Blocks: []*mir.Block{blk}, Location: loc}
		}
		return &mir.Module{ImportPath: "m", Functions: []*mir.Function{fn("f"), fn("g")},
			TypeIDs: map[string]string{"tid_a": "i32", "tid_b": "str", "tid_c": "P"},
			VTables: []mir.VTable{{Name: "vt_x", Methods: []string{"m1", "m2"}}, {Name: "vt_y", Methods: []string{"m3"}}}}
	}
	emit := func(order int) string {
		verifrt.MapOrder(order)
		ctx := &context_v2.CompilerContext{Modules: map[string]*context_v2.Module{}, Diagnostics: diagnostics.NewDiagnosticBag(""), DepGraph: map[string][]string{},
			Config: &context_v2.Config{Extension: ".fer"}}
		out, err := New(ctx, &context_v2.Module{ImportPath: "m", FilePath: "m.fer"}, mk()).Emit()
		verifrt.Assert(err == nil, "CALIBRATION: a well-formed module is not emitted")
		return out
	}
	a := emit(0)
	b := emit(1)
	verifrt.Assert(a == b, "the emitted QBE IL depends on the iteration order of a Go map (the compiler's output differs from run to run)")
}
