package wasm

import (
	"compiler/internal/context_v2"
	"compiler/internal/diagnostics"
	"compiler/internal/mir"
	"compiler/internal/source"
	"compiler/internal/types"
	"compiler/internal/verifrt"
)

// HarnessC14WasmOrder: the wasm generator is run twice on the same program - three modules, two of which define a
// function of the SAME name (a private helper `scale` in each), plus distinct ones - once with ascending and once with
// descending iteration order of every Go map it ranges over: the emitted binary must be byte-identical.
func HarnessC14WasmOrder() {
	loc := source.Location{}
	fn := func(name string, k string) *mir.Function {
		blk := &mir.Block{ID: 1, Name: "entry"}
		blk.Instrs = append(blk.Instrs, &mir.Const{Result: 1, Type: types.TypeI32, Value: k, Location: loc})
		blk.Term = &mir.Return{Value: 1, HasValue: true, Location: loc}
		return &mir.Function{Name: name, Return: types.TypeI32, Blocks: []*mir.Block{blk}, Location: loc}
	}
	shape := verifrt.Choice("shape", 3)
	emit := func(order int) []byte {
		verifrt.MapOrder(order)
		ctx := &context_v2.CompilerContext{Modules: map[string]*context_v2.Module{}, Diagnostics: diagnostics.NewDiagnosticBag(""), DepGraph: map[string][]string{},
			Config: &context_v2.Config{Extension: ".fer"}}
		ma := &context_v2.Module{ImportPath: "p/a", FilePath: "p/a.fer"}
		mb := &context_v2.Module{ImportPath: "p/b", FilePath: "p/b.fer"}
		mm := &context_v2.Module{ImportPath: "p/main", FilePath: "p/main.fer"}
		var units []Unit
		switch shape {
		case 0:
			units = []Unit{{Module: ma, MIR: &mir.Module{ImportPath: "p/a", Functions: []*mir.Function{fn("scale", "1"), fn("Alpha", "3")}}},
				{Module: mb, MIR: &mir.Module{ImportPath: "p/b", Functions: []*mir.Function{fn("scale", "2"), fn("Beta", "4")}}},
				{Module: mm, MIR: &mir.Module{ImportPath: "p/main", Functions: []*mir.Function{fn("main", "0")}}, IsEntry: true}}
		case 1:
			units = []Unit{{Module: ma, MIR: &mir.Module{ImportPath: "p/a", Functions: []*mir.Function{fn("helper", "1"), fn("scale", "5")}}},
				{Module: mb, MIR: &mir.Module{ImportPath: "p/b", Functions: []*mir.Function{fn("helper", "2"), fn("scale", "6")}}},
				{Module: mm, MIR: &mir.Module{ImportPath: "p/main", Functions: []*mir.Function{fn("helper", "7"), fn("main", "0")}}, IsEntry: true}}
		default:
			units = []Unit{{Module: ma, MIR: &mir.Module{ImportPath: "p/a", Functions: []*mir.Function{fn("One", "1"), fn("Two", "2"), fn("Three", "3")}}},
				{Module: mm, MIR: &mir.Module{ImportPath: "p/main", Functions: []*mir.Function{fn("main", "0")}}, IsEntry: true}}
		}
		out, err := EmitProgram(ctx, units)
		verifrt.Assert(err == nil && len(out) > 8, "CALIBRATION: a well-formed program is not emitted")
		return out
	}
	a := emit(0)
	b := emit(1)
	same := len(a) == len(b)
	for i := 0; same && i < len(a); i++ {
		if a[i] != b[i] {
			same = false
		}
	}
	verifrt.Assert(same, "the emitted .wasm binary depends on the iteration order of a Go map (the compiler's output differs from run to run)")
}
