package context_v2

import (
	"strings"

	"compiler/internal/verifrt"
)

var zzMods = []string{"a", "b/c", "d"}

func zzNewCtx() *CompilerContext {
	return &CompilerContext{
		Modules:       make(map[string]*Module),
		sortedModules: []string{},
		DepGraph:      make(map[string][]string),
		Config:        &Config{Extension: ".fer"},
	}
}

// zzReach: is there a path from u to v over accepted edges adj (reference reachability, Floyd-Warshall style).
func zzReach(adj [3][3]bool, u, v int) bool {
	r := adj
	for k := 0; k < 3; k++ {
		for i := 0; i < 3; i++ {
			for j := 0; j < 3; j++ {
				if r[i][k] && r[k][j] {
					r[i][j] = true
				}
			}
		}
	}
	return r[u][v]
}

// HarnessC15Graph: an arbitrary sequence of K <= 4 (quick) AddDependency calls over 3 modules (any edges, in any
// arrival order, with repetitions and self-imports): a call is refused with a circular-import error exactly when
// the edge would close a cycle in the graph accepted so far; the accepted graph stays acyclic; afterwards the
// topological order lists every module exactly once, dependencies first, for both map iteration directions.
func HarnessC15Graph() {
	ctx := zzNewCtx()
	maxk := 4
	if verifrt.Thorough() {
		maxk = 5
	}
	k := verifrt.Choice("k", maxk+1)
	verifrt.MapOrder(verifrt.Choice("maporder", 2))
	var adj [3][3]bool
	for s := 0; s < k; s++ {
		e := verifrt.Choice("edge"+string(rune('0'+s)), 9)
		u, v := e/3, e%3
		err := ctx.AddDependency(zzMods[u], zzMods[v])
		closes := u == v || zzReach(adj, v, u)
		if closes {
			verifrt.Assert(err != nil, "an import that closes a cycle was accepted")
			if err != nil {
				verifrt.Assert(strings.Contains(err.Error(), "circular import"), "cycle rejected with an unrelated error")
			}
		} else {
			verifrt.Assert(err == nil, "an import that keeps the graph acyclic was rejected")
			adj[u][v] = true
		}
	}
	// the graph stored by the context is exactly the accepted one (no partial insertion, no duplicates)
	for u := 0; u < 3; u++ {
		deps := ctx.DepGraph[zzMods[u]]
		n := 0
		for v := 0; v < 3; v++ {
			if adj[u][v] {
				n++
				found := 0
				for _, d := range deps {
					if d == zzMods[v] {
						found++
					}
				}
				verifrt.Assert(found == 1, "accepted edge missing or duplicated in the dependency graph")
			}
		}
		verifrt.Assert(len(deps) == n, "dependency graph holds an edge that was refused")
	}
	for _, m := range zzMods {
		ctx.AddModule(m, &Module{})
	}
	ctx.ComputeTopologicalOrder()
	order := ctx.GetModuleNames()
	verifrt.Assert(len(order) == 3, "a module of an acyclic import graph is missing from (or repeated in) the build order")
	pos := map[string]int{}
	for i, m := range order {
		_, dup := pos[m]
		verifrt.Assert(!dup, "module listed twice in the build order")
		pos[m] = i
	}
	for u := 0; u < 3; u++ {
		for v := 0; v < 3; v++ {
			if adj[u][v] {
				pu, oku := pos[zzMods[u]]
				pv, okv := pos[zzMods[v]]
				verifrt.Assert(oku && okv && pv < pu, "a dependency is ordered after its importer")
			}
		}
	}
}

var zzMods4 = []string{"a", "x/u", "y/u", "b"}

func zzReach4(adj [4][4]bool, u, v int) bool {
	r := adj
	for k := 0; k < 4; k++ {
		for i := 0; i < 4; i++ {
			for j := 0; j < 4; j++ {
				if r[i][k] && r[k][j] {
					r[i][j] = true
				}
			}
		}
	}
	return r[u][v]
}

// HarnessC15Names: four modules, two of which share their file base name ("x/u", "y/u"): every sequence of exactly 4
// distinct-endpoint import edges in any arrival order; an edge is refused exactly when it closes a cycle over the
// accepted edges (module identity is the full import path, not a display name).
func HarnessC15Names() {
	ctx := zzNewCtx()
	var adj [4][4]bool
	for s := 0; s < 4; s++ {
		e := verifrt.Choice("edge"+string(rune('0'+s)), 12)
		u := e / 3
		v := e % 3
		if v >= u {
			v++
		}
		err := ctx.AddDependency(zzMods4[u], zzMods4[v])
		closes := zzReach4(adj, v, u)
		if closes {
			verifrt.Assert(err != nil, "an import that closes a cycle was accepted (modules sharing a base name)")
		} else {
			verifrt.Assert(err == nil, "an import that keeps the graph acyclic was rejected (modules sharing a base name)")
			adj[u][v] = true
		}
	}
}

// HarnessC15Race: two imports that together close a cycle (a -> b and b -> a; also a -> b racing with a duplicate
// a -> b) are registered by two logical threads under EVERY interleaving of their lock operations: at most one edge
// of the cycle is accepted, the other call reports a circular import, the stored graph stays acyclic and an edge is
// never stored twice.
func HarnessC15Race() {
	ctx := zzNewCtx()
	second := [][2]string{{"b", "a"}, {"a", "b"}}[verifrt.Choice("second", 2)]
	var e1, e2 error
	verifrt.Interleave(
		func() { e1 = ctx.AddDependency("a", "b") },
		func() { e2 = ctx.AddDependency(second[0], second[1]) },
	)
	ab, ba := 0, 0
	for _, d := range ctx.DepGraph["a"] {
		if d == "b" {
			ab++
		}
	}
	for _, d := range ctx.DepGraph["b"] {
		if d == "a" {
			ba++
		}
	}
	if second[0] == "b" {
		verifrt.Assert(!(ab > 0 && ba > 0), "both edges of a two-module import cycle were accepted by racing AddDependency calls")
		verifrt.Assert((e1 == nil) != (e2 == nil), "of two racing imports that close a cycle exactly one must be refused")
	} else {
		verifrt.Assert(ab == 1 && e1 == nil && e2 == nil, "a duplicate import registered concurrently is refused or stored twice")
	}
}

var zzMods6 = []string{"m0", "m1", "m2", "m3", "m4", "m5"}

// HarnessC15Order: EVERY acyclic import graph over N modules (N = 5 quick, 6 thorough; an edge i -> j, "i imports j",
// may exist only for j < i, each of the N(N-1)/2 possible edges chosen freely; the module names are permuted by a
// symbolic rotation so that the name order is independent of the graph order): after the imports are registered the
// topological order lists every module exactly once with every dependency before its importers, for both map
// iteration directions.  Wide levels (two or more modules released at once, one of them releasing several others)
// need at least five modules.
func HarnessC15Order() {
	n := 5
	if verifrt.Thorough() {
		n = 6
	}
	rot := verifrt.Choice("rot", n)
	name := func(i int) string { return zzMods6[(i+rot)%n] }
	verifrt.MapOrder(verifrt.Choice("maporder", 2))
	ctx := zzNewCtx()
	var adj [6][6]bool
	for i := 1; i < n; i++ {
		for j := 0; j < i; j++ {
			if verifrt.Choice("e"+string(rune('0'+i))+string(rune('0'+j)), 2) == 1 {
				adj[i][j] = true
				err := ctx.AddDependency(name(i), name(j))
				verifrt.Assert(err == nil, "an import that keeps the graph acyclic was rejected")
			}
		}
	}
	for i := 0; i < n; i++ {
		ctx.AddModule(name(i), &Module{})
	}
	ctx.ComputeTopologicalOrder()
	order := ctx.GetModuleNames()
	verifrt.Assert(len(order) == n, "a module of an acyclic import graph is missing from (or repeated in) the build order")
	pos := map[string]int{}
	for i, m := range order {
		_, dup := pos[m]
		verifrt.Assert(!dup, "module listed twice in the build order")
		pos[m] = i
	}
	for i := 0; i < n; i++ {
		for j := 0; j < n; j++ {
			if adj[i][j] {
				pi, oki := pos[name(i)]
				pj, okj := pos[name(j)]
				verifrt.Assert(oki && okj && pj < pi, "a dependency is ordered after its importer")
			}
		}
	}
}
