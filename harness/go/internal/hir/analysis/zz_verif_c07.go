package analysis

import (
	"compiler/internal/context_v2"
	"compiler/internal/diagnostics"
	"compiler/internal/hir"
	"compiler/internal/semantics/symbols"
	"compiler/internal/source"
	"compiler/internal/verifrt"
)

func zzPaths() [][]placeSegment {
	return [][]placeSegment{
		{},
		{{kind: segmentField, name: "A"}},
		{{kind: segmentField, name: "B"}},
		{{kind: segmentField, name: "A"}, {kind: segmentField, name: "C"}},
		{{kind: segmentField, name: "A"}, {kind: segmentIndex}},
	}
}

// zzPrefix: reference overlap relation - one path is a prefix of the other (an index segment matches any index).
func zzPrefixOverlap(a, b []placeSegment) bool {
	n := len(a)
	if len(b) < n {
		n = len(b)
	}
	for i := 0; i < n; i++ {
		if a[i].kind == segmentIndex || b[i].kind == segmentIndex {
			return true
		}
		if a[i].kind != b[i].kind || a[i].name != b[i].name {
			return false
		}
	}
	return true
}

// HarnessC07PathsOverlap: overlap <=> prefix relation; symmetric; reflexive.
func HarnessC07PathsOverlap() {
	ps := zzPaths()
	a := ps[verifrt.Choice("a", len(ps))]
	b := ps[verifrt.Choice("b", len(ps))]
	verifrt.Assert(pathsOverlap(a, b) == zzPrefixOverlap(a, b), "pathsOverlap disagrees with the prefix relation")
	verifrt.Assert(pathsOverlap(a, b) == pathsOverlap(b, a), "pathsOverlap is not symmetric")
	verifrt.Assert(pathsOverlap(a, a), "a place does not overlap itself")
	verifrt.Assert(pathsEqual(a, a), "a path is not equal to itself")
}

type zzLoan struct {
	owner   int
	path    []placeSegment
	mutable bool
}

// HarnessC07Loans: the loan table (addBorrow, bindRefFromIdent, releaseBinding, checkAccess) against a reference
// aliasing-xor-mutation model, for every history  borrow r1 ; {copy r2 := r1 | borrow r2 | -} ; {release r1 | release
// r2 | -} ; {read p | write p | borrow-mut p}  over the places x, x.A, x.B, x.A.C: an error is reported exactly
// when a conflicting loan is still live.
func HarnessC07Loans() {
	ctx := &context_v2.CompilerContext{Diagnostics: diagnostics.NewDiagnosticBag("")}
	b := newBorrowChecker(ctx, &context_v2.Module{})
	b.pushScope(nil)
	x := &symbols.Symbol{Name: "x", Kind: symbols.SymbolVariable}
	refs := []*symbols.Symbol{{Name: "r1", Kind: symbols.SymbolVariable}, {Name: "r2", Kind: symbols.SymbolVariable}}
	file := "m.fer"
	mkloc := func(line int) *source.Location {
		return &source.Location{Filename: &file, Start: &source.Position{Line: line, Column: 1}, End: &source.Position{Line: line, Column: 2}}
	}
	ident := func(i int, line int) *hir.Ident {
		return &hir.Ident{Name: refs[i].Name, Symbol: refs[i], Location: *mkloc(line)}
	}
	ps := zzPaths()[:4]
	var live []zzLoan
	errs := 0
	expect := func(conflict bool, what string) {
		n := ctx.Diagnostics.ErrorCount()
		if conflict {
			verifrt.Assert(n > errs, what+": a conflicting loan is live but no error is reported")
		} else {
			verifrt.Assert(n == errs, what+": an error is reported although no conflicting loan is live")
		}
		errs = n
	}
	conflicts := func(path []placeSegment, needMutOnly bool) bool {
		for _, l := range live {
			if zzPrefixOverlap(l.path, path) && (!needMutOnly || l.mutable) {
				return true
			}
		}
		return false
	}
	borrow := func(owner int, path []placeSegment, mut bool, line int) {
		place := borrowPlace{base: x, path: path}
		loc := mkloc(line)
		c := conflicts(path, !mut)
		if b.addBorrow(place, mut, loc) {
			b.bindings[refs[owner]] = borrowBinding{place: place, mutable: mut, loc: loc}
			live = append(live, zzLoan{owner, path, mut})
		}
		expect(c, "borrow")
	}
	// event 1
	p1 := ps[verifrt.Choice("p1", len(ps))]
	m1 := verifrt.Choice("m1", 2) == 1
	borrow(0, p1, m1, 1)
	// event 2
	switch verifrt.Choice("e2", 3) {
	case 1: // let r2 = r1  (copy of the reference)
		c := m1 // a second mutable loan of the same place conflicts with the first
		b.bindRefFromIdent(ident(1, 2), ident(0, 2))
		if !c {
			live = append(live, zzLoan{1, p1, m1})
		}
		expect(c, "reference copy")
	case 2:
		borrow(1, ps[verifrt.Choice("p2", len(ps))], verifrt.Choice("m2", 2) == 1, 2)
	}
	// event 3
	rel := verifrt.Choice("e3", 3)
	if rel > 0 {
		b.releaseBinding(refs[rel-1])
		var keep []zzLoan
		for _, l := range live {
			if l.owner != rel-1 {
				keep = append(keep, l)
			}
		}
		live = keep
		expect(false, "release")
	}
	// event 4
	q := ps[verifrt.Choice("q", len(ps))]
	switch verifrt.Choice("e4", 3) {
	case 0:
		c := conflicts(q, true)
		b.checkAccess(borrowPlace{base: x, path: q}, accessRead, mkloc(4))
		expect(c, "read")
	case 1:
		c := conflicts(q, false)
		b.checkAccess(borrowPlace{base: x, path: q}, accessWrite, mkloc(4))
		expect(c, "write")
	default:
		c := conflicts(q, false)
		b.addBorrow(borrowPlace{base: x, path: q}, true, mkloc(4))
		expect(c, "mutable borrow")
	}
}
