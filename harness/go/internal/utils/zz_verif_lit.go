package utils

import "compiler/internal/verifrt"

// HarnessC14LitIDs: two modules are parsed by two logical threads (as processModule does with goroutines); each
// thread asks for the IDs of its two function literals.  Under EVERY interleaving of the atomic counter operations the
// IDs a module's literals receive must be the same - they end up in generated symbol names, so otherwise the emitted
// code depends on the schedule.
func HarnessC14LitIDs() {
	*litCountermap[FN] = 0
	var a1, a2, b1, b2 string
	verifrt.Interleave(
		func() { a1 = GenerateFuncLitID(); a2 = GenerateFuncLitID() },
		func() { b1 = GenerateFuncLitID(); b2 = GenerateFuncLitID() },
	)
	_ = b1
	_ = b2
	verifrt.Assert(a1 == FN+"1" && a2 == FN+"2", "the IDs given to the function literals of a module depend on how its parse goroutine interleaves with another module's")
}
