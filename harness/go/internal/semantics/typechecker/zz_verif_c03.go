package typechecker

import (
	"compiler/internal/types"
	"compiler/internal/verifrt"
)

type zzTy struct {
	t    types.SemType
	name string
	kind string // num, bool, str, none, opt, ref, mref, dyn, fix, named, struct, nstruct, result
	num  int    // index into zzNumerics for kind num
	in   int    // index of the inner type in the pool (opt/ref/mref/dyn/fix/named/nstruct), -1 otherwise
}

func zzTypePool() []zzTy {
	ns := zzNumerics()
	idx := func(n string) int {
		for i, x := range ns {
			if x.name == n {
				return i
			}
		}
		return -1
	}
	p := []zzTy{
		{t: types.TypeI8, name: "i8", kind: "num", num: idx("i8"), in: -1},
		{t: types.TypeI32, name: "i32", kind: "num", num: idx("i32"), in: -1},
		{t: types.TypeI64, name: "i64", kind: "num", num: idx("i64"), in: -1},
		{t: types.TypeU8, name: "u8", kind: "num", num: idx("u8"), in: -1},
		{t: types.TypeU32, name: "u32", kind: "num", num: idx("u32"), in: -1},
		{t: types.TypeF64, name: "f64", kind: "num", num: idx("f64"), in: -1},
		{t: types.TypeBool, name: "bool", kind: "bool", in: -1},
		{t: types.TypeString, name: "str", kind: "str", in: -1},
		{t: types.TypeNone, name: "none", kind: "none", in: -1},
	}
	st := types.NewStruct("", []types.StructField{{Name: "X", Type: types.TypeI32}})
	p = append(p, zzTy{t: st, name: "struct{X:i32}", kind: "struct", in: -1})
	base := len(p)
	for i := 0; i < base; i++ {
		if p[i].kind == "none" {
			continue
		}
		p = append(p, zzTy{t: types.NewOptional(p[i].t), name: p[i].name + "?", kind: "opt", in: i})
	}
	for _, i := range []int{1, 2, 7} {
		p = append(p, zzTy{t: types.NewReference(p[i].t), name: "&" + p[i].name, kind: "ref", in: i})
		p = append(p, zzTy{t: types.NewMutableReference(p[i].t), name: "&'" + p[i].name, kind: "mref", in: i})
		p = append(p, zzTy{t: types.NewArray(p[i].t, -1), name: "[]" + p[i].name, kind: "dyn", in: i})
		p = append(p, zzTy{t: types.NewArray(p[i].t, 3), name: "[3]" + p[i].name, kind: "fix", in: i})
	}
	p = append(p, zzTy{t: types.NewNamed("Int", types.TypeI32), name: "Int", kind: "named", in: 1})
	p = append(p, zzTy{t: types.NewNamed("Long", types.TypeI64), name: "Long", kind: "named", in: 2})
	p = append(p, zzTy{t: types.NewNamed("P", st), name: "P", kind: "nstruct", in: 9})
	p = append(p, zzTy{t: types.NewResult(types.TypeI32, types.TypeString), name: "str!i32", kind: "result", in: -1})
	return p
}

// zzNumLossless: every value of numeric type a is representable in b (decided by ranges / precisions).
func zzNumLossless(a, b zzNum) bool {
	switch {
	case !a.isFloat && !b.isFloat:
		alo, ahi := zzRange(a)
		blo, bhi := zzRange(b)
		return alo.Cmp(blo) >= 0 && ahi.Cmp(bhi) <= 0 && !(a.name == "byte" || b.name == "byte")
	case !a.isFloat && b.isFloat:
		vb := a.bits
		if a.signed {
			vb--
		}
		return vb <= b.prec
	case a.isFloat && b.isFloat:
		return a.prec <= b.prec && a.emax <= b.emax
	}
	return false
}

// zzForbidden: the pair belongs to one of the rule classes of the property's catalogue that must never be accepted
// without a cast: numeric narrowing / float->int (also when the target is an optional of a numeric type, or both are
// optionals of numeric types), an optional T? where a non-optional is required, &T where &'T is required, and
// conversions between the kinds integer/float, bool and str.  Pairs outside these classes are not constrained.
func zzForbidden(p []zzTy, s, t int) (bool, string) {
	S, T := p[s], p[t]
	if s == t {
		return false, ""
	}
	ns := zzNumerics()
	prim := func(k string) bool { return k == "num" || k == "bool" || k == "str" }
	switch {
	case S.kind == "num" && T.kind == "num":
		return !zzNumLossless(ns[S.num], ns[T.num]), "numeric narrowing or float-to-int"
	case prim(S.kind) && prim(T.kind) && S.kind != T.kind:
		return true, "conversion between number, bool and str"
	case S.kind == "opt" && (prim(T.kind) || T.kind == "struct" || T.kind == "named" || T.kind == "nstruct" || T.kind == "dyn" || T.kind == "fix"):
		return true, "optional used where a non-optional is required"
	case S.kind == "ref" && T.kind == "mref":
		return true, "shared reference used where a mutable reference is required"
	case S.kind == "num" && T.kind == "opt" && p[T.in].kind == "num" && T.in != s:
		return !zzNumLossless(ns[S.num], ns[p[T.in].num]), "numeric narrowing into an optional"
	case S.kind == "opt" && T.kind == "opt" && p[S.in].kind == "num" && p[T.in].kind == "num":
		return !zzNumLossless(ns[p[S.in].num], ns[p[T.in].num]), "numeric narrowing between optionals"
	case prim(S.kind) && T.kind == "opt" && prim(p[T.in].kind) && p[T.in].kind != S.kind:
		return true, "conversion between number, bool and str into an optional"
	}
	return false, ""
}

// HarnessC03Compat: for every ordered pair of types from a pool (primitives, optionals, references, arrays, named
// aliases, structs, results) the compiler's implicit-compatibility verdict never admits a pair the rule catalogue
// forbids (numeric narrowing, float->int, T?->T, &T->&'T, int<->bool, int<->str, unrelated composites).
func HarnessC03Compat() {
	p := zzTypePool()
	s := verifrt.Choice("src", len(p))
	t := verifrt.Choice("dst", len(p))
	c := checkTypeCompatibility(p[s].t, p[t].t)
	if bad, why := zzForbidden(p, s, t); bad {
		verifrt.Assert(!isImplicitlyCompatible(c), "implicitly accepted although the typing rules forbid it ("+why+"): "+p[s].name+" -> "+p[t].name)
	}
	if s == t {
		verifrt.Assert(c == Identical, "type not identical to itself: "+p[s].name)
	}
}
