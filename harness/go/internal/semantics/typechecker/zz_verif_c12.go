package typechecker

import (
	"compiler/internal/context_v2"
	"compiler/internal/diagnostics"
	"compiler/internal/frontend/ast"
	"compiler/internal/semantics/symbols"
	"compiler/internal/semantics/table"
	"compiler/internal/types"
	"compiler/internal/utils"
	"compiler/internal/verifrt"
)

// HarnessC12Exported: a name is exported exactly when its first byte is an upper-case ASCII letter.
func HarnessC12Exported() {
	n := 1 + verifrt.Choice("n", 3)
	s := verifrt.String("name", n)
	for i := 0; i < len(s); i++ {
		verifrt.Assume(s[i] < 0x80)
	}
	verifrt.Assert(utils.IsExported(s) == (s[0] >= 'A' && s[0] <= 'Z'), "IsExported disagrees with the capitalisation rule")
}

// HarnessC12PrivateField: a lower-case field may be selected only when the base of the selector IS an identifier
// that resolves (innermost scope first) to a receiver; through any longer chain, a parameter, a local, or a local that
// shadows the receiver it must be refused; upper-case fields are always accessible.
func HarnessC12PrivateField() {
	box := types.NewNamed("Box", types.NewStruct("", []types.StructField{{Name: "secret", Type: types.TypeI32}, {Name: "Open", Type: types.TypeI32}}))
	wrapper := types.NewNamed("Wrapper", types.NewStruct("", []types.StructField{{Name: "B", Type: box}, {Name: "Items", Type: types.NewArray(box, 2)}, {Name: "inner", Type: box}}))

	ctx := &context_v2.CompilerContext{Modules: map[string]*context_v2.Module{}, Diagnostics: diagnostics.NewDiagnosticBag(""), DepGraph: map[string][]string{},
		Config: &context_v2.Config{Extension: ".fer"}, Universe: table.NewSymbolTable(nil)}
	outer := table.NewSymbolTable(nil)
	inner := table.NewSymbolTable(outer)
	mod := &context_v2.Module{ImportPath: "m", FilePath: "m.fer", ModuleScope: outer, CurrentScope: inner,
		Imports: map[string]*context_v2.Import{}, ImportAliasMap: map[string]string{}, ExprTypes: map[ast.Expression]types.SemType{}, Artifacts: map[string]any{}}
	kinds := []symbols.SymbolKind{symbols.SymbolReceiver, symbols.SymbolParameter, symbols.SymbolVariable}
	kb := kinds[verifrt.Choice("kind_b", 3)]
	kw := kinds[verifrt.Choice("kind_w", 3)]
	refb := verifrt.Choice("ref_b", 2) == 1
	var tb types.SemType = box
	if refb {
		tb = types.NewReference(box)
	}
	outer.Declare("b", &symbols.Symbol{Name: "b", Kind: kb, Type: tb})
	outer.Declare("w", &symbols.Symbol{Name: "w", Kind: kw, Type: wrapper})
	shadow := verifrt.Choice("shadow", 2) == 1
	if shadow {
		inner.Declare("b", &symbols.Symbol{Name: "b", Kind: symbols.SymbolVariable, Type: box})
	}
	id := func(n string) *ast.IdentifierExpr { return &ast.IdentifierExpr{Name: n, Location: zzLocC06(1)} }
	field := []string{"secret", "Open"}[verifrt.Choice("field", 2)]
	var base ast.Expression
	direct := false
	switch verifrt.Choice("base", 5) {
	case 0:
		base = id("b")
		direct = true
	case 1:
		base = &ast.SelectorExpr{X: id("w"), Field: id("B"), Location: zzLocC06(1)}
	case 2:
		base = &ast.IndexExpr{X: &ast.SelectorExpr{X: id("w"), Field: id("Items"), Location: zzLocC06(1)}, Index: &ast.BasicLit{Kind: ast.INT, Value: "0", Location: zzLocC06(1)}, Location: zzLocC06(1)}
	case 3:
		base = &ast.ParenExpr{X: &ast.SelectorExpr{X: id("w"), Field: id("B"), Location: zzLocC06(1)}, Location: zzLocC06(1)}
	default:
		base = &ast.SelectorExpr{X: id("w"), Field: id("inner"), Location: zzLocC06(1)}
	}
	if w, isW := base.(*ast.SelectorExpr); isW && w.Field.Name == "inner" && kw != symbols.SymbolReceiver {
		return // w.inner itself is a private-field access refused earlier; not the subject here
	}
	sel := &ast.SelectorExpr{X: base, Field: id(field), Location: zzLocC06(1)}
	before := ctx.Diagnostics.ErrorCount()
	checkSelectorExpr(ctx, mod, sel)
	refused := ctx.Diagnostics.ErrorCount() > before
	if field == "Open" {
		verifrt.Assert(!refused, "access to an exported field is refused")
		return
	}
	throughReceiver := direct && kb == symbols.SymbolReceiver && !shadow
	if throughReceiver {
		verifrt.Assert(!refused, "access to a private field through the receiver is refused")
	} else {
		verifrt.Assert(refused, "a private field is accessible although the access does not go through the receiver of its type")
	}
}
