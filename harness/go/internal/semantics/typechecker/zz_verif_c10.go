package typechecker

import (
	"math/big"

	"compiler/internal/types"
	"compiler/internal/utils/numeric"
	"compiler/internal/verifrt"
)

var numericNew = numeric.NewNumericValue

func zzItoa(k int) string {
	if k < 10 {
		return string(rune('0' + k))
	}
	return zzItoa(k/10) + string(rune('0'+k%10))
}

var zzPrefix = []string{"", "0x", "0o", "0b"}
var zzBase = []uint64{10, 16, 8, 2}

// zzLiteral builds a literal text of n symbolic digits in the chosen base (digit values are the symbolic inputs, the
// bytes are derived from them), with an optional '_' separator between two digits and an optional leading '-'
// (decimal only).  Returns the text and the digit values, most significant first.
func zzLiteral(bi int, n int, allowNeg bool) (string, []uint64, bool) {
	base := zzBase[bi]
	dv := make([]uint64, n)
	txt := make([]byte, 0, n+4)
	neg := false
	if allowNeg && bi == 0 && verifrt.Choice("neg", 2) == 1 {
		neg = true
		txt = append(txt, '-')
	}
	txt = append(txt, zzPrefix[bi]...)
	sep := 0 // 0: none, k: '_' before digit k
	if n > 1 && verifrt.Choice("sep", 2) == 1 {
		sep = n - 1
	}
	upper := bi == 1 && verifrt.Choice("upper", 2) == 1
	for k := 0; k < n; k++ {
		d := verifrt.Uint64("dv" + zzItoa(k))
		verifrt.Assume(d < base)
		dv[k] = d
		if k > 0 && k == sep {
			txt = append(txt, '_')
		}
		var c byte
		if d < 10 {
			c = byte('0' + d)
		} else if upper {
			c = byte('A' + d - 10)
		} else {
			c = byte('a' + d - 10)
		}
		txt = append(txt, c)
	}
	return string(txt), dv, neg
}

// HarnessC10Small: the eight integer types of at most 64 bits.  The literal's mathematical value is computed by
// the harness in 64-bit unsigned arithmetic (digit counts are bounded so that it cannot overflow) and the solver
// decides accepted <=> value in range, for every digit string.  The literal is parsed once (fitsInType for one type,
// the same NumericValue.FitsInBitSize fitsInType calls for the others).
func HarnessC10Small() {
	tys := []types.SemType{types.TypeI8, types.TypeI16, types.TypeI32, types.TypeI64, types.TypeU8, types.TypeU16, types.TypeU32, types.TypeU64}
	bits := []uint{8, 16, 32, 64, 8, 16, 32, 64}
	signed := []bool{true, true, true, true, false, false, false, false}
	bi := verifrt.Choice("base", 4)
	lens := [][]int{{1, 3, 5}, {2, 4}, {3}, {8}}[bi]
	if verifrt.Thorough() {
		lens = [][]int{{1, 2, 3, 4, 5, 6}, {2, 3, 4, 5}, {3, 4, 5}, {8, 9, 10}}[bi]
	}
	n := lens[verifrt.Choice("n", len(lens))]
	s, dv, neg := zzLiteral(bi, n, true)
	if bi == 0 && n > 1 {
		verifrt.Assume(dv[0] != 0) // leading zeros: HarnessC10LeadingZero
	}
	var v uint64
	for _, d := range dv {
		v = v*zzBase[bi] + d
	}
	want := func(ti int) bool {
		b := bits[ti]
		switch {
		case !signed[ti]:
			return (!neg || v == 0) && (b == 64 || v <= 1<<b-1)
		case neg:
			return v <= 1<<(b-1)
		}
		return v <= 1<<(b-1)-1
	}
	first := verifrt.Choice("type", 2) * 4 // i8 or u8 through fitsInType itself
	verifrt.Assert(fitsInType(s, tys[first]) == want(first), "integer literal range check (fitsInType) disagrees with the mathematical value of the literal")
	nv, err := numericNew(s)
	verifrt.Assert(err == nil, "well-formed integer literal rejected by NewNumericValue")
	if err != nil {
		return
	}
	for ti := range tys {
		verifrt.Assert(nv.FitsInBitSize(int(bits[ti]), signed[ti]) == want(ti), "integer literal range check disagrees with the mathematical value of the literal")
	}
}

// HarnessC10LeadingZero: decimal literals with leading zeros keep their decimal value.
func HarnessC10LeadingZero() {
	tys := []types.SemType{types.TypeI8, types.TypeU8, types.TypeI16}
	maxs := []uint64{127, 255, 32767}
	ti := verifrt.Choice("type", len(tys))
	n := 2 + verifrt.Choice("n", 3)
	s, dv, _ := zzLiteral(0, n, false)
	verifrt.Assume(dv[0] == 0)
	var v uint64
	for _, d := range dv {
		v = v*10 + d
	}
	verifrt.Assert(fitsInType(s, tys[ti]) == (v <= maxs[ti]), "decimal literal with a leading zero is range-checked with a different value")
}

// HarnessC10Big: the 128- and 256-bit types (value as an SMT integer).
func HarnessC10Big() {
	tys := []types.SemType{types.TypeI128, types.TypeU128, types.TypeI256, types.TypeU256}
	bits := []uint{128, 128, 256, 256}
	signed := []bool{true, false, true, false}
	ti := verifrt.Choice("type", len(tys))
	bi := verifrt.Choice("base", 2) // decimal, hex
	lens := [][]int{{38, 39, 40, 77, 78, 79}, {31, 32, 33, 63, 64, 65}}[bi]
	if !verifrt.Thorough() {
		lens = [][]int{{39}, {32}}[bi]
	}
	n := lens[verifrt.Choice("n", len(lens))]
	s, dv, neg := zzLiteral(bi, n, true)
	verifrt.Assume(dv[0] != 0)
	v := new(big.Int)
	bb := new(big.Int).SetUint64(zzBase[bi])
	for _, d := range dv {
		v.Mul(v, bb)
		v.Add(v, new(big.Int).SetUint64(d))
	}
	if neg {
		v.Neg(v)
	}
	var lo, hi *big.Int
	if signed[ti] {
		lo = new(big.Int).Neg(zzPow2(bits[ti] - 1))
		hi = new(big.Int).Sub(zzPow2(bits[ti]-1), big.NewInt(1))
	} else {
		lo = big.NewInt(0)
		hi = new(big.Int).Sub(zzPow2(bits[ti]), big.NewInt(1))
	}
	want := v.Cmp(lo) >= 0 && v.Cmp(hi) <= 0
	verifrt.Assert(fitsInType(s, tys[ti]) == want, "128/256-bit integer literal range check disagrees with the mathematical value")
}

// HarnessC10Sequence: the range check has no memory - the verdict for a literal does not depend on which literals
// (and which types) were checked earlier in the same compilation.  Two checks run one after the other: the same or
// another boundary literal text against the signed and the unsigned type of one width, in either order; each verdict
// must equal the mathematical one.  (Texts are concrete boundary values: 2^(N-1)-1, 2^(N-1), 2^N-1, 2^N.)
func HarnessC10Sequence() {
	widths := []uint{8, 16, 32, 64}
	st := []types.SemType{types.TypeI8, types.TypeI16, types.TypeI32, types.TypeI64}
	ut := []types.SemType{types.TypeU8, types.TypeU16, types.TypeU32, types.TypeU64}
	texts := [][]string{{"127", "128", "255", "256"}, {"32767", "32768", "65535", "65536"}, {"2147483647", "2147483648", "4294967295", "4294967296"},
		{"9223372036854775807", "9223372036854775808", "18446744073709551615", "18446744073709551616"}}
	// verdicts for the four texts of a width: signed type / unsigned type
	fitS := []bool{true, false, false, false}
	fitU := []bool{true, true, true, false}
	w := verifrt.Choice("width", len(widths))
	a := verifrt.Choice("first", 4)
	b := verifrt.Choice("second", 4)
	signedFirst := verifrt.Choice("order", 2) == 0
	sameSign := verifrt.Choice("samesign", 2) == 1
	check := func(ti int, signed bool) {
		if signed {
			verifrt.Assert(fitsInType(texts[w][ti], st[w]) == fitS[ti], "the range check of a literal depends on an earlier check (signed type)")
		} else {
			verifrt.Assert(fitsInType(texts[w][ti], ut[w]) == fitU[ti], "the range check of a literal depends on an earlier check (unsigned type)")
		}
	}
	check(a, signedFirst)
	check(b, signedFirst == sameSign)
}
