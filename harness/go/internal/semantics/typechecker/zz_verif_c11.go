package typechecker

import (
	"math/big"

	"compiler/internal/types"
	"compiler/internal/verifrt"
)

// numericInfo describes the value set of one of the 17 numeric types.
type zzNum struct {
	t       types.SemType
	name    string
	isFloat bool
	bits    uint // integers: total bits
	signed  bool
	prec    uint // floats: significand precision in bits (incl. hidden bit)
	emax    int  // floats: maximum binary exponent
}

func zzNumerics() []zzNum {
	return []zzNum{
		{t: types.TypeI8, name: "i8", bits: 8, signed: true}, {t: types.TypeI16, name: "i16", bits: 16, signed: true},
		{t: types.TypeI32, name: "i32", bits: 32, signed: true}, {t: types.TypeI64, name: "i64", bits: 64, signed: true},
		{t: types.TypeI128, name: "i128", bits: 128, signed: true}, {t: types.TypeI256, name: "i256", bits: 256, signed: true},
		{t: types.TypeU8, name: "u8", bits: 8}, {t: types.TypeU16, name: "u16", bits: 16},
		{t: types.TypeU32, name: "u32", bits: 32}, {t: types.TypeU64, name: "u64", bits: 64},
		{t: types.TypeU128, name: "u128", bits: 128}, {t: types.TypeU256, name: "u256", bits: 256},
		{t: types.TypeByte, name: "byte", bits: 8},
		// IEEE binary32/64/128 and the repository's own 256-bit layout (1+19+236)
		{t: types.TypeF32, name: "f32", isFloat: true, prec: 24, emax: 127}, {t: types.TypeF64, name: "f64", isFloat: true, prec: 53, emax: 1023},
		{t: types.TypeF128, name: "f128", isFloat: true, prec: 113, emax: 16383}, {t: types.TypeF256, name: "f256", isFloat: true, prec: 237, emax: 262143},
	}
}

func zzPow2(n uint) *big.Int { return new(big.Int).Lsh(big.NewInt(1), n) }

func zzRange(n zzNum) (*big.Int, *big.Int) {
	if n.signed {
		return new(big.Int).Neg(zzPow2(n.bits - 1)), new(big.Int).Sub(zzPow2(n.bits-1), big.NewInt(1))
	}
	return big.NewInt(0), new(big.Int).Sub(zzPow2(n.bits), big.NewInt(1))
}

// HarnessC11: for every ordered pair (S,T) of numeric types that the compiler treats as implicitly compatible,
// no value of S fails to be exactly representable in T.  The pair is a symbolic choice (all 289 explored); the
// witness value is a symbolic integer and the solver decides whether a non-representable one exists.
func HarnessC11() {
	ns := zzNumerics()
	i := verifrt.Choice("src", len(ns))
	j := verifrt.Choice("dst", len(ns))
	S, T := ns[i], ns[j]
	c := checkTypeCompatibility(S.t, T.t)
	implicit := isImplicitlyCompatible(c)
	if i == j {
		verifrt.Assert(c == Identical, "a type is not identical to itself")
		return
	}
	if !implicit {
		return
	}
	switch {
	case !S.isFloat && !T.isFloat:
		// any v in range(S) must be in range(T)
		v := verifrt.BigInt("v")
		lo, hi := zzRange(S)
		verifrt.Assume(v.Cmp(lo) >= 0 && v.Cmp(hi) <= 0)
		tlo, thi := zzRange(T)
		verifrt.Assert(v.Cmp(tlo) >= 0 && v.Cmp(thi) <= 0, "implicit integer conversion "+S.name+" -> "+T.name+" loses a value (v outside the target range)")
	case !S.isFloat && T.isFloat:
		// odd numbers >= 2^p + 1 need more than p significand bits: v = 2^p + 1 + 2^(p+1)*a, a >= 0, is never
		// representable; every |v| <= 2^p is.  The solver decides whether such a v lies in range(S).
		a := verifrt.BigInt("a")
		verifrt.Assume(a.Sign() >= 0)
		v := new(big.Int).Add(zzPow2(T.prec), big.NewInt(1))
		v.Add(v, new(big.Int).Mul(zzPow2(T.prec+1), a))
		_, hi := zzRange(S)
		verifrt.Assert(v.Cmp(hi) > 0, "implicit conversion "+S.name+" -> "+T.name+" loses precision: an odd value above 2^p fits the source type")
	case S.isFloat && T.isFloat:
		// significand: an odd m with exactly S.prec bits exists; it needs S.prec bits in T as well
		m := verifrt.BigInt("m")
		verifrt.Assume(m.Cmp(zzPow2(S.prec-1)) >= 0 && m.Cmp(zzPow2(S.prec)) < 0)
		verifrt.Assert(m.Cmp(zzPow2(T.prec)) < 0, "implicit conversion "+S.name+" -> "+T.name+" drops significand bits")
		verifrt.Assert(S.emax <= T.emax, "implicit conversion "+S.name+" -> "+T.name+" narrows the exponent range")
	default:
		verifrt.Assert(false, "implicit conversion from float "+S.name+" to integer "+T.name)
	}
}

// HarnessC11Exact64: cross-validation of the oracle for 64-bit-or-narrower integers converted to f32/f64:
// representability is decided bit-precisely (v / lowbit(v) < 2^p) on a symbolic 64-bit value.
func HarnessC11Exact64() {
	ns := zzNumerics()
	i := verifrt.Choice("src", len(ns))
	j := verifrt.Choice("dst", len(ns))
	S, T := ns[i], ns[j]
	if S.isFloat || !T.isFloat || S.bits > 64 || T.prec > 53 {
		return
	}
	if !isImplicitlyCompatible(checkTypeCompatibility(S.t, T.t)) {
		return
	}
	raw := verifrt.Uint64("raw")
	var mag uint64
	if S.signed {
		sh := 64 - S.bits
		x := int64(raw<<sh) >> sh // sign-extended value of S
		if x < 0 {
			mag = uint64(-x)
		} else {
			mag = uint64(x)
		}
	} else {
		if S.bits < 64 {
			mag = raw & (1<<S.bits - 1)
		} else {
			mag = raw
		}
	}
	low := mag & -mag
	p := T.prec
	repr := mag == 0 || low >= 1<<(64-p) || mag < low<<p
	verifrt.Assert(repr, "implicit conversion "+S.name+" -> "+T.name+" loses precision for a concrete 64-bit value")
}
