package typechecker

import (
	"compiler/internal/context_v2"
	"compiler/internal/diagnostics"
	"compiler/internal/frontend/ast"
	"compiler/internal/semantics/symbols"
	"compiler/internal/semantics/table"
	"compiler/internal/source"
	"compiler/internal/types"
	"compiler/internal/verifrt"
)

func zzLocC06(line int) source.Location {
	f := "m.fer"
	return source.Location{Filename: &f, Start: &source.Position{Line: line, Column: 1}, End: &source.Position{Line: line, Column: 2}}
}

// HarnessC06Mutability: the place `c`, `c.X`, `c[0]`, `(c).X`, `c.In.X`, `c[0].X` ... (chains of depth <= 2) whose
// root is a constant, a read-only variable (loop index, catch error) or an immutable reference &T must be refused by
// the mutation check (checkMutability + reportMutabilityError) whatever the access path; a mutable root is allowed.
func HarnessC06Mutability() {
	inner := types.NewStruct("", []types.StructField{{Name: "X", Type: types.TypeI32}})
	st := types.NewStruct("", []types.StructField{{Name: "X", Type: types.TypeI32}, {Name: "In", Type: inner}, {Name: "Arr", Type: types.NewArray(types.TypeI32, 3)}})
	named := types.NewNamed("P", st)
	arrOfP := types.NewArray(named, 3)

	kinds := []symbols.SymbolKind{symbols.SymbolVariable, symbols.SymbolConstant, symbols.SymbolParameter, symbols.SymbolReceiver}
	kind := kinds[verifrt.Choice("kind", len(kinds))]
	readonly := verifrt.Choice("readonly", 2) == 1
	shape := verifrt.Choice("shape", 2) // 0: struct P, 1: [3]P
	var base types.SemType = named
	if shape == 1 {
		base = arrOfP
	}
	refk := verifrt.Choice("ref", 3) // 0: T, 1: &T, 2: &'T
	var ty types.SemType = base
	if refk == 1 {
		ty = types.NewReference(base)
	} else if refk == 2 {
		ty = types.NewMutableReference(base)
	}

	ctx := &context_v2.CompilerContext{Modules: map[string]*context_v2.Module{}, Diagnostics: diagnostics.NewDiagnosticBag(""), DepGraph: map[string][]string{},
		Config: &context_v2.Config{Extension: ".fer"}, Universe: table.NewSymbolTable(nil)}
	scope := table.NewSymbolTable(nil)
	mod := &context_v2.Module{ImportPath: "m", FilePath: "m.fer", ModuleScope: scope, CurrentScope: scope,
		Imports: map[string]*context_v2.Import{}, ImportAliasMap: map[string]string{}, ExprTypes: map[ast.Expression]types.SemType{}, Artifacts: map[string]any{}}
	sym := &symbols.Symbol{Name: "c", Kind: kind, Type: ty, IsReadonly: readonly}
	scope.Declare("c", sym)

	root := &ast.IdentifierExpr{Name: "c", Location: zzLocC06(1)}
	mod.ExprTypes[root] = ty
	var target ast.Expression = root
	// first link
	var cur types.SemType = base
	step := func(name string) {
		switch verifrt.Choice(name, 4) {
		case 0: // stop
		case 1: // parenthesise
			p := &ast.ParenExpr{X: target, Location: zzLocC06(1)}
			mod.ExprTypes[p] = cur
			target = p
		case 2: // index (only when the current type is an array)
			if a, ok := types.UnwrapType(cur).(*types.ArrayType); ok {
				ix := &ast.IndexExpr{X: target, Index: &ast.BasicLit{Kind: ast.INT, Value: "0", Location: zzLocC06(1)}, Location: zzLocC06(1)}
				cur = a.Element
				mod.ExprTypes[ix] = cur
				target = ix
			}
		case 3: // field X (only when the current type is a struct)
			if s, ok := types.UnwrapType(cur).(*types.StructType); ok {
				f := s.Fields[0]
				se := &ast.SelectorExpr{X: target, Field: &ast.IdentifierExpr{Name: f.Name, Location: zzLocC06(1)}, Location: zzLocC06(1)}
				cur = f.Type
				mod.ExprTypes[se] = cur
				target = se
			}
		}
	}
	step("link1")
	step("link2")

	info := checkMutability(ctx, mod, target)
	blocked := reportMutabilityError(ctx, info, target)
	mustBlock := kind == symbols.SymbolConstant || readonly || refk == 1
	if mustBlock {
		verifrt.Assert(blocked && ctx.Diagnostics.HasErrors(), "a mutation of an immutable place (constant, read-only variable or & reference) is not refused")
	}
	if kind == symbols.SymbolVariable && !readonly && refk != 1 {
		verifrt.Assert(!ctx.Diagnostics.HasErrors(), "a mutation of a mutable variable is refused")
	}
}
