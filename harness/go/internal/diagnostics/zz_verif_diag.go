package diagnostics

import (
	"compiler/internal/source"
	"compiler/internal/verifrt"
)

func zzLoc(file string, line int) *source.Location {
	f := file
	return &source.Location{Filename: &f, Start: &source.Position{Line: line, Column: 1}, End: &source.Position{Line: line, Column: 2}}
}

// HarnessC14SortOrder: 7 diagnostics of module "a" (all at the same position, as the lexer reports several errors at
// one place) and 6 of module "b" arrive in the shared bag in an arbitrary interleaving that preserves each module's own
// order (the interleaving is symbolic: all C(13,6) are explored); the emitted order must not depend on it.
func HarnessC14SortOrder() {
	var as, bs []*Diagnostic
	for i := 0; i < 7; i++ {
		as = append(as, NewError("a"+string(rune('0'+i))).WithPrimaryLabel(zzLoc("a.fer", 3), ""))
	}
	for i := 0; i < 6; i++ {
		bs = append(bs, NewError("b"+string(rune('0'+i))).WithPrimaryLabel(zzLoc("b.fer", 1+i), ""))
	}
	var arrival []*Diagnostic
	ia, ib := 0, 0
	for ia < len(as) || ib < len(bs) {
		takeA := ib == len(bs)
		if ia < len(as) && ib < len(bs) {
			takeA = verifrt.Choice("step"+string(rune('a'+ia+ib)), 2) == 0
		}
		if takeA {
			arrival = append(arrival, as[ia])
			ia++
		} else {
			arrival = append(arrival, bs[ib])
			ib++
		}
	}
	sortDiagnostics(arrival)
	for i := 0; i < 7; i++ {
		verifrt.Assert(arrival[i] == as[i], "order of the emitted diagnostics depends on the interleaving of the modules' reports")
	}
	for i := 0; i < 6; i++ {
		verifrt.Assert(arrival[7+i] == bs[i], "order of the emitted diagnostics depends on the interleaving of the modules' reports")
	}
}

// HarnessC13DiagNil: building and sorting diagnostics never crashes, whether or not a location (or its file name)
// is present.
func HarnessC13DiagNil() {
	mk := func(name string) *source.Location {
		switch verifrt.Choice(name, 3) {
		case 0:
			return nil
		case 1:
			return &source.Location{Start: &source.Position{Line: 1, Column: 1}, End: &source.Position{Line: 1, Column: 2}}
		}
		return zzLoc("a.fer", 2)
	}
	d := NewError("m").WithPrimaryLabel(mk("l1"), "x")
	if verifrt.Choice("sec", 2) == 1 {
		d.WithSecondaryLabel(mk("l2"), "y")
	}
	bag := NewDiagnosticBag("")
	bag.Add(d)
	bag.Add(NewWarning("n").WithPrimaryLabel(mk("l3"), ""))
	sortDiagnostics(bag.diagnostics)
	verifrt.Assert(bag.HasErrors(), "HasErrors is false although an error diagnostic was added")
}

// HarnessC13Highlight: the snippet colouriser the emitter runs on every source line it prints is total: for every
// line of up to N characters (N = 4 quick, 5 thorough) over the characters that drive its scanner - both quote kinds,
// backslash, &, a letter, a digit, '.', '/', '_', blank - Highlight returns without a run-time error and the token
// texts concatenate to exactly the line (nothing lost, nothing duplicated).  Unclosed literals, a trailing backslash
// and "&'" are in the space.
func HarnessC13Highlight() {
	alphabet := []byte{'"', '\'', '\\', '&', 'a', '1', '.', '/', '_', ' '}
	maxn := 4
	if verifrt.Thorough() {
		maxn = 5
	}
	n := verifrt.Choice("n", maxn+1)
	b := make([]byte, n)
	for i := 0; i < n; i++ {
		b[i] = alphabet[verifrt.Choice("c"+string(rune('0'+i)), len(alphabet))]
	}
	line := string(b)
	toks := NewSyntaxHighlighter(true).Highlight(line)
	got := ""
	for _, t := range toks {
		got += t.Text
	}
	verifrt.Assert(got == line, "the highlighted tokens do not add up to the source line")
}

// HarnessC13EmitAll: N info / warning diagnostics (N chosen among 0, 1, 49, 50, 51, 64), each on its own line, and ONE
// error that sorts after all of them are emitted through the real bag and emitter: the output contains the error's
// message and its location, and every one of the N notes.  (Whenever the compiler fails it prints at least one
// error diagnostic - however many notes precede it.)
func HarnessC13EmitAll() {
	counts := []int{0, 1, 49, 50, 51, 64}
	n := counts[verifrt.Choice("n", len(counts))]
	warn := verifrt.Choice("warnings", 2) == 1
	bag := NewDiagnosticBag("m.fer")
	src := ""
	for i := 0; i < n+1; i++ {
		src += "let v = 1;\n"
	}
	bag.AddSourceContent("m.fer", src)
	for i := 0; i < n; i++ {
		d := NewInfo("note about a trailing comma")
		if warn {
			d = NewWarning("note about a trailing comma")
		}
		bag.Add(d.WithPrimaryLabel(zzLoc("m.fer", i+1), "here"))
	}
	bag.Add(NewError("the one real error ZQX").WithPrimaryLabel(zzLoc("m.fer", n+1), "wrong"))
	out := bag.EmitAllToString() + verifrt.TakeOutput() // the interpreter captures Fprintf output centrally
	verifrt.Assert(bag.HasErrors(), "CALIBRATION: the bag does not count the error")
	verifrt.Assert(zzCount(out, "the one real error ZQX") >= 1, "a failed compilation prints no error diagnostic: the error is dropped from the output when many notes precede it")
	verifrt.Assert(zzCount(out, "note about a trailing comma") >= n, "some diagnostics are dropped from the output")
}

func zzCount(s, sub string) int {
	n := 0
	for i := 0; i+len(sub) <= len(s); i++ {
		if s[i:i+len(sub)] == sub {
			n++
		}
	}
	return n
}
