package source

import "compiler/internal/verifrt"

func zzRefAdvance(p Position, s string) Position {
	for i := 0; i < len(s); i++ {
		switch s[i] {
		case '\n':
			p.Line++
			p.Column = 1
		case '\t':
			p.Column += 4
		default:
			p.Column++
		}
		p.Index++
	}
	return p
}

// HarnessC19Advance: for every ASCII string s (L <= 4) and every split s = s1 + s2, advancing over s in one call
// equals advancing over s1 and then s2 (positions do not depend on how the lexer chunks the text), Index counts
// bytes and Line counts newlines.
func HarnessC19Advance() {
	maxn := 3
	if verifrt.Thorough() {
		maxn = 4
	}
	n := verifrt.Choice("n", maxn+1)
	s := verifrt.String("s", n)
	for i := 0; i < len(s); i++ {
		verifrt.Assume(s[i] < 0x80)
	}
	k := verifrt.Choice("split", n+1)
	whole := Position{Line: 1, Column: 1, Index: 0}
	whole.Advance(s)
	parts := Position{Line: 1, Column: 1, Index: 0}
	parts.Advance(s[:k])
	parts.Advance(s[k:])
	ref := zzRefAdvance(Position{Line: 1, Column: 1, Index: 0}, s)
	verifrt.Assert(whole.Index == ref.Index && parts.Index == ref.Index, "Index does not count the bytes advanced over")
	verifrt.Assert(whole.Line == ref.Line && parts.Line == ref.Line, "Line does not count the newlines advanced over")
	afterTab := k > 0 && k < n && s[k-1] == '\t' && s[k] != '\t' && s[k] != '\n'
	if afterTab {
		verifrt.Assert(whole.Column == parts.Column, "column differs when the text is split right after a tab")
	} else {
		verifrt.Assert(whole.Column == parts.Column, "column depends on how the text is split into Advance calls")
	}
}
