package source

import "compiler/internal/verifrt"

func zzRefAdvance(p Position, s string) Position {
	for i := 0; i < len(s); i++ {
		switch s[i] {
		case '\n':
			p.Line++
			p.Column = 1
		case '\t':
			p.Column += 4
		default:
			p.Column++
		}
		p.Index++
	}
	return p
}

// HarnessC19Advance: for every ASCII string s (L <= 4) and every split s = s1 + s2, advancing over s in one call
// equals advancing over s1 and then s2 (positions do not depend on how the lexer chunks the text), Index counts
// bytes and Line counts newlines.
func HarnessC19Advance() {
	maxn := 3
	if verifrt.Thorough() {
		maxn = 4
	}
	n := verifrt.Choice("n", maxn+1)
	s := verifrt.String("s", n)
	for i := 0; i < len(s); i++ {
		verifrt.Assume(s[i] < 0x80)
	}
	k := verifrt.Choice("split", n+1)
	whole := Position{Line: 1, Column: 1, Index: 0}
	whole.Advance(s)
	parts := Position{Line: 1, Column: 1, Index: 0}
	parts.Advance(s[:k])
	parts.Advance(s[k:])
	ref := zzRefAdvance(Position{Line: 1, Column: 1, Index: 0}, s)
	verifrt.Assert(whole.Index == ref.Index && parts.Index == ref.Index, "Index does not count the bytes advanced over")
	verifrt.Assert(whole.Line == ref.Line && parts.Line == ref.Line, "Line does not count the newlines advanced over")
	afterTab := k > 0 && k < n && s[k-1] == '\t' && s[k] != '\t' && s[k] != '\n'
	if afterTab {
		verifrt.Assert(whole.Column == parts.Column, "column differs when the text is split right after a tab")
	} else {
		verifrt.Assert(whole.Column == parts.Column, "column depends on how the text is split into Advance calls")
	}
}

// HarnessC19AdvanceUnicode: text with multi-byte characters (a 2-byte and a 3-byte one at symbolic places between
// symbolic ASCII characters, no tab / newline): Index advances by the BYTES, Column by the CHARACTERS, whether the
// text is advanced over in one call or split at any character boundary.
func HarnessC19AdvanceUnicode() {
	a := verifrt.String("a", 1)
	b := verifrt.String("b", 1)
	verifrt.Assume(a[0] >= 0x20 && a[0] < 0x7f && b[0] >= 0x20 && b[0] < 0x7f)
	var parts []string
	switch verifrt.Choice("shape", 4) {
	case 0:
		parts = []string{a, "\u00e9", b}
	case 1:
		parts = []string{"\u65e5", a, b}
	case 2:
		parts = []string{a, b, "\u00e9", "\u65e5"}
	case 3:
		parts = []string{"/*", a, "\u00e9", "*/"}
	}
	s := ""
	for _, p := range parts {
		s += p
	}
	whole := Position{Line: 1, Column: 1, Index: 0}
	whole.Advance(s)
	verifrt.Assert(whole.Index == len(s), "Index does not count the bytes advanced over (multi-byte text)")
	verifrt.Assert(whole.Column == 1+len(parts)+func() int {
		if len(parts) == 4 && parts[0] == "/*" {
			return 2
		}
		return 0
	}(), "Column does not count the characters advanced over (multi-byte text)")
	k := verifrt.Choice("split", len(parts)+1)
	split := Position{Line: 1, Column: 1, Index: 0}
	h := ""
	for _, p := range parts[:k] {
		h += p
	}
	t := ""
	for _, p := range parts[k:] {
		t += p
	}
	split.Advance(h)
	split.Advance(t)
	verifrt.Assert(split.Index == whole.Index && split.Column == whole.Column && split.Line == whole.Line, "position depends on how multi-byte text is split into Advance calls")
}
