package pipeline

import (
	"os"

	"compiler/internal/context_v2"
	"compiler/internal/mir"
	"compiler/internal/phase"
	"compiler/internal/semantics/table"
	"compiler/internal/source"
	"compiler/internal/types"
	"compiler/internal/verifrt"
)

// HarnessC13CodegenFailure: the native code generation phase runs on a one-module project whose MIR is well formed,
// in an environment where each step that leaves the Go code - creating the output directory, writing the IL file,
// the embedded QBE (exit code 0 or 1), the assembler / linker - succeeds or fails by a free choice.  Whenever the
// phase fails (returns an error) an error diagnostic must have been recorded: the driver derives the exit status
// from the diagnostics alone, so a failure without one ends in "exit 0, no message, no executable"; and the
// directory of generated files must be gone again (no artifact is left behind by a failed compilation).
func HarnessC13CodegenFailure() {
	outDir := os.TempDir() + "/zz-verif-c13-out"
	defer os.RemoveAll(outDir)
	ctx := context_v2.New(&context_v2.Config{Extension: ".fer", ProjectName: "p", OutputPath: outDir + "/prog", ProjectRoot: outDir, CodegenBackend: "qbe"}, false)
	scope := table.NewSymbolTable(ctx.Universe)
	mod := &context_v2.Module{ImportPath: "p/m", FilePath: "p/m.fer", Type: context_v2.ModuleLocal, Phase: phase.PhaseMIRGenerated,
		ModuleScope: scope, CurrentScope: scope, Artifacts: map[string]any{}}
	ctx.AddModule("p/m", mod)
	ctx.EntryModule = "p/m"
	loc := source.Location{}
	blk := &mir.Block{ID: 1, Name: "entry"}
	blk.Instrs = append(blk.Instrs, &mir.Const{Result: 1, Type: types.TypeI32, Value: "7", Location: loc})
	blk.Term = &mir.Return{Value: 1, HasValue: true, Location: loc}
	mir.StoreModule(mod, &mir.Module{ImportPath: "p/m", Functions: []*mir.Function{{Name: "main", Return: types.TypeI32, Blocks: []*mir.Block{blk}, Location: loc}}})
	p := New(ctx)
	err := p.runQBECodegenPhase()
	verifrt.Assert(err == nil || ctx.HasErrors(), "the code generation phase fails without recording an error diagnostic: the compiler exits 0 with no message and no executable")
	if err == nil {
		verifrt.Assert(!ctx.HasErrors(), "CALIBRATION: a successful code generation phase records an error")
	} else {
		verifrt.Assert(!verifrt.EnvExists(outDir+"/gen"), "a failed compilation leaves generated files behind (the gen directory with IL / assembly files)")
	}
}

// HarnessC14ImportResolution: a project on the (stub / real) file system in which a module path could be satisfied by
// two files - p/util is <root>/util.fer, and a shadowing <root>/left/util.fer sits next to one of its importers.
// main imports left/a and right/b, both import p/util.  The real module scheduler (goroutines, import resolution
// through ImportPathToFilePath, file reads) runs under every schedule with at most two delays: the file that becomes
// module p/util is the same - the one under the project root - whichever importer happens to request it first.
func HarnessC14ImportResolution() {
	root := os.TempDir() + "/zz-verif-c14-proj"
	defer os.RemoveAll(root)
	verifrt.EnvFile(root+"/util.fer", "fn Val() -> i32 { return 7; }\n")
	verifrt.EnvFile(root+"/left/util.fer", "fn Val() -> i32 { return 100; }\n")
	verifrt.EnvFile(root+"/left/a.fer", "import \"p/util\";\nfn A() -> i32 { return util::Val(); }\n")
	verifrt.EnvFile(root+"/right/b.fer", "import \"p/util\";\nfn B() -> i32 { return util::Val(); }\n")
	mainSrc := "import \"p/left/a\";\nimport \"p/right/b\";\nfn main() { }\n"
	verifrt.EnvFile(root+"/main.fer", mainSrc)
	ctx := context_v2.New(&context_v2.Config{Extension: ".fer", ProjectName: "p", ProjectRoot: root}, false)
	ctx.EntryPoint = root + "/main.fer"
	scope := table.NewSymbolTable(ctx.Universe)
	ctx.AddModule("p/main", &context_v2.Module{ImportPath: "p/main", FilePath: root + "/main.fer", Type: context_v2.ModuleLocal, Phase: phase.PhaseNotStarted,
		Content: mainSrc, ModuleScope: scope, CurrentScope: scope, Artifacts: map[string]any{}})
	ctx.EntryModule = "p/main"
	p := New(ctx)
	verifrt.DelayBound(2)
	verifrt.SingleProc()
	verifrt.StepBudget(40000000, "module scheduling does not finish (deadlock or livelock)")
	verifrt.Threads(func() {
		p.processModule("p/main", nil)
		p.wg.Wait()
	})
	verifrt.StepBudget(0, "")
	verifrt.Assert(!ctx.HasErrors(), "CALIBRATION: the project does not parse without errors")
	m, ok := ctx.GetModule("p/util")
	verifrt.Assert(ok && m != nil, "CALIBRATION: module p/util was not loaded")
	if ok && m != nil {
		verifrt.Assert(m.FilePath == root+"/util.fer", "the file that becomes module p/util depends on which importer requested it first (the generated code then depends on the schedule)")
	}
}
