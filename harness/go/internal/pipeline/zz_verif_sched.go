package pipeline

import (
	"strings"

	"compiler/internal/context_v2"
	"compiler/internal/diagnostics"
	"compiler/internal/phase"
	"compiler/internal/semantics/table"
	"compiler/internal/verifrt"
)

// zzProject registers in-memory modules (import path -> list of imported paths) the way SetEntryPointWithCode does for
// one module: parseModule then takes the text from Module.Content and never touches the file system.
func zzProject(graph map[string][]string, order []string) (*context_v2.CompilerContext, *Pipeline) {
	ctx := context_v2.New(&context_v2.Config{Extension: ".fer", ProjectName: "p"}, false)
	for _, name := range order {
		var sb strings.Builder
		for _, dep := range graph[name] {
			sb.WriteString("import \"" + dep + "\";\n")
		}
		sb.WriteString("fn f_" + strings.ReplaceAll(name, "/", "_") + "() { }\n")
		scope := table.NewSymbolTable(ctx.Universe)
		ctx.AddModule(name, &context_v2.Module{ImportPath: name, FilePath: name + ".fer", Type: context_v2.ModuleLocal, Phase: phase.PhaseNotStarted,
			Content: sb.String(), ModuleScope: scope, CurrentScope: scope, Artifacts: map[string]any{}})
	}
	ctx.EntryModule = order[0]
	return ctx, New(ctx)
}

func zzErrors(ctx *context_v2.CompilerContext) (n int, circular bool) {
	for _, d := range ctx.Diagnostics.Diagnostics() {
		if d.Severity == diagnostics.Error {
			n++
			if strings.Contains(d.Message, "circular import") {
				circular = true
			}
		}
	}
	return
}

var zzShapes = []struct {
	name   string
	order  []string
	graph  map[string][]string
	cyclic bool
}{
	{"diamond", []string{"p/main", "p/a", "p/b", "p/c"}, map[string][]string{"p/main": {"p/a", "p/b"}, "p/a": {"p/c"}, "p/b": {"p/c"}}, false},
	{"fan", []string{"p/main", "p/a", "p/b", "p/c"}, map[string][]string{"p/main": {"p/a", "p/b", "p/c"}}, false},
	{"chain", []string{"p/main", "p/a", "p/b"}, map[string][]string{"p/main": {"p/a"}, "p/a": {"p/b"}}, false},
	{"twocycle", []string{"p/main", "p/a", "p/b"}, map[string][]string{"p/main": {"p/a"}, "p/a": {"p/b"}, "p/b": {"p/a"}}, true},
	{"selfimport", []string{"p/main", "p/a"}, map[string][]string{"p/main": {"p/a"}, "p/a": {"p/a"}}, true},
	{"wide", []string{"p/main", "p/m1", "p/m2", "p/m3", "p/m4", "p/l1", "p/l2", "p/l3", "p/l4"},
		map[string][]string{"p/main": {"p/m1", "p/m2", "p/m3", "p/m4"}, "p/m1": {"p/l1"}, "p/m2": {"p/l2"}, "p/m3": {"p/l3"}, "p/m4": {"p/l4"}}, false},
	{"backedge", []string{"p/main", "p/a", "p/b"}, map[string][]string{"p/main": {"p/a", "p/b"}, "p/a": {"p/b"}, "p/b": {"p/main"}}, true},
}

// zzSchedule (HarnessC15Schedule0-6, one per project shape): the REAL module scheduler (processModule: sync.Map LoadOrStore, WaitGroup, one goroutine per
// module, parseModule with the real lexer and parser, AddDependency under the context lock) runs on a small project
// under every schedule of its goroutines reachable with at most `bound` delays (delay-bounded scheduling over the
// synchronisation operations; bound 2 for the small shapes, 1 for the nine-module one, +1 in the thorough tier): it never
// deadlocks, every module is lexed and parsed exactly once (no phase-advance error), an acyclic project produces no
// error and a complete dependency-first build order, a cyclic one reports a circular import.
func zzSchedule(k int) {
	sh := zzShapes[k]
	bound := 2
	if len(sh.order) > 4 {
		bound = 1
	}
	if verifrt.Thorough() {
		bound++
	}
	verifrt.DelayBound(bound)
	ctx, p := zzProject(sh.graph, sh.order)
	verifrt.SingleProc()
	verifrt.StepBudget(40000000, "module scheduling does not finish (deadlock or livelock)")
	verifrt.Threads(func() {
		p.processModule(sh.order[0], nil)
		p.wg.Wait()
	})
	verifrt.StepBudget(0, "")
	nerr, circular := zzErrors(ctx)
	for _, name := range sh.order {
		m, ok := ctx.GetModule(name)
		verifrt.Assert(ok && m.AST != nil, "a module of the project was not parsed")
		verifrt.Assert(ctx.GetModulePhase(name) == phase.PhaseParsed, "a module is not in phase Parsed after scheduling (processed twice or not at all)")
	}
	if sh.cyclic {
		verifrt.Assert(circular, "an import cycle was not reported under some schedule")
	} else {
		verifrt.Assert(nerr == 0, "an acyclic project reports an error under some schedule")
		ctx.ComputeTopologicalOrder()
		order := ctx.GetModuleNames()
		pos := map[string]int{}
		for i, n := range order {
			pos[n] = i
		}
		verifrt.Assert(len(order) == len(sh.order), "the build order misses or repeats a module")
		for u, deps := range sh.graph {
			for _, v := range deps {
				verifrt.Assert(pos[v] < pos[u], "a dependency is ordered after its importer")
			}
		}
	}
}

func HarnessC15Schedule0() { zzSchedule(0) }
func HarnessC15Schedule1() { zzSchedule(1) }
func HarnessC15Schedule2() { zzSchedule(2) }
func HarnessC15Schedule3() { zzSchedule(3) }
func HarnessC15Schedule4() { zzSchedule(4) }
func HarnessC15Schedule5() { zzSchedule(5) }
func HarnessC15Schedule6() { zzSchedule(6) }
