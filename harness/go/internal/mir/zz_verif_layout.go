package mir

import "compiler/internal/verifrt"

// HarnessAlignTo: alignTo(value, alignment) for every value >= 0 and alignment in {1,2,4,8,16,32}:
// result >= value, multiple of alignment, < value + alignment.
func HarnessAlignTo() {
	v := verifrt.Int("v")
	k := verifrt.Choice("k", 6)
	a := 1 << uint(k)
	verifrt.Assume(v >= 0 && v <= 1<<40)
	r := alignTo(v, a)
	verifrt.Assert(r >= v, "alignTo result below value")
	verifrt.Assert(r%a == 0, "alignTo result not a multiple of the alignment")
	verifrt.Assert(r < v+a, "alignTo result skips a whole alignment unit")
}
