package mir

import (
	"compiler/internal/types"
	"compiler/internal/verifrt"
)

// HarnessAlignTo: alignTo(value, alignment) for every value >= 0 and alignment in {1,2,4,8,16,32}:
// result >= value, multiple of alignment, < value + alignment.
func HarnessAlignTo() {
	v := verifrt.Int("v")
	k := verifrt.Choice("k", 6)
	a := 1 << uint(k)
	verifrt.Assume(v >= 0 && v <= 1<<40)
	r := alignTo(v, a)
	verifrt.Assert(r >= v, "alignTo result below value")
	verifrt.Assert(r%a == 0, "alignTo result not a multiple of the alignment")
	verifrt.Assert(r < v+a, "alignTo result skips a whole alignment unit")
}

// HarnessC18LayoutHistory: a DataLayout answers for a struct type from the type alone, whatever it was asked before:
// two five-field structs whose first two and last fields agree (name and type) and whose middle fields are chosen
// symbolically from a pool are laid out on ONE DataLayout in either order; each must get the layout a fresh
// DataLayout gives it, with fields aligned, pairwise disjoint and inside the size.
func HarnessC18LayoutHistory() {
	pool := []types.SemType{types.TypeU8, types.TypeU16, types.TypeU32, types.TypeU64}
	ps := []int{4, 8}[verifrt.Choice("ptr", 2)]
	mk := func(tag string) *types.StructType {
		m1 := pool[verifrt.Choice(tag+"1", len(pool))]
		m2 := pool[verifrt.Choice(tag+"2", len(pool))]
		return types.NewStruct("", []types.StructField{{Name: "Kind", Type: types.TypeU8}, {Name: "Flags", Type: types.TypeU8},
			{Name: "Value", Type: m1}, {Name: "Weight", Type: m2}, {Name: "Crc", Type: types.TypeU32}})
	}
	s, t := mk("s"), mk("t")
	shared := NewDataLayout(ps)
	first, second := s, t
	if verifrt.Choice("order", 2) == 1 {
		first, second = t, s
	}
	_ = shared.SizeOf(first)
	_ = shared.StructLayout(first)
	got := shared.StructLayout(second)
	want := NewDataLayout(ps).StructLayout(second)
	verifrt.Assert(got.Size == want.Size && got.Align == want.Align && len(got.Fields) == len(want.Fields), "the layout of a struct depends on which struct was laid out before (size/alignment)")
	end := 0
	for i := range got.Fields {
		if i < len(want.Fields) {
			verifrt.Assert(got.Fields[i].Offset == want.Fields[i].Offset, "the layout of a struct depends on which struct was laid out before (field offset)")
		}
		f := got.Fields[i]
		verifrt.Assert(f.Offset%shared.AlignOf(f.Type) == 0, "struct field is misaligned")
		verifrt.Assert(f.Offset >= end, "struct fields overlap")
		end = f.Offset + shared.SizeOf(f.Type)
	}
	verifrt.Assert(end <= got.Size, "struct size does not cover its fields")
	verifrt.Assert(shared.SizeOf(second) == want.Size, "SizeOf of a struct depends on which struct was laid out before")
}
