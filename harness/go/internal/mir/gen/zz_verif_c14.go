package gen

import (
	"compiler/internal/context_v2"
	"compiler/internal/hir"
	"compiler/internal/mir"
	"compiler/internal/verifrt"
)

// HarnessC14VTableOrder: GenerateModule assembles the module's vtables (collected in a Go map while functions are
// lowered) into the MIR module; here the generator holds three vtables and the module is assembled under ascending and
// under descending map iteration order: the list must come out the same (it is emitted as data in that order, so
// otherwise the IL of one program differs from run to run).
func HarnessC14VTableOrder() {
	names := func(order int) string {
		verifrt.MapOrder(order)
		g := New(&context_v2.CompilerContext{Config: &context_v2.Config{Extension: ".fer"}}, &context_v2.Module{ImportPath: "m", FilePath: "m.fer"})
		g.vtables["Shape|Circle"] = &mir.VTable{Name: "__vtable_1", Methods: []string{"Circle_area"}}
		g.vtables["Shape|Square"] = &mir.VTable{Name: "__vtable_2", Methods: []string{"Square_area"}}
		g.vtables["Named|Circle"] = &mir.VTable{Name: "__vtable_3", Methods: []string{"Circle_name"}}
		mm := g.GenerateModule(&hir.Module{})
		verifrt.Assert(mm != nil && len(mm.VTables) == 3, "CALIBRATION: the generated module does not carry the three vtables")
		out := ""
		if mm != nil {
			for _, t := range mm.VTables {
				out += t.Name + ";"
			}
		}
		return out
	}
	a := names(0)
	b := names(1)
	verifrt.Assert(a == b, "the order of the vtables in the generated module depends on the iteration order of a Go map (the compiler's output differs from run to run)")
}
