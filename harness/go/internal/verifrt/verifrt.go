// Package verifrt is the harness support shim.  Under gosym every function here is an intrinsic (the bodies
// below are never executed); compiled natively the same harness replays a solver model: inputs are read from
// the JSON object in the file named by VERIF_MODEL (input name -> decimal string / "true" / "false").
package verifrt

import (
	"encoding/json"
	"fmt"
	"math/big"
	"os"
	"runtime"
	"strconv"
	"sync"
	"time"
)

var model map[string]string

// Failures collects failed assertions during a native replay.
var Failures []string

func load() {
	if model != nil {
		return
	}
	model = map[string]string{}
	if p := os.Getenv("VERIF_MODEL"); p != "" {
		b, err := os.ReadFile(p)
		if err != nil {
			panic(err)
		}
		if err := json.Unmarshal(b, &model); err != nil {
			panic(err)
		}
	}
}

func u(name string) uint64 {
	load()
	s, ok := model[name]
	if !ok {
		return 0
	}
	if s == "true" {
		return 1
	}
	if s == "false" {
		return 0
	}
	v, err := strconv.ParseUint(s, 10, 64)
	if err != nil {
		panic(fmt.Sprintf("verifrt: bad model value %q for %s", s, name))
	}
	return v
}

func Int64(name string) int64   { return int64(u(name)) }
func Uint64(name string) uint64 { return u(name) }
func Int(name string) int       { return int(int64(u(name))) }
func Int32(name string) int32   { return int32(u(name)) }
func Uint32(name string) uint32 { return uint32(u(name)) }
func Int16(name string) int16   { return int16(u(name)) }
func Uint16(name string) uint16 { return uint16(u(name)) }
func Int8(name string) int8     { return int8(u(name)) }
func Uint8(name string) uint8   { return uint8(u(name)) }
func Bool(name string) bool     { return u(name) != 0 }

// Choice returns a value in [0,n); the symbolic run explores every one of them.
func Choice(name string, n int) int { return int(u(name)) % n }

// Bytes returns n bytes named name_0 .. name_{n-1}.
func Bytes(name string, n int) []byte {
	b := make([]byte, n)
	for i := range b {
		b[i] = byte(u(fmt.Sprintf("%s_%d", name, i)))
	}
	return b
}

func String(name string, n int) string { return string(Bytes(name, n)) }

// BigInt returns an arbitrary integer.
func BigInt(name string) *big.Int {
	load()
	z := new(big.Int)
	if s, ok := model[name]; ok {
		z.SetString(s, 10)
	}
	return z
}

// Assume: on a native replay a false assumption means the model does not belong to this path.
func Assume(c bool) {
	if !c {
		panic("verifrt: assumption false on replay")
	}
}

func Assert(c bool, msg string) {
	if !c {
		Failures = append(Failures, msg)
	}
}

func Note(key string, v any) {}

// Interleave runs the given functions as logical threads.  Under the symbolic interpreter every interleaving at the
// granularity of synchronisation operations (mutex Lock/Unlock/RLock/RUnlock, atomic adds) is explored.  Natively the
// functions run as real goroutines released together; a schedule-dependent counterexample is replayed by repeating
// the whole harness (VERIF_REPEAT) until the assertion fails once.
func Interleave(fs ...func()) {
	var wg sync.WaitGroup
	start := make(chan struct{})
	for _, f := range fs {
		wg.Add(1)
		go func(f func()) {
			defer wg.Done()
			<-start
			f()
		}(f)
	}
	close(start)
	wg.Wait()
}

// Threads runs f as the first logical thread of a scheduling session in which `go` statements create further logical
// threads (see Interleave for the granularity).  Natively it just calls f: the Go runtime schedules the goroutines.
func Threads(f func()) { f() }

// DelayBound limits the schedules explored by the symbolic interpreter to those the default scheduler (the running
// thread continues while it can, otherwise round-robin) reaches with at most k delays (a delay skips the thread that
// would run next); k < 0 = every schedule.  No effect natively.
func DelayBound(k int) {}

// SingleProc makes a native replay run on one processor (schedule-dependent hangs show up most easily there).
func SingleProc() { runtime.GOMAXPROCS(1) }

// StepBudget(n, msg): under the symbolic interpreter the code that follows may execute at most n more SSA instructions
// on this path, otherwise the path is reported as violating msg (a termination bound); StepBudget(0, "") lifts it.
// Natively the bound is a wall-clock watchdog of 20 seconds.
var budgetGen int

func StepBudget(n int, msg string) {
	budgetGen++
	if n <= 0 {
		return
	}
	g := budgetGen
	go func() {
		time.Sleep(20 * time.Second)
		if budgetGen == g {
			fmt.Printf("VERIF-REPLAY: assertion failed: %s\n", msg)
			os.Exit(1)
		}
	}()
}

// EnvExists reports whether path (a file or a directory with anything below it) exists: natively on the real file
// system, under the symbolic interpreter in the environment-stub file system (what os.MkdirAll / os.WriteFile
// created successfully on this path and os.RemoveAll has not removed).
func EnvExists(path string) bool {
	_, err := os.Stat(path)
	return err == nil
}

// EnvFile makes a file with the given content exist: natively it is written to disk (directories created), under the
// symbolic interpreter it is entered into the environment-stub file system that fs.IsValidFile / os.ReadFile consult.
func EnvFile(path, content string) {
	for i := len(path) - 1; i > 0; i-- {
		if path[i] == '/' {
			os.MkdirAll(path[:i], 0755)
			break
		}
	}
	os.WriteFile(path, []byte(content), 0644)
}

// Symbolic reports whether the harness runs under the symbolic interpreter.
func Symbolic() bool { return false }

// TakeOutput returns what the code under test wrote through fmt.Fprint* since the last call.  Natively the
// harness must route that output through a pipe itself; see CaptureFile.
func TakeOutput() string {
	if capR == nil {
		return ""
	}
	capW.Close()
	b := make([]byte, 0, 4096)
	buf := make([]byte, 4096)
	for {
		n, err := capR.Read(buf)
		b = append(b, buf[:n]...)
		if err != nil {
			break
		}
	}
	capR.Close()
	capR, capW = nil, nil
	return string(b)
}

var capR, capW *os.File

// CaptureFile returns an *os.File whose contents TakeOutput returns (a pipe natively; under gosym every
// fmt.Fprint* to a file is captured, the returned value is never inspected).
func CaptureFile() *os.File {
	r, w, err := os.Pipe()
	if err != nil {
		panic(err)
	}
	capR, capW = r, w
	return w
}

// Thorough reports whether the thorough tier was requested (larger bounds).
func Thorough() bool { return os.Getenv("VERIF_TIER") == "thorough" }

// MapOrder selects the map iteration order of the symbolic run (0 ascending keys, 1 descending); natively Go's
// own randomised order applies.
func MapOrder(k int) {}
