// Package fe (overlay only) runs the real front end - lexer, parser, collector, resolver, type checker - on one
// in-memory module, the way internal/pipeline does for a single file without imports.  Harnesses in this package
// assemble the source text from symbolic choices / symbolic trivia and state their property over the diagnostics.
package fe

import (
	"strings"

	"compiler/internal/context_v2"
	"compiler/internal/diagnostics"
	"compiler/internal/frontend/ast"
	"compiler/internal/frontend/lexer"
	"compiler/internal/hir"
	hiranalysis "compiler/internal/hir/analysis"
	hirgen "compiler/internal/hir/gen"
	"compiler/internal/frontend/parser"
	"compiler/internal/semantics/collector"
	"compiler/internal/semantics/resolver"
	"compiler/internal/semantics/table"
	"compiler/internal/semantics/typechecker"
	"compiler/internal/verifrt"
)

type Outcome struct {
	Ctx    *context_v2.CompilerContext
	Mod    *context_v2.Module
	Errors []*diagnostics.Diagnostic
}

// Run pushes src through lexing, parsing, collection, resolution and type checking.
func Run(src string) *Outcome {
	ctx := context_v2.New(&context_v2.Config{Extension: ".fer"}, false)
	scope := table.NewSymbolTable(ctx.Universe)
	mod := &context_v2.Module{FilePath: "m.fer", ImportPath: "m", Type: context_v2.ModuleLocal, ModuleScope: scope, CurrentScope: scope,
		Content: src, Artifacts: map[string]any{}}
	ctx.AddModule("m", mod)
	ctx.Diagnostics.AddSourceContent("m.fer", src)
	toks := lexer.New("m.fer", src, ctx.Diagnostics).Tokenize(false)
	mod.AST = parser.Parse(toks, "m.fer", ctx.Diagnostics)
	if mod.AST != nil {
		collector.CollectModule(ctx, mod)
		resolver.ResolveModule(ctx, mod)
		typechecker.TypeCheckTopLevelSignatures(ctx, mod)
		typechecker.CheckModule(ctx, mod)
	}
	o := &Outcome{Ctx: ctx, Mod: mod}
	for _, d := range ctx.Diagnostics.Diagnostics() {
		if d.Severity == diagnostics.Error {
			o.Errors = append(o.Errors, d)
		}
	}
	return o
}

// RunDeep continues where Run stops, as the pipeline does whether or not errors were reported: HIR generation and
// the HIR analyses (return / dead-code / constant / borrow checking).
func RunDeep(src string) *Outcome {
	o := Run(src)
	if o.Mod.AST == nil {
		return o
	}
	hm := hirgen.New(o.Ctx, o.Mod).GenerateModule()
	if hm != nil {
		hir.StoreModule(o.Mod, hm)
		hiranalysis.AnalyzeModule(o.Ctx, o.Mod, hm)
	}
	o.Errors = nil
	for _, d := range o.Ctx.Diagnostics.Diagnostics() {
		if d.Severity == diagnostics.Error {
			o.Errors = append(o.Errors, d)
		}
	}
	return o
}

func (o *Outcome) Accepted() bool { return len(o.Errors) == 0 }

// ErrorOnLine reports whether some error diagnostic has a label on the given (1-based) line.
func (o *Outcome) ErrorOnLine(line int) bool {
	for _, d := range o.Errors {
		for _, l := range d.Labels {
			if l.Location != nil && l.Location.Start != nil && l.Location.Start.Line == line {
				return true
			}
		}
	}
	return false
}

func (o *Outcome) Messages() string {
	var sb strings.Builder
	for _, d := range o.Errors {
		sb.WriteString(d.Message)
		sb.WriteString("; ")
	}
	return sb.String()
}

// ---------------------------------------------------------------------------------------------------- C06
// HarnessC06Bindings: every mutation form on an immutable binding - the index variable of a two-variable for loop
// over each kind of iterable, a constant, a catch error variable, a field reached through an immutable reference
// parameter or receiver - placed in each syntactic context, is a compile error reported on the mutating line; the
// same mutation on the corresponding mutable binding (a let, a field behind a &' parameter) is accepted.
func HarnessC06Bindings() {
	iterables := []struct{ decl, expr string }{
		{"let xs: [3]i32 = [1, 2, 3];", "xs"},
		{"let xs: []i32 = [1, 2, 3];", "xs"},
		{"let xs: str = \"abc\";", "xs"},
		{"let xs: map[i32]i32 = { 1 => 2 } as map[i32]i32;", "xs"},
		{"", "0..3"},
	}
	// 0: loop index (immutable)  1: const (immutable)  2: catch error variable (immutable)  3: field behind &P parameter
	// (immutable)  4: field behind & receiver (immutable)  5: let (mutable)  6: field behind &'P parameter (mutable)
	kind := verifrt.Choice("binding", 7)
	it := iterables[0]
	if kind == 0 {
		it = iterables[verifrt.Choice("iterable", len(iterables))]
	}
	forms := []string{"V = 1;", "V += 1;", "V++;", "V--;", "let p: &'i32 = &'V;", "bump(&'V);"}
	form := forms[verifrt.Choice("form", len(forms))]
	ctxs := []struct{ pre, post string }{
		{"", ""},
		{"if true {", "}"},
		{"while go { go = false;", "}"},
		{"match 1 { 1 => {", "} _ => { } }"},
		{"let lit := fn() {", "};"},
	}
	cx := ctxs[verifrt.Choice("context", len(ctxs))]

	var sb strings.Builder
	line := 1
	emit := func(l string) {
		sb.WriteString(l + "\n")
		line++
	}
	emit("type P struct { .X: i32 };")
	emit("fn bump(r: &'i32) { }")
	emit("fn res() -> i32 ! i32 { return 1; }")
	name := "v"
	closers := []string{}
	switch kind {
	case 3:
		emit("fn t(q: &P) {")
		name = "q.X"
	case 4:
		emit("fn (q: &P) t() {")
		name = "q.X"
	case 6:
		emit("fn t(q: &'P) {")
		name = "q.X"
	default:
		emit("fn t() {")
	}
	emit("let go: bool = true;")
	switch kind {
	case 0:
		if it.decl != "" {
			emit(it.decl)
		}
		emit("for i, e in " + it.expr + " {")
		closers = append(closers, "}")
		name = "i"
	case 1:
		emit("const v: i32 = 5;")
	case 2:
		emit("let r: i32 = res() catch v {")
		closers = append(closers, "} 0;")
	case 5:
		emit("let v: i32 = 5;")
	}
	if cx.pre != "" {
		emit(cx.pre)
	}
	mutLine := line
	emit(strings.ReplaceAll(form, "V", name))
	if cx.post != "" {
		emit(cx.post)
	}
	for i := len(closers) - 1; i >= 0; i-- {
		emit(closers[i])
	}
	emit("}")
	o := Run(sb.String())
	if kind <= 4 {
		verifrt.Assert(!o.Accepted(), "a mutation of an immutable binding (loop index, const, catch variable, field behind &) is accepted")
		verifrt.Assert(o.Accepted() || o.ErrorOnLine(mutLine), "the mutation of an immutable binding is not the reported error")
	} else {
		verifrt.Assert(o.Accepted(), "a mutation of a mutable binding is rejected")
	}
}

// HarnessC06Receivers: a struct-typed place that is immutable - a constant, an element or field of a constant, a value
// behind an immutable reference parameter / receiver / local, a struct field of immutable reference type - against
// every way of mutating it, including a call of a method whose receiver is a mutable reference (&'P): each is a
// compile error; the same statement on a mutable place (let, &'P parameter, &'P local) is accepted.
func HarnessC06Receivers() {
	kind := verifrt.Choice("place", 11)
	forms := []string{"V.inc();", "V.add(2);", "V.X = 1;", "V.X += 1;", "V.X++;", "let p: &'i32 = &'V.X;", "bump(&'V.X);", "let p: &'P = &'V;"}
	fi := verifrt.Choice("form", len(forms))
	ctxs := []struct{ pre, post string }{
		{"", ""},
		{"if true {", "}"},
		{"while go { go = false;", "}"},
		{"match 1 { 1 => {", "} _ => { } }"},
		{"let lit := fn() {", "};"},
	}
	cx := ctxs[verifrt.Choice("context", len(ctxs))]
	isRef := kind == 1 || kind == 2 || kind == 5 || kind == 6 || kind == 9 || kind == 10
	verifrt.Assume(!(fi == 7 && isRef)) // &'V of a reference variable is a reference to the reference: another type

	var sb strings.Builder
	line := 1
	emit := func(l string) {
		sb.WriteString(l + "\n")
		line++
	}
	emit("type P struct { .X: i32 };")
	emit("type W struct { .In: P };")
	emit("type H struct { .R: &P };")
	emit("fn (p: &'P) inc() { p.X = p.X + 1; }")
	emit("fn (p: &'P) add(n: i32) { p.X = p.X + n; }")
	emit("fn bump(r: &'i32) { }")
	name := "v"
	switch kind {
	case 1:
		emit("fn t(q: &P) {")
		name = "q"
	case 2:
		emit("fn (q: &P) t() {")
		name = "q"
	case 9:
		emit("fn t(q: &'P) {")
		name = "q"
	default:
		emit("fn t() {")
	}
	emit("let go: bool = true;")
	switch kind {
	case 0:
		emit("const v: P = { .X = 1 };")
	case 3:
		emit("const cs: [2]P = [{ .X = 1 } as P, { .X = 2 } as P];")
		name = "cs[0]"
	case 4:
		emit("const w: W = { .In = { .X = 1 } as P };")
		name = "w.In"
	case 5:
		emit("let v: P = { .X = 1 };")
		emit("let r: &P = &v;")
		name = "r"
	case 6:
		emit("let v: P = { .X = 1 };")
		emit("let h: H = { .R = &v };")
		name = "h.R"
	case 7:
		emit("let v: P = { .X = 1 };")
	case 8:
		emit("let ws: [2]P = [{ .X = 1 } as P, { .X = 2 } as P];")
		name = "ws[1]"
	case 10:
		emit("let v: P = { .X = 1 };")
		emit("let r: &'P = &'v;")
		name = "r"
	}
	if cx.pre != "" {
		emit(cx.pre)
	}
	mutLine := line
	emit(strings.ReplaceAll(forms[fi], "V", name))
	if cx.post != "" {
		emit(cx.post)
	}
	emit("}")
	o := Run(sb.String())
	if kind <= 6 {
		verifrt.Assert(!o.Accepted(), "a mutation of an immutable struct place (const, element or field of a const, value behind &) is accepted: "+c06Forms[fi]+" on "+c06Places[kind])
		verifrt.Assert(o.Accepted() || o.ErrorOnLine(mutLine), "the mutation of an immutable struct place is not the reported error")
	} else {
		verifrt.Assert(o.Accepted(), "a mutation of a mutable struct place is rejected: "+c06Forms[fi]+" on "+c06Places[kind]+": "+o.Messages())
	}
}

var c06Forms = []string{"&'-receiver method call", "&'-receiver method call with an argument", "field =", "field +=", "field ++", "&' of a field", "field passed to a &' parameter", "&' of the value"}
var c06Places = []string{"const", "&P parameter", "&P receiver", "element of a const array", "field of a const", "&P local", "struct field of type &P",
	"let", "element of a let array", "&'P parameter", "&'P local"}

// HarnessC06FnTypes: a function (named, or a function literal) whose parameter is a MUTABLE reference and that writes
// through it must not be usable where a function taking an IMMUTABLE reference is expected (argument of a
// function-typed parameter, annotated let, assignment, struct field, return value): the holder calls it with a value
// it only has a shared reference to.  The same positions accept a function of exactly the expected type, and a
// function taking &P where &P is expected.
func HarnessC06FnTypes() {
	pos := verifrt.Choice("position", 6)
	src := verifrt.Choice("source", 2)  // 0 named function, 1 function literal
	have := verifrt.Choice("have", 2)   // parameter mutability of the function supplied: 0 &P, 1 &'P
	want := verifrt.Choice("want", 2)   // parameter mutability the slot declares
	refs := []string{"&P", "&'P"}
	fn := "bump"
	if have == 0 {
		fn = "peek"
	}
	if src == 1 {
		if have == 1 {
			fn = "fn(q: &'P) { q.X = q.X + 1; }"
		} else {
			fn = "fn(q: &P) { }"
		}
	}
	slot := "fn(q: " + refs[want] + ")"
	var sb strings.Builder
	sb.WriteString("type P struct { .X: i32 };\n")
	sb.WriteString("type H struct { .F: " + slot + " };\n")
	sb.WriteString("fn bump(q: &'P) { q.X = q.X + 1; }\n")
	sb.WriteString("fn peek(q: &P) { }\n")
	sb.WriteString("fn apply(p: " + refs[want] + ", cb: " + slot + ") { cb(p); }\n")
	switch pos {
	case 0:
		if want == 1 {
			sb.WriteString("fn t() { let v: P = { .X = 1 }; apply(&'v, " + fn + "); }\n")
		} else {
			sb.WriteString("fn t() { let v: P = { .X = 1 }; apply(&v, " + fn + "); }\n")
		}
	case 1:
		sb.WriteString("fn t() { let g: " + slot + " = " + fn + "; }\n")
	case 2:
		sb.WriteString("fn t() { let g: " + slot + " = " + []string{"peek", "bump"}[want] + "; g = " + fn + "; }\n")
	case 3:
		sb.WriteString("fn t() { let h: H = { .F = " + fn + " }; }\n")
	case 4:
		sb.WriteString("fn t() -> " + slot + " { return " + fn + "; }\n")
	case 5:
		sb.WriteString("fn t() { let h: H = { .F = " + []string{"peek", "bump"}[want] + " }; h.F = " + fn + "; }\n")
	}
	o := Run(sb.String())
	switch {
	case have == want:
		verifrt.Assert(o.Accepted(), "a function of exactly the expected function type is rejected: "+o.Messages())
	case have == 1 && want == 0:
		verifrt.Assert(!o.Accepted(), "a function that writes through a &' parameter is accepted where a function taking an immutable reference is expected ("+c06FnPositions[pos]+")")
	}
}

var c06FnPositions = []string{"argument of a function-typed parameter", "annotated let", "assignment to a function-typed variable", "struct field initialiser", "return value", "assignment to a function-typed field"}

// ---------------------------------------------------------------------------------------------------- C14
// c14LitIDs parses src and returns the IDs the parser gave to its function / struct / interface / enum literals.
func c14LitIDs(file, src string) []string {
	bag := diagnostics.NewDiagnosticBag("")
	toks := lexer.New(file, src, bag).Tokenize(false)
	mod := parser.Parse(toks, file, bag)
	var ids []string
	var walkType func(t ast.TypeNode)
	var walkExpr func(e ast.Expression)
	var walkNode func(n ast.Node)
	walkType = func(t ast.TypeNode) {
		switch v := t.(type) {
		case *ast.StructType:
			ids = append(ids, v.ID)
		case *ast.InterfaceType:
			ids = append(ids, v.ID)
		case *ast.EnumType:
			ids = append(ids, v.ID)
		}
	}
	walkExpr = func(e ast.Expression) {
		if fl, ok := e.(*ast.FuncLit); ok && fl != nil {
			ids = append(ids, fl.ID.Name)
			if fl.Body != nil {
				for _, n := range fl.Body.Nodes {
					walkNode(n)
				}
			}
		}
	}
	walkNode = func(n ast.Node) {
		switch v := n.(type) {
		case *ast.FuncDecl:
			if v.Body != nil {
				for _, x := range v.Body.Nodes {
					walkNode(x)
				}
			}
		case *ast.DeclStmt:
			walkNode(v.Decl)
		case *ast.VarDecl:
			for _, d := range v.Decls {
				if d.Type != nil {
					walkType(d.Type)
				}
				if d.Value != nil {
					walkExpr(d.Value)
				}
			}
		case *ast.TypeDecl:
			walkType(v.Type)
		}
	}
	if mod != nil {
		for _, n := range mod.Nodes {
			walkNode(n)
		}
	}
	return ids
}

// HarnessC14LitIDs: two modules, each with two function literals, an anonymous struct type, an enum and an interface,
// are parsed by two logical threads (as the pipeline parses modules in goroutines).  Under EVERY interleaving of the
// synchronisation operations the parser performs (process-wide atomic counters are such operations), the IDs each
// module's literals receive are the ones it receives when it is parsed alone: they become names of generated symbols,
// so anything else makes the emitted code depend on the schedule.
func HarnessC14LitIDs() {
	srcA := "type Ea enum { P, Q };\ntype Ia interface { m() -> i32 };\nfn fa() {\nlet f := fn() -> i32 { return 1; };\nlet g := fn(a: i32) -> i32 { return a; };\nlet s: struct { .X: i32 } = { .X = 1 };\n}\n"
	srcB := "type Eb enum { R };\nfn fb() {\nlet h := fn() { };\nlet t: struct { .Y: i64 } = { .Y = 2 };\nlet k := fn(b: i64) -> i64 { return b; };\n}\n"
	aloneA := c14LitIDs("p/a.fer", srcA)
	aloneB := c14LitIDs("p/b.fer", srcB)
	verifrt.Assert(len(aloneA) == 5 && len(aloneB) == 4, "CALIBRATION: the literals of the two modules are not all found")
	var gotA, gotB []string
	verifrt.DelayBound(2) // every schedule with at most two delays (the lexer's and parser's own locks are sync points too)
	verifrt.Interleave(
		func() { gotA = c14LitIDs("p/a.fer", srcA) },
		func() { gotB = c14LitIDs("p/b.fer", srcB) },
	)
	same := len(gotA) == len(aloneA) && len(gotB) == len(aloneB)
	for i := 0; same && i < len(gotA); i++ {
		same = gotA[i] == aloneA[i]
	}
	for i := 0; same && i < len(gotB); i++ {
		same = gotB[i] == aloneB[i]
	}
	verifrt.Assert(same, "the IDs given to the literals of a module depend on how its parse goroutine interleaves with another module's")
	seen := map[string]bool{}
	for _, id := range append(append([]string{}, gotA...), gotB...) {
		verifrt.Assert(!seen[id], "two literals of the project received the same ID")
		seen[id] = true
	}
}

// ---------------------------------------------------------------------------------------------------- C19
type c19Prog struct {
	src      string
	accepted bool
	anchors  []string // for a rejected program: the source text each error diagnostic starts at, in emission order
}

var c19Small = []c19Prog{
	{`fn res(a: i32) -> str ! i32 { if a == 0 { return "z"!; } return a; }
fn t(a: i32, b: []i32) -> i32 {
    let r: i32 = res(a) catch e { return -1; } 0;
    for i, v in b { if v > 3 { continue; } else { break; } }
    match a { 1 => { return 1; } _ => { } }
    return r + b[0];
}
`, true, nil},
	{`fn g(a: i32) -> i32 {
    let x: i8 = a;
    return a + y;
}
`, false, []string{"a;", "y;"}},
}

var c19Big = []c19Prog{
	{`type P struct { .X: i32, .Y: i64 };
type E enum { A, B };
fn res(a: i32) -> str ! i32 { if a == 0 { return "zero"!; } return a; }
fn (p: &'P) inc() { p.X += 1; }
fn t(a: i32, b: []i32) -> i32 {
    const K: i32 = 3;
    let p: P = { .X = a, .Y = 2 } as P;
    let q: i32? = none;
    let r: i32 = res(a) catch e { return -1; } 0;
    let s := res(a) catch -2;
    for i, v in b { if v > K { continue; } else if v == 0 { break; } }
    let n: i32 = a;
    while n > 0 { n -= 1; }
    match a { 1 => { return 1; } _ => { } }
    let f := fn(z: i32) -> i32 { return z + (q ?? 0); };
    p.inc();
    return f(r) + s + b[0] + (p.X as i32);
}
`, true, nil},
}

// wide = number of bytes of tr beyond its number of characters (non-ASCII comment text: columns count characters)
func c19Check(o *Outcome, pr c19Prog, src string, at int, tr string, what string, wide int) {
	verifrt.Assert(o.Accepted() == pr.accepted, what+" changes whether the program is accepted")
	if pr.accepted {
		return
	}
	verifrt.Assert(len(o.Errors) == len(pr.anchors), what+" changes the number of error diagnostics")
	if len(o.Errors) != len(pr.anchors) {
		return
	}
	nl := strings.Count(tr, "\n")
	// diagnostics are compared as a set of positions (the emission order of different phases is not part of C19)
	used := make([]bool, len(o.Errors))
	for _, anchor := range pr.anchors {
		base := strings.Index(pr.src, anchor)
		line := strings.Count(pr.src[:base], "\n") + 1
		col := base - strings.LastIndex(pr.src[:base], "\n")
		wantIdx, wantLine, wantCol := base, line, col
		if base >= at {
			wantIdx += len(tr)
			wantLine += nl
			insLine := strings.Count(pr.src[:at], "\n") + 1
			if insLine == line {
				if nl == 0 {
					wantCol += len(tr) - wide
				} else {
					wantCol = base - at + len(tr) - strings.LastIndex(tr, "\n")
				}
			}
		}
		found, colOK := false, false
		for i, d := range o.Errors {
			if used[i] {
				continue
			}
			for _, l := range d.Labels {
				if l.Location != nil && l.Location.Start != nil && l.Location.Start.Index == wantIdx && l.Location.Start.Line == wantLine {
					found, colOK = true, l.Location.Start.Column == wantCol
					used[i] = true
				}
				break
			}
			if found {
				break
			}
		}
		verifrt.Assert(found, what+": a diagnostic does not move with the inserted text (byte index / line)")
		verifrt.Assert(!found || colOK, what+": the column of a diagnostic does not move with the inserted text")
	}
}

// c19Gaps: trivia (a blank, a newline, blank-newline-blanks, a block comment and a line comment whose text is symbolic)
// inserted in ANY gap between two tokens of a program changes neither whether the real front end (lexer, parser,
// collector, resolver, type checker) accepts it nor the list of error diagnostics, and every diagnostic moves exactly
// with the inserted text (byte index, line, column).  One path per (program, gap, trivia kind, character class).
func c19Gaps(shard, shards int) {
	progs := c19Small
	if verifrt.Thorough() {
		progs = append(append([]c19Prog{}, c19Small...), c19Big...)
	}
	pr := progs[verifrt.Choice("program", len(progs))]
	bag := diagnostics.NewDiagnosticBag("")
	toks := lexer.New("m.fer", pr.src, bag).Tokenize(false)
	per := (len(toks) + shards - 1) / shards
	j := verifrt.Choice("gap", per+1)
	if j == per {
		if shard == 0 {
			// calibration: the unmodified program behaves as recorded
			c19Check(Run(pr.src), pr, pr.src, len(pr.src), "", "CALIBRATION: the unmodified program", 0)
		}
		return
	}
	g := j*shards + shard
	if g >= len(toks) {
		return
	}
	at := toks[g].Start.Index // gap g = immediately before token g (the last token is EOF: trailing trivia)
	var tr string
	wide := 0
	switch verifrt.Choice("trivia", 7) {
	case 5:
		// non-ASCII comment text on the same line as what follows: columns count characters, the index counts bytes
		tr = "/* \u00e9 */"
		wide = 1
	case 6:
		tr = "/*\u65e5\u672c" + c19CharFor(false) + "*/"
		wide = 4
	case 0:
		tr = " "
	case 1:
		tr = "\n"
	case 2:
		tr = " \n  "
	case 3:
		tr = "/*" + c19CharFor(len(pr.src) < 400) + "*/"
	case 4:
		tr = "//" + c19CharFor(len(pr.src) < 400) + "\n"
	}
	src := pr.src[:at] + tr + pr.src[at:]
	c19Check(Run(src), pr, src, at, tr, "inserting trivia between two tokens", wide)
}

// c19Char: one symbolic character of comment text: any printable ASCII character in the thorough tier; in the quick
// tier one of the characters that could interact with comment / string / tag syntax plus a letter and a blank.
func c19Char() string { return c19CharFor(true) }

// c19CharFor: wide = every printable ASCII character may be used (thorough tier, small programs); otherwise the six
// characters that interact with comment / string / tag syntax.
func c19CharFor(wide bool) string {
	c := verifrt.String("c", 1)
	if verifrt.Thorough() && wide {
		verifrt.Assume(c[0] >= 0x20 && c[0] < 0x7f)
	} else {
		verifrt.Assume(c[0] == '*' || c[0] == '/' || c[0] == '"' || c[0] == '@' || c[0] == 'x' || c[0] == ' ')
	}
	return c
}

func HarnessC19Gaps0() { c19Gaps(0, 8) }
func HarnessC19Gaps1() { c19Gaps(1, 8) }
func HarnessC19Gaps2() { c19Gaps(2, 8) }
func HarnessC19Gaps3() { c19Gaps(3, 8) }
func HarnessC19Gaps4() { c19Gaps(4, 8) }
func HarnessC19Gaps5() { c19Gaps(5, 8) }
func HarnessC19Gaps6() { c19Gaps(6, 8) }
func HarnessC19Gaps7() { c19Gaps(7, 8) }

// the thorough tier splits the gaps over 16 harnesses (they run in parallel)
func HarnessC19GapsT0() { c19Gaps(0, 16) }
func HarnessC19GapsT1() { c19Gaps(1, 16) }
func HarnessC19GapsT2() { c19Gaps(2, 16) }
func HarnessC19GapsT3() { c19Gaps(3, 16) }
func HarnessC19GapsT4() { c19Gaps(4, 16) }
func HarnessC19GapsT5() { c19Gaps(5, 16) }
func HarnessC19GapsT6() { c19Gaps(6, 16) }
func HarnessC19GapsT7() { c19Gaps(7, 16) }
func HarnessC19GapsT8() { c19Gaps(8, 16) }
func HarnessC19GapsT9() { c19Gaps(9, 16) }
func HarnessC19GapsT10() { c19Gaps(10, 16) }
func HarnessC19GapsT11() { c19Gaps(11, 16) }
func HarnessC19GapsT12() { c19Gaps(12, 16) }
func HarnessC19GapsT13() { c19Gaps(13, 16) }
func HarnessC19GapsT14() { c19Gaps(14, 16) }
func HarnessC19GapsT15() { c19Gaps(15, 16) }

// ---------------------------------------------------------------------------------------------------- C11
type numTy struct {
	name            string
	bits            int
	signed, isFloat bool
	prec            int // significand bits of a float type
}

var c11Types = []numTy{
	{"i8", 8, true, false, 0}, {"i16", 16, true, false, 0}, {"i32", 32, true, false, 0}, {"i64", 64, true, false, 0}, {"i128", 128, true, false, 0}, {"i256", 256, true, false, 0},
	{"u8", 8, false, false, 0}, {"u16", 16, false, false, 0}, {"u32", 32, false, false, 0}, {"u64", 64, false, false, 0}, {"u128", 128, false, false, 0}, {"u256", 256, false, false, 0},
	{"f32", 32, false, true, 24}, {"f64", 64, false, true, 53}, {"f128", 128, false, true, 113}, {"f256", 256, false, true, 237},
	{"byte", 8, false, false, 0},
}

// c11Lossless: can every value of s be represented exactly in t?  (ranges of two's-complement integers; IEEE-style
// significand widths 24/53/113/237 as the repository documents its own float types)
func c11Lossless(s, t numTy) bool {
	switch {
	case s.isFloat && t.isFloat:
		return t.prec >= s.prec
	case s.isFloat:
		return false
	case t.isFloat:
		vb := s.bits
		if s.signed {
			vb--
		}
		return vb <= t.prec
	case s.signed && t.signed:
		return t.bits >= s.bits
	case !s.signed && !t.signed:
		return t.bits >= s.bits
	case !s.signed && t.signed:
		return t.bits > s.bits
	default:
		return false
	}
}

var c11Positions = []string{
	"fn f(v: S) -> T { let r: T = v; return r; }",
	"fn f(v: S, w: T) -> T { let r: T = w; r = v; return r; }",
	"fn g(x: T) { }\nfn f(v: S) { g(v); }",
	"fn f(v: S) -> T { return v; }",
	"fn f(v: S) -> str ! T { return v; }",
	"fn f(v: S) -> T ! i32 { return v!; }",
	"type P struct { .F: T };\nfn f(v: S) -> P { return { .F = v } as P; }",
	"fn f(v: S) -> T { let a: [2]T = [v, v]; return a[0]; }",
	"fn f(v: S) -> T? { let r: T? = v; return r; }",
	"type P struct { .F: T };\nfn f(v: S, p: &'P) { p.F = v; }",
	"fn f(v: S) -> T { let g := fn(x: S) -> T { return x; }; return g(v); }",
	"fn f(v: S, w: T) -> T { match 1 { 1 => { w = v; } _ => { } } return w; }",
}

// c11Positions: for every ordered pair (S, T) of the 17 numeric types and every assignment-like position in the list
// above, a program that moves a value of type S into a T without a cast is accepted by the real front end only if
// every value of S is representable in T.
func c11Run(lo, hi int) {
	s := c11Types[verifrt.Choice("S", len(c11Types))]
	t := c11Types[verifrt.Choice("T", len(c11Types))]
	k := lo + verifrt.Choice("position", hi-lo)
	src := strings.ReplaceAll(strings.ReplaceAll(c11Positions[k], "S", s.name), "T", t.name) + "\n"
	o := Run(src)
	if !c11Lossless(s, t) {
		verifrt.Assert(!o.Accepted(), "a lossy implicit numeric conversion is accepted")
	} else if s.name == t.name {
		verifrt.Assert(o.Accepted(), "CALIBRATION: the identity conversion is rejected: "+o.Messages())
	}
}

func HarnessC11Positions0() { c11Run(0, 3) }
func HarnessC11Positions1() { c11Run(3, 6) }
func HarnessC11Positions2() { c11Run(6, 9) }
func HarnessC11Positions3() { c11Run(9, 12) }

// HarnessC07Escapes: a function whose result is a reference returns a reference to one of its locals - declared with
// or without an initialiser, a whole local or a field of it, directly or through a reference variable, at the end of
// the body or inside a branch: rejected.  Returning a reference it received (a parameter, a field behind a reference
// parameter) is accepted.
func HarnessC07Escapes() {
	local := verifrt.Choice("local", 7)
	form := verifrt.Choice("form", 2)
	cx := verifrt.Choice("context", 3)
	decl, place := "", ""
	escapes := true
	switch local {
	case 0:
		decl, place = "let a: i32 = n + 1;", "a"
	case 1:
		decl, place = "let a: i32; a = n + 1;", "a"
	case 2:
		decl, place = "let p: P = { .X = n, .Y = 2 };", "p.Y"
	case 3:
		decl, place = "let p: P; p.Y = n;", "p.Y"
	case 4:
		decl, place = "let a: i32 = 1, b: i32; b = n;", "b"
	case 5:
		decl, place = "", "q"
		escapes = false
	case 6:
		decl, place = "", "w.Y"
		escapes = false
	}
	ret := "return &" + place + ";"
	if local == 5 {
		ret = "return q;"
	}
	if form == 1 && local != 5 {
		ret = "let r: &i32 = &" + place + "; return r;"
	}
	body := ret
	switch cx {
	case 1:
		body = "if n > 0 { " + ret + " }\nreturn q;"
	case 2:
		body = "while n > 0 { " + ret + " }\nreturn q;"
	}
	src := "type P struct { .X: i32, .Y: i32 };\nfn t(n: i32, q: &i32, w: &P) -> &i32 {\n" + decl + "\n" + body + "\n}\n"
	o := RunDeep(src)
	if escapes {
		verifrt.Assert(!o.Accepted(), "a function returns a reference to one of its locals and the program is accepted ("+c07Locals[local]+")")
	} else {
		verifrt.Assert(o.Accepted(), "returning a reference the function received is rejected: "+o.Messages())
	}
}

var c07Locals = []string{"initialised local", "local declared without an initialiser", "field of an initialised struct local", "field of a struct local declared without an initialiser",
	"second item of a multi-item let, declared without an initialiser", "reference parameter", "field behind a reference parameter"}

// ---------------------------------------------------------------------------------------------------- C12
// c12Name: an identifier whose first letter is a symbolic ASCII letter (its case decides visibility), followed by a
// fixed suffix that keeps it from being a keyword.
func c12Name(tag string) (string, bool) {
	c := verifrt.String(tag, 1)
	verifrt.Assume((c[0] >= 'a' && c[0] <= 'z') || (c[0] >= 'A' && c[0] <= 'Z'))
	return c + "zq", c[0] >= 'A' && c[0] <= 'Z'
}

// HarnessC12Fields: a struct field whose first letter is symbolic, accessed from each kind of site: the real front end
// accepts the access iff the field is upper-case (exported) or the site reaches it through the receiver inside a
// method of its own type (or initialises it in a struct literal); a method carrying the same name as the field does
// not open the field up.
func HarnessC12Fields() {
	f, exported := c12Name("field")
	site := verifrt.Choice("site", 11)
	var sb strings.Builder
	sb.WriteString("type Acct struct { .Id: i32, ." + f + ": i32 };\n")
	sb.WriteString("type Box struct { .In: Acct };\n")
	allowed := exported
	switch site {
	case 0:
		sb.WriteString("fn use(x: Acct) -> i32 { return x." + f + "; }\n")
	case 1:
		sb.WriteString("fn use(x: &'Acct) { x." + f + " = 5; }\n")
	case 2:
		sb.WriteString("fn (a: &Acct) get() -> i32 { return a." + f + "; }\n")
		allowed = true
	case 3:
		sb.WriteString("fn (a: &Acct) other(o: &Acct) -> i32 { return o." + f + "; }\n")
	case 4:
		sb.WriteString("fn (b: &Box) peek(x: Acct) -> i32 { return x." + f + "; }\n")
	case 5:
		sb.WriteString("fn use(x: Acct) -> i32 { let g := fn() -> i32 { return x." + f + "; }; return g(); }\n")
	case 6:
		sb.WriteString("fn use(b: Box) -> i32 { return b.In." + f + "; }\n")
	case 7:
		sb.WriteString("fn use(x: Acct) -> i32 { let go: bool = true; let q: i32 = 0; while go { go = false; q = x." + f + "; } return q; }\n")
	case 8:
		sb.WriteString("fn mk() -> Acct { return { .Id = 1, ." + f + " = 2 } as Acct; }\n")
		allowed = true
	case 9:
		// a method with the same name as the field exists; the access is still a field access from outside
		sb.WriteString("fn (a: &Acct) " + f + "() -> i32 { return 1; }\n")
		sb.WriteString("fn use(x: Acct) -> i32 { return x." + f + "; }\n")
	case 10:
		sb.WriteString("fn (a: &'Acct) set(v: i32) { a." + f + " = v; }\n")
		allowed = true
	}
	o := Run(sb.String())
	if allowed {
		verifrt.Assert(o.Accepted(), "an access to an exported field, or to a private field through the receiver, is rejected: "+o.Messages())
	} else {
		verifrt.Assert(!o.Accepted(), "a private (lower-case) struct field is accessed from outside a method of its type and the program is accepted")
	}
}

// RunProject runs the front end on several in-memory modules the way the pipeline does phase by phase: all modules
// are lexed and parsed, import edges registered (AddDependency, circular imports reported), then collector, resolver
// and type checker run over the modules in the context's topological order.  paths[i] is the import path of srcs[i];
// the last one is the entry module.
func RunProject(paths []string, srcs []string) *Outcome {
	ctx := context_v2.New(&context_v2.Config{Extension: ".fer", ProjectName: "p"}, false)
	mods := make([]*context_v2.Module, len(paths))
	for i, p := range paths {
		scope := table.NewSymbolTable(ctx.Universe)
		mods[i] = &context_v2.Module{FilePath: p + ".fer", ImportPath: p, Type: context_v2.ModuleLocal, ModuleScope: scope, CurrentScope: scope,
			Content: srcs[i], Artifacts: map[string]any{}}
		ctx.AddModule(p, mods[i])
		ctx.Diagnostics.AddSourceContent(p+".fer", srcs[i])
		toks := lexer.New(p+".fer", srcs[i], ctx.Diagnostics).Tokenize(false)
		mods[i].AST = parser.Parse(toks, p+".fer", ctx.Diagnostics)
	}
	for i, p := range paths {
		if mods[i].AST == nil {
			continue
		}
		for _, n := range mods[i].AST.Nodes {
			imp, ok := n.(*ast.ImportStmt)
			if !ok || imp == nil || imp.Path == nil {
				break
			}
			target := strings.Trim(imp.Path.Value, "\"")
			if err := ctx.AddDependency(p, target); err != nil {
				ctx.ReportError(err.Error(), &imp.Location)
			}
		}
	}
	ctx.ComputeTopologicalOrder()
	for _, name := range ctx.GetModuleNames() {
		if m, ok := ctx.GetModule(name); ok && m.AST != nil {
			collector.CollectModule(ctx, m)
		}
	}
	for _, name := range ctx.GetModuleNames() {
		if m, ok := ctx.GetModule(name); ok && m.AST != nil {
			resolver.ResolveModule(ctx, m)
		}
	}
	for _, name := range ctx.GetModuleNames() {
		if m, ok := ctx.GetModule(name); ok && m.AST != nil {
			typechecker.TypeCheckTopLevelSignatures(ctx, m)
		}
	}
	for _, name := range ctx.GetModuleNames() {
		if m, ok := ctx.GetModule(name); ok && m.AST != nil {
			typechecker.CheckModule(ctx, m)
		}
	}
	o := &Outcome{Ctx: ctx, Mod: mods[len(mods)-1]}
	for _, d := range ctx.Diagnostics.Diagnostics() {
		if d.Severity == diagnostics.Error {
			o.Errors = append(o.Errors, d)
		}
	}
	return o
}

// HarnessC12Modules: a function, constant, variable, type, or struct field of module p/lib whose first letter is
// symbolic, named from module p/app in each syntactic position: accepted iff the name is upper-case.
func HarnessC12Modules() {
	n, exported := c12Name("name")
	kind := verifrt.Choice("kind", 31)
	lib := "type Pub struct { .V: i32 };\nfn Make() -> Pub { return { .V = 1 } as Pub; }\n"
	use := ""
	top := "" // module-level declarations of the importing module
	structT := "type " + n + " struct { .V: i32 };\nfn MakeN() -> " + n + " { return { .V = 1 } as " + n + "; }\n"
	switch kind {
	case 0:
		lib += "fn " + n + "() -> i32 { return 7; }\n"
		use = "let x: i32 = lib::" + n + "();"
	case 1:
		lib += "const " + n + ": i32 = 3;\n"
		use = "let x: i32 = lib::" + n + ";"
	case 2:
		lib += "let " + n + ": i32 = 3;\n"
		use = "let x: i32 = lib::" + n + ";"
	case 3:
		lib += "type " + n + " struct { .V: i32 };\n"
		use = "let x: lib::" + n + " = { .V = 1 } as lib::" + n + ";"
	case 4:
		lib += "type " + n + " struct { .V: i32 };\n"
		use = "let f := fn(q: lib::" + n + ") -> i32 { return q.V; };"
	case 5:
		lib += "fn " + n + "() -> i32 { return 7; }\n"
		use = "let go: bool = true; while go { go = false; if lib::" + n + "() > 1 { } }"
	case 6:
		lib += "fn " + n + "(a: i32) -> i32 { return a; }\n"
		use = "let x: i32 = lib::" + n + "(lib::" + n + "(1));"
	case 7:
		lib += "fn (p: &Pub) " + n + "() -> i32 { return p.V; }\n"
		use = "let v := lib::Make(); let x: i32 = v." + n + "();"
	case 8:
		// the type only in the annotation of a let (the value comes from an exported function)
		lib += structT
		use = "let x: lib::" + n + " = lib::MakeN();"
	case 9:
		lib += structT
		top = "type Wrap struct { .F: lib::" + n + " };\n"
	case 10:
		lib += structT
		top = "type Alias lib::" + n + ";\n"
	case 11:
		lib += structT
		use = "let xs: []lib::" + n + " = [];"
	case 12:
		lib += structT
		use = "let xs: [2]lib::" + n + " = [lib::MakeN(), lib::MakeN()];"
	case 13:
		lib += structT
		top = "fn keep(m: map[i32]lib::" + n + ") { }\n"
	case 14:
		lib += structT
		use = "let x: lib::" + n + "? = none;"
	case 15:
		lib += "type " + n + " i32;\n"
		top = "const K: lib::" + n + " = 3;\n"
	case 16:
		lib += "const " + n + ": i32 = 3;\n"
		use = "let lo: i32 = 0; for i in lo..lib::" + n + " { }"
	case 17:
		lib += "const " + n + ": i32 = 3;\n"
		use = "let hi: i32 = 9; for i in lib::" + n + "..hi { }"
	case 18:
		lib += structT
		top = "type Shape interface { area(q: lib::" + n + ") -> i32 };\n"
	case 19:
		lib += structT
		top = "type Pub2 struct { .V: i32 };\nfn (w: &Pub2) take(q: lib::" + n + ") -> i32 { return q.V; }\n"
	case 20:
		lib += structT
		top = "fn give() -> i32 ! lib::" + n + " { return lib::MakeN(); }\n"
	case 21:
		lib += "const " + n + ": i32 = 3;\n"
		use = "let xs: [4]i32 = [1, 2, 3, 4]; let x: i32 = xs[lib::" + n + "];"
	case 22:
		lib += "const " + n + ": i32 = 3;\n"
		use = "let a: i32 = 3; match a { lib::" + n + " => { } _ => { } }"
	case 23:
		lib += "const " + n + ": i32 = 3;\n"
		use = "let a: i32? = none; let x: i32 = a ?? lib::" + n + ";"
	case 24:
		lib += structT
		top = "fn keep(q: &lib::" + n + ") -> i32 { return q.V; }\n"
	case 25:
		lib += "const " + n + ": i32 = 3;\n"
		use = "let xs: [lib::" + n + "]i32 = [1, 2, 3];"
	case 26:
		lib += structT
		use = "let f: fn(q: lib::" + n + ") -> i32 = fn(q: lib::" + n + ") -> i32 { return q.V; };"
	case 27:
		// the symbol is declared in one statement together with (after) an exported one
		lib += "const Limit: i32 = 100, " + n + ": i32 = 3;\n"
		use = "let x: i32 = lib::" + n + ";"
	case 28:
		lib += "let Total: i32 = 100, " + n + ": i32 = 3;\n"
		use = "let x: i32 = lib::" + n + ";"
	case 29:
		// ... together with (before) a private one: an exported name stays reachable
		lib += "const " + n + ": i32 = 3, hidden: i32 = 4;\n"
		use = "let x: i32 = lib::" + n + ";"
	case 30:
		lib += "const First: i32 = 1, second: i32 = 2, " + n + ": i32 = 3;\n"
		use = "let x: i32 = lib::" + n + " + lib::First;"
	}
	app := "import \"p/lib\";\n" + top + "fn main() {\n" + use + "\n}\n"
	o := RunProject([]string{"p/lib", "p/app"}, []string{lib, app})
	if exported {
		verifrt.Assert(o.Accepted(), "an exported (upper-case) symbol of another module is rejected: "+o.Messages())
	} else if kind != 7 {
		verifrt.Assert(!o.Accepted(), "a private (lower-case) symbol of another module is named and the program is accepted (position "+c12Positions[kind]+")")
	}
}

var c12Positions = []string{"call", "constant in an initialiser", "variable in an initialiser", "type in annotation and cast", "type in a function-literal signature",
	"call in a condition inside a loop", "nested call argument", "method through a value", "type in a let annotation only", "type of a struct field",
	"aliased type", "element type of a dynamic array", "element type of a fixed array", "value type of a map parameter", "optional type",
	"type of a module-level constant", "upper bound of a range", "lower bound of a range", "type in an interface method signature",
	"type in a method signature", "value type of a result", "array index", "match pattern", "default of ??",
	"referenced type of a parameter", "length of a fixed array type", "function type in an annotation",
	"constant declared after an exported one in the same statement", "variable declared after an exported one in the same statement",
	"constant declared before a private one in the same statement", "third constant of a statement"}

// ---------------------------------------------------------------------------------------------------- C03
type c03Rule struct {
	class, stmt string
	usesReturn  bool // the injected statement is a return: meaningless inside a void function literal
}

var c03Rules = []c03Rule{
	{"arithmetic between different numeric types", "let z: i64 = a + b;", false},
	{"arithmetic between different numeric types", "let z: f64 = f * a;", false},
	{"implicit narrowing", "let z: i8 = a;", false},
	{"implicit narrowing", "let z: i32 = b;", false},
	{"float-to-int conversion", "let z: i32 = f;", false},
	{"non-bool condition", "if a { }", false},
	{"non-bool condition", "while a { break; }", false},
	{"non-bool operand of a logical operator", "let z: bool = c && a;", false},
	{"non-bool operand of a logical operator", "let z: bool = !a;", false},
	{"wrong argument count", "let z: i32 = id();", false},
	{"wrong argument count", "let z: i32 = id(a, a);", false},
	{"wrong argument count", "let z: i32 = p.m(a);", false},
	{"wrong argument type", "let z: i32 = id(b);", false},
	{"wrong argument type", "let z: i32 = two(b, a);", false},
	{"wrong argument type", "let z: i32 = id(c);", false},
	{"undefined name", "let z: i32 = nope;", false},
	{"undefined name", "let z: i32 = nofn(a);", false},
	{"redeclared name", "let z: i32 = 1; let z: i32 = 2;", false},
	{"missing return value", "if c { return; }", true},
	{"wrong return value", "if c { return b; }", true},
	{"wrong return value", "if c { return c; }", true},
	{"optional where T is required", "let z: i32 = o;", false},
	{"optional where T is required", "let z: i32 = id(o);", false},
	{"unknown struct field", "let z: i32 = p.Q;", false},
	{"unknown struct field", "let q: P = { .X = 1, .Y = 2, .Q = 3 } as P;", false},
	{"missing struct field", "let q: P = { .X = 1 } as P;", false},
	{"mistyped struct field", "let q: P = { .X = c, .Y = 2 } as P;", false},
	{"more initialisers than the array holds", "let q: [2]i32 = [1, 2, 3];", false},
	{"calling a non-function", "let z: i32 = a();", false},
	{"calling a non-function", "let z: i32 = p.X();", false},
	{"unhandled result", "res(a);", false},
	{"unhandled result", "res0();", false},
	{"unhandled result", "p.r0();", false},
	{"unhandled result", "let z: i32 = res(a);", false},
	{"unhandled result", "let z: i32 = res0();", false},
	{"error return from a non-result function", "if c { return 1!; }", true},
}

var c03Contexts = []struct {
	pre, post string
	voidBody  bool
}{
	{"", "", false},
	{"if c {", "}", false},
	{"if c { } else {", "}", false},
	{"while c {", "break; }", false},
	{"for i, v in xs {", "}", false},
	{"match a { 1 => {", "} _ => { } }", false},
	{"let g := fn() {", "};", true},
	{"if c { while c { match a { 1 => {", "} _ => { } } break; } }", false},
	// a function literal (of another result type) is checked earlier in the same body / in an earlier block
	{"let g := fn() { }; let h := fn(q: i64) -> i64 { return q; };", "", false},
	{"if c { let g := fn() -> bool { return true; }; }", "", false},
}

const c03Prelude = `type P struct { .X: i32, .Y: i64 };
fn id(a: i32) -> i32 { return a; }
fn two(a: i32, b: i64) -> i32 { return a; }
fn res(a: i32) -> str ! i32 { return a; }
fn res0() -> str ! i32 { return 1; }
fn (p: &P) m() -> i32 { return p.X; }
fn (p: &P) r0() -> str ! i32 { return 1; }
`

// c03Run: every rule class of the catalogue, injected as one statement into every syntactic context of an otherwise
// well-typed function (or method): the real front end must reject the program with an error on the injected line;
// without the injection every context is accepted.
func c03Run(lo, hi int, method bool) {
	k := lo + verifrt.Choice("rule", hi-lo+1) // the value hi stands for "no injection" (calibration)
	cx := c03Contexts[verifrt.Choice("context", len(c03Contexts))]
	var sb strings.Builder
	sb.WriteString(c03Prelude)
	line := 8
	if method {
		sb.WriteString("fn (self: &P) t(a: i32, b: i64, c: bool, f: f64, o: i32?, p: P, xs: []i32) -> i32 {\n")
	} else {
		sb.WriteString("fn t(a: i32, b: i64, c: bool, f: f64, o: i32?, p: P, xs: []i32) -> i32 {\n")
	}
	line++
	if cx.pre != "" {
		sb.WriteString(cx.pre + "\n")
		line++
	}
	injLine := line
	if k < hi {
		r := c03Rules[k]
		if r.usesReturn && cx.voidBody {
			return
		}
		sb.WriteString(r.stmt + "\n")
	} else {
		sb.WriteString("let z: i32 = id(a);\n")
	}
	if cx.post != "" {
		sb.WriteString(cx.post + "\n")
	}
	sb.WriteString("return 0;\n}\n")
	o := Run(sb.String())
	if k < hi {
		verifrt.Assert(!o.Accepted(), "an ill-typed program is accepted: "+c03Rules[k].class)
		verifrt.Assert(o.Accepted() || o.ErrorOnLine(injLine), "the injected rule violation is not what the compiler reports: "+c03Rules[k].class)
	} else {
		verifrt.Assert(o.Accepted(), "CALIBRATION: the well-typed base program is rejected: "+o.Messages())
	}
}

func HarnessC03Rules0() { c03Run(0, 12, false) }
func HarnessC03Rules1() { c03Run(12, 24, false) }
func HarnessC03Rules2() { c03Run(24, len(c03Rules), false) }
func HarnessC03Rules3() { c03Run(0, 18, true) }
func HarnessC03Rules4() { c03Run(18, len(c03Rules), true) }

// ---------------------------------------------------------------------------------------------------- C13
var c13Programs = []string{
	`type Shape union { i32, str };
type P struct { .X: i32, .Y: i64 };
type E enum { A, B };
fn mk(a: i32) -> P { return { .X = a, .Y = 2 } as P; }
fn res(a: i32) -> str ! i32 { if a == 0 { return "z"!; } return a; }
fn (p: &'P) inc() { p.X += 1; }
`,
	`fn t(a: i32, b: []i32) -> i32 {
    let m := { "k" => 1, "j" => 2 } as map[str]i32;
    let r: i32 = res(a) catch e { return -1; } 0;
    for i, v in b { if v > 3 { continue; } else { break; } }
    match a { 1 => { return 1; } _ => { } }
    let f := fn(z: i32) -> i32 { return z + 1; };
    let q: i32? = none;
    return f(r) + (q ?? 0) + b[0];
}
fn res(a: i32) -> str ! i32 { return a; }
`,
}

var c13Replacements = []string{"", ";", ",", "{", "}", "(", ")", "5", "x", "=>", ".", "union", "\"", "fn", "[", "]", ":", "="}

// c13Tokens: ONE token of a well-formed program is deleted or replaced by another token (every token position x 11
// replacements quick / 18 thorough): the real front end must come back within the step bound (no hang), must not panic, must report at
// least one error whenever it does not accept, and every diagnostic must point inside the file.
func c13Tokens(shard, shards int) {
	src := c13Programs[verifrt.Choice("program", len(c13Programs))]
	bag := diagnostics.NewDiagnosticBag("")
	toks := lexer.New("m.fer", src, bag).Tokenize(false)
	per := (len(toks) - 1 + shards - 1) / shards
	g := verifrt.Choice("token", per)*shards + shard
	if g >= len(toks)-1 {
		return
	}
	nrep := 11 // quick tier: delete ; , { } ( ) 5 x => .
	if verifrt.Thorough() {
		nrep = len(c13Replacements)
	}
	rep := c13Replacements[verifrt.Choice("replacement", nrep)]
	mut := src[:toks[g].Start.Index] + " " + rep + " " + src[toks[g].End.Index:]
	if !verifrt.Symbolic() {
		println("VERIF-SOURCE-BEGIN\n" + mut + "VERIF-SOURCE-END")
	}
	verifrt.StepBudget(6000000, "the front end does not terminate within 6,000,000 interpreted instructions on a malformed program (about 40x the cost of the well-formed one)")
	o := RunDeep(mut)
	verifrt.StepBudget(0, "")
	lines := strings.Count(mut, "\n") + 1
	for _, d := range o.Ctx.Diagnostics.Diagnostics() {
		for _, l := range d.Labels {
			if l.Location == nil || l.Location.Start == nil {
				continue
			}
			verifrt.Assert(l.Location.Start.Line >= 1 && l.Location.Start.Line <= lines+1 && l.Location.Start.Index <= len(mut), "a diagnostic points outside the input file")
		}
	}
}

func HarnessC13Tokens0() { c13Tokens(0, 8) }
func HarnessC13Tokens1() { c13Tokens(1, 8) }
func HarnessC13Tokens2() { c13Tokens(2, 8) }
func HarnessC13Tokens3() { c13Tokens(3, 8) }
func HarnessC13Tokens4() { c13Tokens(4, 8) }
func HarnessC13Tokens5() { c13Tokens(5, 8) }
func HarnessC13Tokens6() { c13Tokens(6, 8) }
func HarnessC13Tokens7() { c13Tokens(7, 8) }

// HarnessC13Imports: a two-module project whose entry module carries a malformed, missing, duplicated, misplaced or
// self-referring import statement (chosen symbolically from the forms below, before or after a declaration): the
// real front end (lexer .. type checker, modules in pipeline order) comes back without a run-time error, reports at
// least one error unless the project is well formed, and every diagnostic points inside a file.
func HarnessC13Imports() {
	forms := []struct {
		text string
		ok   bool
	}{
		{"import \"p/lib\";", true},
		{"import \"p/lib\" as l2;", true},
		{"import ;", false},
		{"import", false},
		{"import \"p/lib\"", false},
		{"import \"p/lib\" as ;", false},
		{"import \"p/lib\" as 5;", false},
		{"import \"\";", false},
		{"import \"p/lib\" \"x\";", false},
		{"import p/lib;", false},
		{"import \"nope/missing\";", false},
		{"import \"p/app\";", false},
		{"import \"p/lib\"; import \"p/lib\";", false},
		{"import \"p/lib\" as a; import \"p/lib\" as a;", false},
		{"import import \"p/lib\";", false},
		{"import \"p/lib\";;", false},
	}
	f := forms[verifrt.Choice("form", len(forms))]
	late := verifrt.Choice("late", 2) == 1 // the import follows a declaration (not allowed)
	lib := "fn Seven() -> i32 { return 7; }\n"
	app := f.text + "\nfn main() { }\n"
	if late {
		app = "let g: i32 = 1;\n" + f.text + "\nfn main() { }\n"
	}
	verifrt.StepBudget(6000000, "the front end does not terminate within 6,000,000 interpreted instructions on a project with a malformed import")
	o := RunProject([]string{"p/lib", "p/app"}, []string{lib, app})
	verifrt.StepBudget(0, "")
	if f.ok && !late {
		verifrt.Assert(o.Accepted(), "CALIBRATION: a project with a well-formed import is rejected: "+o.Messages())
	}
	if late {
		verifrt.Assert(!o.Accepted(), "an import statement after a declaration is accepted")
	}
	for _, d := range o.Ctx.Diagnostics.Diagnostics() {
		for _, l := range d.Labels {
			if l.Location == nil || l.Location.Start == nil {
				continue
			}
			verifrt.Assert(l.Location.Start.Line >= 1 && l.Location.Start.Line <= 6 && l.Location.Start.Index <= len(app)+len(lib), "a diagnostic points outside the input files")
		}
	}
}

// HarnessC13Bytes: one byte of a short program is replaced by a SYMBOLIC byte (any ASCII value except a digit): the
// front end terminates within the bound without panicking.
func HarnessC13Bytes() {
	src := "fn t(a: i32) -> i32 { let s: str = \"ab\"; if a > a { return a / a; } return -a; } // c\n"
	stride := 2 // quick tier: every second byte position
	if verifrt.Thorough() {
		stride = 1
	}
	pos := verifrt.Choice("pos", len(src)/stride) * stride
	c := verifrt.String("c", 1)
	// ASCII, not a digit (a symbolic digit inside a number literal makes the literal's value symbolic, which the
	// interpreter's big.Int model cannot print) - digits are covered by the token replacement "5" above
	verifrt.Assume(c[0] < 0x80 && !(c[0] >= '0' && c[0] <= '9'))
	mut := src[:pos] + c + src[pos+1:]
	verifrt.StepBudget(6000000, "the front end does not terminate within the step bound when one byte of the source is arbitrary")
	o := Run(mut)
	verifrt.StepBudget(0, "")
	// a character the lexer does not know is reported AT that character (the only byte that differs from the
	// well-formed program), not wherever the lexer happens to stand when the diagnostics are printed
	for _, d := range o.Ctx.Diagnostics.Diagnostics() {
		// (a quote re-pairs the other quotes of the line, so the character reported may be another one: only the
		// diagnostic that names the inserted character itself is bound to its position)
		if c[0] == '"' || c[0] == '\'' || d.Message != "unrecognized character '"+c+"'" {
			continue
		}
		for _, l := range d.Labels {
			if l.Location != nil && l.Location.Start != nil {
				verifrt.Assert(l.Location.Start.Index == pos && l.Location.Start.Line == 1, "the diagnostic for an unrecognized character does not point at that character")
			}
			break
		}
	}
}


// ---------------------------------------------------------------------------------------------------- C07
// HarnessC07Shapes: a reference to a local is taken; its LAST USE sits in one of ten statement shapes (plain, then /
// else / trailing else of an else-if chain / middle arm, loop body, match arms, nested if); a conflicting access to the
// referent (write, read of a mutably borrowed place, re-borrow) is placed before the shape, inside the arm right
// before the last use, or after the shape.  While the reference is still used later the conflict must be rejected
// (positions 0, 1); once its last use has passed the same access must be accepted (position 2); without any conflict
// the program is accepted.  Runs lexer .. type checker .. HIR generation .. HIR analyses (borrow checker) for real.
func HarnessC07Shapes() {
	mutable := verifrt.Choice("mutable", 2) == 1
	shape := verifrt.Choice("shape", 10)
	conflicts := []string{"a = 11;", "let n: &'i32 = &'a; n = 3;"}
	if mutable {
		conflicts = []string{"a = 11;", "let z: i32 = a; sink(z);", "let n: &i32 = &a; useref(n);", "let n: &'i32 = &'a; n = 3;"}
	}
	ck := verifrt.Choice("conflict", len(conflicts)+1) // the last value = no conflicting access
	pos := 0
	if ck < len(conflicts) {
		pos = verifrt.Choice("position", 3)
	}
	conflict := ""
	if ck < len(conflicts) {
		conflict = conflicts[ck]
	}
	at := func(p int) string {
		if ck < len(conflicts) && pos == p {
			return conflict + "\n"
		}
		return ""
	}
	use := "useref(r);"
	decl := "let r: &i32 = &a;"
	if mutable {
		use = "r = 5;"
		decl = "let r: &'i32 = &'a;"
	}
	u := at(1) + use + "\n"
	var body string
	switch shape {
	case 0:
		body = u
	case 1:
		body = "if flag == 1 {\n" + u + "}\n"
	case 2:
		body = "if flag == 1 {\nsink(1);\n} else {\n" + u + "}\n"
	case 3:
		body = "if flag == 1 {\nsink(1);\n} else if flag == 2 {\nsink(2);\n} else {\n" + u + "}\n"
	case 4:
		body = "if flag == 1 {\nsink(1);\n} else if flag == 2 {\n" + u + "} else {\nsink(3);\n}\n"
	case 5:
		body = "while flag > 0 {\n" + u + "break;\n}\n"
	case 6:
		body = "match flag {\n1 => {\n" + u + "}\n_ => { sink(0); }\n}\n"
	case 7:
		body = "match flag {\n1 => { sink(1); }\n_ => {\n" + u + "}\n}\n"
	case 8:
		body = "if flag > 0 {\nif flag == 1 {\nsink(1);\n} else {\n" + u + "}\n}\n"
	case 9:
		body = "if flag == 1 {\nsink(1);\n} else if flag == 2 {\nsink(2);\n} else if flag == 3 {\nsink(3);\n} else {\n" + u + "}\n"
	}
	src := "fn sink(x: i32) { }\nfn useref(x: &i32) { }\nfn t(flag: i32) {\nlet a: i32 = 10;\n" + decl + "\n" + at(0) + body + at(2) + "sink(a);\n}\n"
	o := RunDeep(src)
	switch {
	case ck == len(conflicts):
		verifrt.Assert(o.Accepted(), "CALIBRATION: a program that borrows and uses a reference without any conflicting access is rejected: "+o.Messages())
	case pos == 2:
		verifrt.Assert(o.Accepted(), "an access to the referent AFTER the last use of the reference is rejected: "+o.Messages())
	default:
		verifrt.Assert(!o.Accepted(), "a conflicting access to the referent while the reference is still used later is accepted")
	}
}
