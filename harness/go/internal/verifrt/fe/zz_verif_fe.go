// Package fe (overlay only) runs the real front end - lexer, parser, collector, resolver, type checker - on one
// in-memory module, the way internal/pipeline does for a single file without imports.  Harnesses in this package
// assemble the source text from symbolic choices / symbolic trivia and state their property over the diagnostics.
package fe

import (
	"strings"

	"compiler/internal/context_v2"
	"compiler/internal/diagnostics"
	"compiler/internal/frontend/lexer"
	"compiler/internal/frontend/parser"
	"compiler/internal/semantics/collector"
	"compiler/internal/semantics/resolver"
	"compiler/internal/semantics/table"
	"compiler/internal/semantics/typechecker"
	"compiler/internal/verifrt"
)

type Outcome struct {
	Ctx    *context_v2.CompilerContext
	Mod    *context_v2.Module
	Errors []*diagnostics.Diagnostic
}

// Run pushes src through lexing, parsing, collection, resolution and type checking.
func Run(src string) *Outcome {
	ctx := context_v2.New(&context_v2.Config{Extension: ".fer"}, false)
	scope := table.NewSymbolTable(ctx.Universe)
	mod := &context_v2.Module{FilePath: "m.fer", ImportPath: "m", Type: context_v2.ModuleLocal, ModuleScope: scope, CurrentScope: scope,
		Content: src, Artifacts: map[string]any{}}
	ctx.AddModule("m", mod)
	ctx.Diagnostics.AddSourceContent("m.fer", src)
	toks := lexer.New("m.fer", src, ctx.Diagnostics).Tokenize(false)
	mod.AST = parser.Parse(toks, "m.fer", ctx.Diagnostics)
	if mod.AST != nil {
		collector.CollectModule(ctx, mod)
		resolver.ResolveModule(ctx, mod)
		typechecker.TypeCheckTopLevelSignatures(ctx, mod)
		typechecker.CheckModule(ctx, mod)
	}
	o := &Outcome{Ctx: ctx, Mod: mod}
	for _, d := range ctx.Diagnostics.Diagnostics() {
		if d.Severity == diagnostics.Error {
			o.Errors = append(o.Errors, d)
		}
	}
	return o
}

func (o *Outcome) Accepted() bool { return len(o.Errors) == 0 }

// ErrorOnLine reports whether some error diagnostic has a label on the given (1-based) line.
func (o *Outcome) ErrorOnLine(line int) bool {
	for _, d := range o.Errors {
		for _, l := range d.Labels {
			if l.Location != nil && l.Location.Start != nil && l.Location.Start.Line == line {
				return true
			}
		}
	}
	return false
}

func (o *Outcome) Messages() string {
	var sb strings.Builder
	for _, d := range o.Errors {
		sb.WriteString(d.Message)
		sb.WriteString("; ")
	}
	return sb.String()
}

// ---------------------------------------------------------------------------------------------------- C06
// HarnessC06Bindings: every mutation form on an immutable binding - the index variable of a two-variable for loop
// over each kind of iterable, a constant, a catch error variable, a field reached through an immutable reference
// parameter or receiver - placed in each syntactic context, is a compile error reported on the mutating line; the
// same mutation on the corresponding mutable binding (a let, a field behind a &' parameter) is accepted.
func HarnessC06Bindings() {
	iterables := []struct{ decl, expr string }{
		{"let xs: [3]i32 = [1, 2, 3];", "xs"},
		{"let xs: []i32 = [1, 2, 3];", "xs"},
		{"let xs: str = \"abc\";", "xs"},
		{"let xs: map[i32]i32 = { 1 => 2 } as map[i32]i32;", "xs"},
		{"", "0..3"},
	}
	// 0: loop index (immutable)  1: const (immutable)  2: catch error variable (immutable)  3: field behind &P parameter
	// (immutable)  4: field behind & receiver (immutable)  5: let (mutable)  6: field behind &'P parameter (mutable)
	kind := verifrt.Choice("binding", 7)
	it := iterables[0]
	if kind == 0 {
		it = iterables[verifrt.Choice("iterable", len(iterables))]
	}
	forms := []string{"V = 1;", "V += 1;", "V++;", "V--;", "let p: &'i32 = &'V;", "bump(&'V);"}
	form := forms[verifrt.Choice("form", len(forms))]
	ctxs := []struct{ pre, post string }{
		{"", ""},
		{"if true {", "}"},
		{"while go { go = false;", "}"},
		{"match 1 { 1 => {", "} _ => { } }"},
		{"let lit := fn() {", "};"},
	}
	cx := ctxs[verifrt.Choice("context", len(ctxs))]

	var sb strings.Builder
	line := 1
	emit := func(l string) {
		sb.WriteString(l + "\n")
		line++
	}
	emit("type P struct { .X: i32 };")
	emit("fn bump(r: &'i32) { }")
	emit("fn res() -> i32 ! i32 { return 1; }")
	name := "v"
	closers := []string{}
	switch kind {
	case 3:
		emit("fn t(q: &P) {")
		name = "q.X"
	case 4:
		emit("fn (q: &P) t() {")
		name = "q.X"
	case 6:
		emit("fn t(q: &'P) {")
		name = "q.X"
	default:
		emit("fn t() {")
	}
	emit("let go: bool = true;")
	switch kind {
	case 0:
		if it.decl != "" {
			emit(it.decl)
		}
		emit("for i, e in " + it.expr + " {")
		closers = append(closers, "}")
		name = "i"
	case 1:
		emit("const v: i32 = 5;")
	case 2:
		emit("let r: i32 = res() catch v {")
		closers = append(closers, "} 0;")
	case 5:
		emit("let v: i32 = 5;")
	}
	if cx.pre != "" {
		emit(cx.pre)
	}
	mutLine := line
	emit(strings.ReplaceAll(form, "V", name))
	if cx.post != "" {
		emit(cx.post)
	}
	for i := len(closers) - 1; i >= 0; i-- {
		emit(closers[i])
	}
	emit("}")
	o := Run(sb.String())
	if kind <= 4 {
		verifrt.Assert(!o.Accepted(), "a mutation of an immutable binding (loop index, const, catch variable, field behind &) is accepted")
		verifrt.Assert(o.Accepted() || o.ErrorOnLine(mutLine), "the mutation of an immutable binding is not the reported error")
	} else {
		verifrt.Assert(o.Accepted(), "a mutation of a mutable binding is rejected")
	}
}
