package toml

import (
	"strings"

	"compiler/internal/verifrt"
)

// zzParse replays the loop body of ParseTOMLFile on a text (bufio.Scanner's line splitting: "\n" separators,
// one trailing "\r" dropped per line).
func zzParse(text string) (TOMLData, error) {
	data := make(TOMLData)
	currentSection := ""
	for _, raw := range strings.Split(text, "\n") {
		raw = strings.TrimSuffix(raw, "\r")
		line := strings.TrimSpace(raw)
		if shouldSkipLine(line) {
			continue
		}
		if isSectionHeader(line) {
			currentSection = parseSectionHeader(line)
			ensureSectionExists(data, currentSection)
			continue
		}
		if err := parseKeyValuePair(data, line, currentSection); err != nil {
			return nil, err
		}
	}
	return data, nil
}

func zzASCII(s string) {
	for i := 0; i < len(s); i++ {
		verifrt.Assume(s[i] < 0x80)
	}
}

func zzWritable(s string) {
	for i := 0; i < len(s); i++ {
		c := s[i]
		verifrt.Assume(c != '"' && c != '\\' && c != '\n' && c != '\r')
	}
	verifrt.Assume(s != "true" && s != "false")
}

func zzComments(withComment bool) map[string]map[string]string {
	if !withComment {
		return nil
	}
	n := verifrt.Choice("clen", 3)
	c := verifrt.String("comment", n)
	zzASCII(c)
	for i := 0; i < len(c); i++ {
		verifrt.Assume(c[i] != '\n' && c[i] != '\r')
	}
	return map[string]map[string]string{"build": {"k": c}}
}

// HarnessC20String: a string value written by the real writer is parsed back as the same string.
func HarnessC20String() {
	maxn := 5
	if verifrt.Thorough() {
		maxn = 7
	}
	n := verifrt.Choice("n", maxn)
	v := verifrt.String("v", n)
	zzASCII(v)
	zzWritable(v)
	comments := zzComments(verifrt.Choice("withc", 2) == 1)
	f := verifrt.CaptureFile()
	err := writeTOMLSection(f, "build", TOMLTable{"k": v}, comments)
	text := verifrt.TakeOutput()
	verifrt.Assert(err == nil, "writer failed")
	data, perr := zzParse(text)
	verifrt.Assert(perr == nil, "parser rejects the writer's output for a string value")
	if perr != nil {
		return
	}
	got, ok := data["build"]["k"]
	verifrt.Assert(ok, "key lost in round trip (string value)")
	s, isStr := got.(string)
	verifrt.Assert(isStr, "string value read back with another dynamic type")
	if isStr {
		verifrt.Assert(s == v, "string value changed by write/parse round trip")
	}
	verifrt.Assert(len(data) == 1 && len(data["build"]) == 1, "round trip produced extra sections or keys")
}

// HarnessC20Int: integers (|v| < 100000 and the extremes) survive the round trip with dynamic type int.
func HarnessC20Int() {
	var v int
	switch verifrt.Choice("kind", 3) {
	case 0:
		v = verifrt.Int("v")
		verifrt.Assume(v > -100000 && v < 100000)
	case 1:
		v = 9223372036854775807
	default:
		v = -9223372036854775808
	}
	comments := zzComments(verifrt.Choice("withc", 2) == 1)
	f := verifrt.CaptureFile()
	writeTOMLSection(f, "build", TOMLTable{"k": v}, comments)
	data, perr := zzParse(verifrt.TakeOutput())
	verifrt.Assert(perr == nil, "parser rejects the writer's output for an int value")
	if perr != nil {
		return
	}
	got, ok := data["build"]["k"]
	verifrt.Assert(ok, "key lost in round trip (int value)")
	i, isInt := got.(int)
	verifrt.Assert(isInt, "int value read back with another dynamic type")
	if isInt {
		verifrt.Assert(i == v, "int value changed by write/parse round trip")
	}
}

// HarnessC20BoolFloat: booleans, and finite floats from the output classes of FormatFloat('f', -1): integral,
// fractional, large and tiny magnitudes (concrete representatives; float digit generation is not symbolic).
func HarnessC20BoolFloat() {
	comments := zzComments(verifrt.Choice("withc", 2) == 1)
	if verifrt.Choice("isbool", 2) == 1 {
		b := verifrt.Bool("b")
		f := verifrt.CaptureFile()
		writeTOMLSection(f, "build", TOMLTable{"k": b}, comments)
		data, perr := zzParse(verifrt.TakeOutput())
		verifrt.Assert(perr == nil, "parser rejects the writer's output for a bool value")
		if perr != nil {
			return
		}
		got, isBool := data["build"]["k"].(bool)
		verifrt.Assert(isBool, "bool value read back with another dynamic type")
		verifrt.Assert(!isBool || got == b, "bool value changed by round trip")
		return
	}
	floats := []float64{0.5, -2.25, 3.0, -7.0, 0.0, 1e21, 123456789.125, 1e-7, -0.001, 1.7976931348623157e308}
	x := floats[verifrt.Choice("fi", len(floats))]
	f := verifrt.CaptureFile()
	writeTOMLSection(f, "build", TOMLTable{"k": x}, comments)
	data, perr := zzParse(verifrt.TakeOutput())
	verifrt.Assert(perr == nil, "parser rejects the writer's output for a float value")
	if perr != nil {
		return
	}
	got, isFloat := data["build"]["k"].(float64)
	verifrt.Assert(isFloat, "float value read back with another dynamic type")
	verifrt.Assert(!isFloat || got == x, "float value changed by round trip")
}

// HarnessC20Key: keys over [A-Za-z0-9_-] survive (the key is the only entry of an initially empty table).
func HarnessC20Key() {
	n := 1 + verifrt.Choice("n", 3)
	k := verifrt.String("key", n)
	for i := 0; i < len(k); i++ {
		c := k[i]
		verifrt.Assume((c >= 'a' && c <= 'z') || (c >= 'A' && c <= 'Z') || (c >= '0' && c <= '9') || c == '_' || c == '-')
	}
	f := verifrt.CaptureFile()
	writeTOMLSection(f, "default", TOMLTable{k: "v"}, nil)
	data, perr := zzParse(verifrt.TakeOutput())
	verifrt.Assert(perr == nil, "parser rejects the writer's output")
	if perr != nil {
		return
	}
	verifrt.Assert(len(data["default"]) == 1, "key count changed")
	got, ok := data["default"][k]
	verifrt.Assert(ok, "key changed by round trip")
	s, _ := got.(string)
	verifrt.Assert(s == "v", "value under the key changed")
}

// HarnessC20Blanks: surrounding blanks and a trailing comment never change the parsed value.
func HarnessC20Blanks() {
	maxn := 2
	if verifrt.Thorough() {
		maxn = 4
	}
	n := verifrt.Choice("n", maxn)
	v := verifrt.String("v", n)
	zzASCII(v)
	zzWritable(v)
	pads := []string{"", " ", "\t "}
	lead := pads[verifrt.Choice("lead", len(pads))]
	mid1 := pads[verifrt.Choice("mid1", len(pads))]
	mid2 := pads[verifrt.Choice("mid2", len(pads))]
	trail := pads[verifrt.Choice("trail", len(pads))]
	tails := []string{"", "# c", " #\"", "\r"}
	tail := tails[verifrt.Choice("tail", len(tails))]
	line := lead + "k" + mid1 + "=" + mid2 + formatTOMLValue(v) + trail + tail
	data, perr := zzParse("# header\n\n" + line + "\n")
	verifrt.Assert(perr == nil, "parser rejects a padded line")
	if perr != nil {
		return
	}
	s, isStr := data["default"]["k"].(string)
	verifrt.Assert(isStr && s == v, "blanks or a trailing comment changed the parsed value")
}

// HarnessC20NoCrash: parsing never panics, whatever the (ASCII) file content.
func HarnessC20NoCrash() {
	maxn := 5
	if verifrt.Thorough() {
		maxn = 7
	}
	n := verifrt.Choice("n", maxn)
	s := verifrt.String("s", n)
	zzASCII(s)
	zzParse(s)
}

// HarnessC20Sections: a configuration with TWO of the sections the writer knows (any pair, "default" - written without
// a header - included), each holding a string key (symbolic text) and an integer key, goes through writeTOMLSections
// and the parser: both sections come back with exactly their own keys and values (nothing migrates between sections,
// the header-less default section is read back as "default").
func HarnessC20Sections() {
	names := []string{"default", "compiler", "build", "cache", "external", "neighbors", "dependencies"}
	a := verifrt.Choice("sa", len(names))
	b := verifrt.Choice("sb", len(names))
	verifrt.Assume(a < b)
	n := verifrt.Choice("n", 3)
	v := verifrt.String("v", n)
	zzASCII(v)
	zzWritable(v)
	w := verifrt.String("w", 1)
	zzASCII(w)
	zzWritable(w)
	x := verifrt.Int("x")
	verifrt.Assume(x > -1000 && x < 1000)
	data := TOMLData{names[a]: TOMLTable{"name": v, "count": x}, names[b]: TOMLTable{"name": w, "flag": true}}
	f := verifrt.CaptureFile()
	err := writeTOMLSections(f, data, nil)
	text := verifrt.TakeOutput()
	verifrt.Assert(err == nil, "writer failed")
	got, perr := zzParse(text)
	verifrt.Assert(perr == nil, "parser rejects the writer's output for a two-section configuration")
	if perr != nil {
		return
	}
	verifrt.Assert(len(got) == 2, "round trip changed the number of sections")
	ga, oka := got[names[a]]
	gb, okb := got[names[b]]
	verifrt.Assert(oka && okb, "a section is lost or renamed by the round trip")
	if !oka || !okb {
		return
	}
	verifrt.Assert(len(ga) == 2 && len(gb) == 2, "a key moved between sections or was lost")
	sv, isS := ga["name"].(string)
	verifrt.Assert(isS && sv == v, "string value of the first section changed")
	iv, isI := ga["count"].(int)
	verifrt.Assert(isI && iv == x, "integer value of the first section changed")
	sw, isW := gb["name"].(string)
	verifrt.Assert(isW && sw == w, "string value of the second section changed")
	bv, isB := gb["flag"].(bool)
	verifrt.Assert(isB && bv, "boolean value of the second section changed")
}

// HarnessC20HeaderComment: blanks and a comment after a section header do not change what is parsed: the keys that
// follow land in that section with their values.
func HarnessC20HeaderComment() {
	pads := []string{"", " ", "\t", "  "}
	pad := pads[verifrt.Choice("pad", len(pads))]
	n := verifrt.Choice("clen", 3)
	c := verifrt.String("comment", n)
	zzASCII(c)
	for i := 0; i < len(c); i++ {
		verifrt.Assume(c[i] != '\n' && c[i] != '\r')
	}
	withComment := verifrt.Choice("withc", 2) == 1
	header := "[build]" + pad
	if withComment {
		header += "#" + c
	}
	data, err := zzParse(header + "\nk = 5\nname = \"x\"\n")
	verifrt.Assert(err == nil, "a comment or blanks after a section header make the parser fail")
	if err != nil {
		return
	}
	v, ok := data["build"]["k"].(int)
	verifrt.Assert(ok && v == 5 && len(data) == 1, "a comment or blanks after a section header change the parsed values")
}
