"""Runtime contracts (summaries) used when executing compiler output (QBE IL / wasm).

Each summary states what the corresponding C function in /repo/runtime does, at the API boundary.  They are
assumptions of the L2 checks (C01, C02, C04, C05, C08, C09, C18) and are discharged against the C sources by the
L3 checks (C16, C17) within their bounds.
"""
import z3
from .core import PathEnd, Inconclusive, bv, conc_val, fresh_bv

MINCAP = 4


class ArrObj:
    def __init__(self, elem_size, cap, data):
        self.elem_size = elem_size
        self.length = 0
        self.cap = cap
        self.data = data  # region id

    def clone(self):
        a = ArrObj(self.elem_size, self.cap, self.data)
        a.length = self.length
        return a


def _arr(ex, st, p, who):
    v = conc_val(p)
    if v is None:
        raise Inconclusive('%s: symbolic array handle' % who)
    if v == 0:
        return None
    rid = v >> st.mem.shift
    r = st.mem.regions.get(rid)
    if r is None or not isinstance(r.meta, ArrObj) or (v & ((1 << st.mem.shift) - 1)) != 0:
        raise PathEnd('oob', '%s: handle %#x is not a live array' % (who, v))
    return r.meta


def ferret_array_new(ex, st, a, work):
    es = conc_val(a[0])
    cap = conc_val(a[1])
    if es is None or cap is None:
        raise Inconclusive('ferret_array_new with symbolic size')
    if cap >= 1 << 31:
        cap -= 1 << 32
    if cap < MINCAP:
        cap = MINCAP
    data = st.mem.alloc(es * cap, name='arrdata', kind='heap')
    h = st.mem.alloc(24, name='arrhdr', kind='heap')
    h.meta = ArrObj(es, cap, data.id)
    return st.mem.ptr(h)


def ferret_array_append(ex, st, a, work):
    o = _arr(ex, st, a[0], 'ferret_array_append')
    if o is None or conc_val(a[1]) == 0:
        return bv(0, 32)
    if o.length >= o.cap:
        ncap = max(o.cap * 2, MINCAP)
        old = st.mem.regions[o.data]
        new = st.mem.alloc(o.elem_size * ncap, name='arrdata', kind='heap')
        for i in range(old.size):
            new.bytes[i] = old.bytes[i]
        old.alive = False
        o.data = new.id
        o.cap = ncap
    d = st.mem.regions[o.data]
    st.mem.copy(st, st.mem.ptr(d, o.length * o.elem_size), a[1], o.elem_size)
    o.length += 1
    return bv(1, 32)


def ferret_array_len(ex, st, a, work):
    o = _arr(ex, st, a[0], 'ferret_array_len')
    return bv(0 if o is None else o.length, 32)


def ferret_array_get(ex, st, a, work):
    o = _arr(ex, st, a[0], 'ferret_array_get')
    idx = a[1]
    if o is None:
        return bv(0, 64)
    n = o.length
    inr = z3.And(idx >= 0, idx < bv(n, 32)) if n > 0 else z3.BoolVal(False)

    def on_in(s):
        oo = _arr(ex, s, a[0], 'ferret_array_get')
        d = s.mem.regions[oo.data]
        return s.mem.ptr(d) + z3.ZeroExt(32, idx) * bv(oo.elem_size, 64)

    def on_out(s):
        s.events.append(('rt_refused', 'array_get'))
        return bv(0, 64)
    return ex.fork_value(st, work, inr, on_in, on_out)


def ferret_array_set(ex, st, a, work):
    o = _arr(ex, st, a[0], 'ferret_array_set')
    idx = a[1]
    if o is None or conc_val(a[2]) == 0:
        return bv(0, 32)
    n = o.length
    inr = z3.And(idx >= 0, idx < bv(n, 32)) if n > 0 else z3.BoolVal(False)

    def on_in(s):
        oo = _arr(ex, s, a[0], 'ferret_array_set')
        d = s.mem.regions[oo.data]
        p = s.mem.ptr(d) + z3.ZeroExt(32, idx) * bv(oo.elem_size, 64)
        s.mem.copy(s, p, a[2], oo.elem_size)
        return bv(1, 32)

    def on_out(s):
        s.events.append(('rt_refused', 'array_set'))
        return bv(0, 32)
    return ex.fork_value(st, work, inr, on_in, on_out)


def ferret_memcpy(ex, st, a, work):
    n = conc_val(a[2])
    if n is None:
        raise Inconclusive('ferret_memcpy with symbolic length')
    st.mem.copy(st, a[0], a[1], n)
    return a[0]


def ferret_alloc(ex, st, a, work):
    n = conc_val(a[0])
    if n is None:
        raise Inconclusive('ferret_alloc with symbolic size')
    r = st.mem.alloc(max(n, 1), name='heap', kind='heap')
    return st.mem.ptr(r)


def ferret_string_len(ex, st, a, work):
    s = st.mem.read_cstr(st, a[0])
    if s is None:
        raise Inconclusive('ferret_string_len on a non-concrete string')
    return bv(len(s), 32)


def ferret_strcmp(ex, st, a, work):
    s1 = st.mem.read_cstr(st, a[0])
    s2 = st.mem.read_cstr(st, a[1])
    if s1 is None or s2 is None:
        raise Inconclusive('ferret_strcmp on a non-concrete string')
    r = (s1 > s2) - (s1 < s2)
    return bv(r, 32)


def ferret_optional_unwrap_or(ex, st, a, work):
    n = conc_val(a[3])
    if n is None:
        raise Inconclusive('ferret_optional_unwrap_or with symbolic size')
    if conc_val(a[2]) == 0 or n == 0:
        return None
    flag = st.mem.load(st, a[0] + bv(n, 64), 1)
    some = st.mem.load(st, a[0], n)
    if conc_val(a[1]) == 0:
        dflt = bv(0, 8 * n)
    else:
        dflt = st.mem.load(st, a[1], n)
    st.mem.store(st, a[2], z3.If(flag != 0, some, dflt), n)
    return None


def ferret_global_panic(ex, st, a, work):
    msg = st.mem.read_cstr(st, a[0]) if conc_val(a[0]) not in (None, 0) else b''
    st.events.append(('panic', msg))
    raise PathEnd('panic', msg)


TAGS = {0: ('i', 8), 1: ('i', 16), 2: ('i', 32), 3: ('i', 64), 4: ('i', 128), 5: ('i', 256),
        6: ('u', 8), 7: ('u', 16), 8: ('u', 32), 9: ('u', 64), 10: ('u', 128), 11: ('u', 256),
        12: ('f', 32), 13: ('f', 64), 16: ('str', 64), 17: ('byte', 8), 18: ('bool', 8)}


def _print(ex, st, a, nl):
    o = _arr(ex, st, a[0], 'ferret_std_io_Print')
    if o is None:
        return None
    d = st.mem.regions[o.data]
    items = []
    for i in range(o.length):
        base = st.mem.ptr(d, i * o.elem_size)
        tag = conc_val(st.mem.load(st, base, 4))
        if tag is None or tag not in TAGS:
            raise Inconclusive('print of a value with symbolic or unknown tag %r' % tag)
        kind, bits = TAGS[tag]
        if kind == 'str':
            p = st.mem.load(st, base + 4, 8)
            s = st.mem.read_cstr(st, p)
            if s is None:
                raise Inconclusive('print of a non-concrete string')
            items.append(('str', s))
        elif kind == 'bool':
            v = st.mem.load(st, base + 4, 1)
            items.append(('bool', v != 0))
        else:
            v = st.mem.load(st, base + 4, bits // 8)
            items.append((kind + str(bits), z3.simplify(v)))
    st.events.append(('print', items, nl))
    return None


def ferret_std_io_Println(ex, st, a, work):
    return _print(ex, st, a, True)


def ferret_std_io_Print(ex, st, a, work):
    return _print(ex, st, a, False)


QBE_SUMMARIES = {
    'ferret_array_new': ferret_array_new,
    'ferret_array_append': ferret_array_append,
    'ferret_append_array': ferret_array_append,
    'ferret_array_len': ferret_array_len,
    'ferret_len_array': ferret_array_len,
    'ferret_array_get': ferret_array_get,
    'ferret_array_set': ferret_array_set,
    'ferret_memcpy': ferret_memcpy,
    'ferret_alloc': ferret_alloc,
    'ferret_string_len': ferret_string_len,
    'ferret_len_string': ferret_string_len,
    'ferret_strcmp': ferret_strcmp,
    'ferret_optional_unwrap_or': ferret_optional_unwrap_or,
    'ferret_global_panic': ferret_global_panic,
    'ferret_std_io_Println': ferret_std_io_Println,
    'ferret_std_io_Print': ferret_std_io_Print,
}


# ------------------------------------------------------------------------------------------------ wide integers
# Contracts for the 128/256-bit entry points of runtime/core/bigint.c (discharged against the C source by C16):
# values live in memory as little-endian limbs; from_string on a CONCRETE text = its value mod 2^N.
def _wide_from_string(bits):
    def f(ex, st, a, work):
        txt = st.mem.read_cstr(st, a[0])
        if txt is None:
            raise Inconclusive('from_string on a non-concrete text')
        t = txt.decode().strip().replace('_', '')
        neg = t.startswith('-')
        if neg or t.startswith('+'):
            t = t[1:]
        base = 10
        if t[:2].lower() == '0x':
            base, t = 16, t[2:]
        elif t[:2].lower() == '0o':
            base, t = 8, t[2:]
        elif t[:2].lower() == '0b':
            base, t = 2, t[2:]
        try:
            v = int(t, base) if t else 0
        except ValueError:
            raise Inconclusive('from_string on %r' % txt)
        if neg:
            v = -v
        st.mem.store(st, a[1], bv(v % (1 << bits), bits), bits // 8)
        return None
    return f


def _wide_from64(bits, signed):
    def f(ex, st, a, work):
        v = z3.SignExt(bits - 64, a[0]) if signed else z3.ZeroExt(bits - 64, a[0])
        st.mem.store(st, a[1], v, bits // 8)
        return None
    return f


def _wide_to64(bits):
    def f(ex, st, a, work):
        return z3.Extract(63, 0, st.mem.load(st, a[0], bits // 8))
    return f


def _wide_cmp(bits, signed, op):
    def f(ex, st, a, work):
        x = st.mem.load(st, a[0], bits // 8)
        y = st.mem.load(st, a[1], bits // 8)
        c = {'eq': lambda: x == y, 'lt': lambda: (x < y) if signed else z3.ULT(x, y), 'gt': lambda: (x > y) if signed else z3.UGT(x, y)}[op]()
        return z3.If(c, bv(1, 32), bv(0, 32))
    return f


def _wide_bin(bits, op):
    def f(ex, st, a, work):
        x = st.mem.load(st, a[0], bits // 8)
        y = st.mem.load(st, a[1], bits // 8)
        r = {'add': lambda: x + y, 'sub': lambda: x - y, 'and': lambda: x & y, 'or': lambda: x | y, 'xor': lambda: x ^ y}[op]()
        st.mem.store(st, a[2], r, bits // 8)
        return None
    return f


for _T, (_bits, _signed) in {'i128': (128, True), 'u128': (128, False), 'i256': (256, True), 'u256': (256, False)}.items():
    QBE_SUMMARIES['ferret_%s_from_string_ptr' % _T] = _wide_from_string(_bits)
    QBE_SUMMARIES['ferret_%s_from_i64_ptr' % _T] = _wide_from64(_bits, True)
    QBE_SUMMARIES['ferret_%s_from_u64_ptr' % _T] = _wide_from64(_bits, False)
    QBE_SUMMARIES['ferret_%s_to_i64_ptr' % _T] = _wide_to64(_bits)
    QBE_SUMMARIES['ferret_%s_to_u64_ptr' % _T] = _wide_to64(_bits)
    for _op in ('eq', 'lt', 'gt'):
        QBE_SUMMARIES['ferret_%s_%s_ptr' % (_T, _op)] = _wide_cmp(_bits, _signed, _op)
    for _op in ('add', 'sub', 'and', 'or', 'xor'):
        QBE_SUMMARIES['ferret_%s_%s_ptr' % (_T, _op)] = _wide_bin(_bits, _op)
