"""lirsym core: path-wise symbolic execution state shared by the QBE, wasm and LLVM front ends.

Values are z3 bit-vector terms.  Memory is a set of regions (concrete size, list of byte terms) placed at
concrete, widely spaced base addresses, so pointer arithmetic is plain bit-vector arithmetic and a pointer
with a concrete value resolves directly.  A symbolic pointer is resolved with solver queries (which regions
can it point into under the path condition) and becomes an ite over the feasible offsets; an access that can
fall outside every live region is reported as an out-of-bounds event.
"""
import time
import z3


class Stats:
    def __init__(self):
        self.queries = 0
        self.sat = 0
        self.unsat = 0
        self.unknown = 0
        self.solver_s = 0.0
        self.paths = 0
        self.instrs = 0

    def merge(self, o):
        for k in self.__dict__:
            setattr(self, k, getattr(self, k) + getattr(o, k))

    def as_dict(self):
        d = dict(self.__dict__)
        d['solver_s'] = round(d['solver_s'], 3)
        return d


class Inconclusive(Exception):
    """Raised when a definite answer could not be obtained (unknown, unsupported, bound exceeded)."""


class PathEnd(Exception):
    def __init__(self, kind, detail=None):
        self.kind = kind
        self.detail = detail


class Solver:
    """One incremental z3 solver; every query is counted and timed."""

    def __init__(self, timeout_ms=60000, stats=None):
        self.s = z3.Solver()
        self.s.set('timeout', timeout_ms)
        self.stats = stats or Stats()

    def check(self, *conds):
        """sat / unsat / unknown for the conjunction of conds (list of z3 Bool)."""
        t0 = time.time()
        self.s.push()
        try:
            for c in conds:
                if isinstance(c, (list, tuple)):
                    for x in c:
                        self.s.add(x)
                else:
                    self.s.add(c)
            r = self.s.check()
            m = None
            if r == z3.sat:
                m = self.s.model()
        finally:
            self.s.pop()
        self.stats.queries += 1
        self.stats.solver_s += time.time() - t0
        if r == z3.sat:
            self.stats.sat += 1
            return 'sat', m
        if r == z3.unsat:
            self.stats.unsat += 1
            return 'unsat', None
        self.stats.unknown += 1
        if not getattr(self, '_splitting', False):
            # case split on the conditions of if-then-else subterms (compare results feeding arithmetic, e.g. a guard
            # "divisor == -1" folded into the divisor): each case is far easier than the mixed query
            flat = []
            for c in conds:
                flat.extend(c if isinstance(c, (list, tuple)) else [c])
            sel = _ite_conditions(flat, 3)
            if sel:
                self._splitting = True
                try:
                    allunsat = True
                    for k in range(1 << len(sel)):
                        case = [sel[i] if (k >> i) & 1 else z3.Not(sel[i]) for i in range(len(sel))]
                        r2, m2 = self.check(flat + case)
                        if r2 == 'sat':
                            return 'sat', m2
                        if r2 != 'unsat':
                            allunsat = False
                    if allunsat:
                        return 'unsat', None
                finally:
                    self._splitting = False
        return 'unknown', None

    def feasible(self, pc, cond=None):
        cs = list(pc)
        if cond is not None:
            cs.append(cond)
        r, m = self.check(cs)
        if r == 'unknown':
            raise Inconclusive('solver unknown on feasibility query')
        return r == 'sat', m


def bv(val, width):
    return z3.BitVecVal(val, width)


def is_conc(t):
    return z3.is_bv_value(t)


def _ite_conditions(terms, limit):
    """conditions of If subterms (non-constant, distinct), at most `limit` of them"""
    seen, out, stack, visited = set(), [], list(terms), set()
    while stack and len(out) < limit:
        t = stack.pop()
        if t.get_id() in visited:
            continue
        visited.add(t.get_id())
        if z3.is_app(t):
            if t.decl().kind() == z3.Z3_OP_ITE:
                c = t.arg(0)
                if c.get_id() not in seen and not z3.is_true(c) and not z3.is_false(c):
                    seen.add(c.get_id())
                    out.append(c)
            stack.extend(t.children())
    return out


def simp(t):
    return z3.simplify(t)


def conc_val(t):
    t = z3.simplify(t)
    if z3.is_bv_value(t):
        return t.as_long()
    return None


_undef_counter = [0]


def fresh_byte(tag='undef'):
    _undef_counter[0] += 1
    return z3.BitVec('%s!%d' % (tag, _undef_counter[0]), 8)


def fresh_bv(tag, width):
    _undef_counter[0] += 1
    return z3.BitVec('%s!%d' % (tag, _undef_counter[0]), width)


class Region:
    __slots__ = ('id', 'size', 'bytes', 'alive', 'name', 'kind', 'meta')

    def __init__(self, rid, size, name='', kind='stack', init=None):
        self.id = rid
        self.size = size
        self.alive = True
        self.name = name
        self.kind = kind
        self.meta = None
        if init is None:
            self.bytes = [None] * size  # lazily-created undefined bytes
        else:
            self.bytes = list(init)

    def get(self, i):
        b = self.bytes[i]
        if b is None:
            b = fresh_byte('undef_%s' % (self.name or self.id))
            self.bytes[i] = b
        return b

    def clone(self):
        r = Region(self.id, self.size, self.name, self.kind, self.bytes)
        r.alive = self.alive
        r.meta = self.meta.clone() if hasattr(self.meta, 'clone') else self.meta
        return r


class Memory:
    """Region memory with `ptr_bits`-wide pointers.  base(id) = (id+1) << shift."""

    def __init__(self, ptr_bits=64, shift=32, first_base=None):
        self.ptr_bits = ptr_bits
        self.shift = shift
        self.regions = {}
        self.next_id = 1

    def clone(self):
        m = Memory(self.ptr_bits, self.shift)
        m.regions = {k: r.clone() for k, r in self.regions.items()}
        m.next_id = self.next_id
        return m

    def base(self, rid):
        return rid << self.shift

    def alloc(self, size, name='', kind='stack', init=None):
        rid = self.next_id
        self.next_id += 1
        assert size < (1 << self.shift)
        r = Region(rid, size, name, kind, init)
        self.regions[rid] = r
        return r

    def ptr(self, region, off=0):
        return bv(self.base(region.id) + off, self.ptr_bits)

    def free(self, region):
        region.alive = False

    # -- pointer resolution -------------------------------------------------------------
    def resolve(self, st, p, nbytes):
        """Return list of (region, offset_term_or_int, guard_or_None).  Raises PathEnd('oob') when the access
        can fall outside every live region under the path condition."""
        p = z3.simplify(p)
        if z3.is_bv_value(p):
            v = p.as_long()
            rid = v >> self.shift
            off = v & ((1 << self.shift) - 1)
            r = self.regions.get(rid)
            if r is None:
                raise PathEnd('oob', 'access through pointer %#x outside every region' % v)
            if not r.alive:
                raise PathEnd('uaf', 'access to freed region %s' % (r.name or r.id))
            if off + nbytes > r.size:
                raise PathEnd('oob', 'access at offset %d+%d beyond region %s of size %d' % (off, nbytes, r.name or r.id, r.size))
            return [(r, off, None)]
        # symbolic pointer: enumerate candidate regions with the solver
        cands = []
        excl = []
        while True:
            ok, m = st.solver.feasible(st.pc, z3.And(*excl) if excl else None)
            if not ok:
                break
            v = m.eval(p, model_completion=True).as_long()
            rid = v >> self.shift
            r = self.regions.get(rid)
            if r is None:
                raise PathEnd('oob', 'symbolic pointer can leave every region (e.g. %#x)' % v)
            lo = bv(self.base(rid), self.ptr_bits)
            inreg = z3.And(z3.UGE(p, lo), z3.ULE(p, lo + (r.size - nbytes))) if r.size >= nbytes else z3.BoolVal(False)
            # is the model value inside?
            off = v - self.base(rid)
            if off + nbytes > r.size:
                raise PathEnd('oob', 'symbolic pointer can reach offset %d (+%d) of region %s of size %d' % (off, nbytes, r.name or r.id, r.size))
            if not r.alive:
                raise PathEnd('uaf', 'symbolic pointer can reach freed region %s' % (r.name or r.id))
            cands.append((r, z3.simplify(p - lo), inreg))
            excl.append(z3.Not(inreg))
            if len(cands) > 48:
                raise Inconclusive('symbolic pointer with more than 48 candidate regions')
        if not cands:
            raise PathEnd('infeasible')
        if len(cands) == 1:
            return [(cands[0][0], cands[0][1], None)]
        return cands

    def _null_conds(self, t, g):
        if t[0] == 'leaf':
            return [g] if t[1].as_long() == 0 else []
        return self._null_conds(t[2], z3.And(g, t[1])) + self._null_conds(t[3], z3.And(g, z3.Not(t[1])))

    def _tree_load_nonnull(self, st, t, nbytes):
        if t[0] == 'leaf':
            if t[1].as_long() == 0:
                return bv(0, 8 * nbytes)   # infeasible leaf (checked by the caller)
            return self.load(st, t[1], nbytes)
        return z3.If(t[1], self._tree_load_nonnull(st, t[2], nbytes), self._tree_load_nonnull(st, t[3], nbytes))

    def _load_region(self, r, off, nbytes):
        if isinstance(off, int):
            bs = [r.get(off + i) for i in range(nbytes)]
            return z3.Concat(*reversed(bs)) if nbytes > 1 else bs[0]
        # symbolic offset: ite over feasible concrete offsets
        off = z3.simplify(off)
        w = off.size()
        res = None
        if isinstance(r.meta, tuple) and r.meta[0] == 'table' and nbytes == r.meta[1]:
            # constant lookup table with aligned elements: group equal entries
            es = r.meta[1]
            vals = []
            for o in range(0, r.size - nbytes + 1, es):
                bs = [r.get(o + i) for i in range(nbytes)]
                vals.append((o, z3.simplify(z3.Concat(*reversed(bs)) if nbytes > 1 else bs[0])))
            count = {}
            for o, v in vals:
                count[v.sexpr()] = count.get(v.sexpr(), 0) + 1
            best = max(vals, key=lambda ov: count[ov[1].sexpr()])[1]
            res = best
            for o, v in reversed(vals):
                if v.sexpr() == best.sexpr():
                    continue
                res = z3.If(off == bv(o, w), v, res)
            return res
        step = 1
        if nbytes in (2, 4, 8, 16):
            low = z3.simplify(z3.Extract(nbytes.bit_length() - 2, 0, off))
            if z3.is_bv_value(low) and low.as_long() == 0:
                step = nbytes      # the offset is provably a multiple of the access size
        last = (r.size - nbytes) // step * step
        for o in range(last, -1, -step):
            bs = [r.get(o + i) for i in range(nbytes)]
            v = z3.Concat(*reversed(bs)) if nbytes > 1 else bs[0]
            res = v if res is None else z3.If(off == bv(o, w), v, res)
        return res

    def _ite_tree(self, p, budget=[0]):
        """(cond, then, else) decomposition of a pointer term that is an ite-tree over concrete pointers; None otherwise."""
        if z3.is_bv_value(p):
            return ('leaf', p)
        if z3.is_app_of(p, z3.Z3_OP_ITE):
            a = self._ite_tree(p.arg(1))
            b = self._ite_tree(p.arg(2))
            if a is None or b is None:
                return None
            return ('ite', p.arg(0), a, b)
        return None

    def _tree_load(self, st, t, nbytes):
        if t[0] == 'leaf':
            v = t[1].as_long()
            if v == 0:
                raise PathEnd('oob', 'load through a pointer that can be NULL')
            return self.load(st, t[1], nbytes)
        return z3.If(t[1], self._tree_load(st, t[2], nbytes), self._tree_load(st, t[3], nbytes))

    def load(self, st, p, nbytes):
        p = z3.simplify(p)
        if not z3.is_bv_value(p):
            t = self._ite_tree(p)
            if t is not None:
                # NULL leaves must be infeasible under the path condition, otherwise the access is a violation
                nulls = self._null_conds(t, z3.BoolVal(True))
                if nulls:
                    ok, _ = st.solver.feasible(st.pc, z3.Or(*nulls))
                    if ok:
                        raise PathEnd('oob', 'load through a pointer that can be NULL')
                return self._tree_load_nonnull(st, t, nbytes)
        c = self.resolve(st, p, nbytes)
        if len(c) == 1:
            return self._load_region(c[0][0], c[0][1], nbytes)
        res = None
        for (r, off, g) in reversed(c):
            v = self._load_region(r, off, nbytes)
            res = v if res is None else z3.If(g, v, res)
        return res

    def _store_region(self, r, off, val, nbytes, guard=None):
        if isinstance(off, int) and guard is None:
            for i in range(nbytes):
                r.bytes[off + i] = z3.simplify(z3.Extract(8 * i + 7, 8 * i, val))
            return
        vb = [z3.Extract(8 * i + 7, 8 * i, val) for i in range(nbytes)]
        if isinstance(off, int):
            for i in range(nbytes):
                r.bytes[off + i] = z3.If(guard, vb[i], r.get(off + i))
            return
        off = z3.simplify(off)
        w = off.size()
        for j in range(r.size):
            old = None
            new = None
            for i in range(nbytes):
                o = j - i
                if 0 <= o <= r.size - nbytes:
                    c = off == bv(o, w)
                    if guard is not None:
                        c = z3.And(guard, c)
                    if old is None:
                        old = r.get(j)
                        new = old
                    new = z3.If(c, vb[i], new)
            if new is not None:
                r.bytes[j] = new

    def store(self, st, p, val, nbytes):
        c = self.resolve(st, p, nbytes)
        if len(c) == 1:
            self._store_region(c[0][0], c[0][1], val, nbytes)
            return
        for (r, off, g) in c:
            self._store_region(r, off, val, nbytes, g)

    def copy(self, st, dst, src, n):
        """memcpy of concrete length n."""
        if n == 0:
            return
        v = self.load(st, src, n)
        self.store(st, dst, v, n)

    def read_cstr(self, st, p, maxlen=256):
        """Read a NUL-terminated string whose bytes are concrete; returns bytes or None."""
        pv = conc_val(p)
        if pv is None:
            return None
        rid = pv >> self.shift
        off = pv & ((1 << self.shift) - 1)
        r = self.regions.get(rid)
        if r is None:
            return None
        out = bytearray()
        while off < r.size and len(out) < maxlen:
            b = conc_val(r.get(off))
            if b is None:
                return None
            if b == 0:
                return bytes(out)
            out.append(b)
            off += 1
        return None
