"""WebAssembly front end for lirsym: binary decoder for the modules Ferret's wasm back end emits and a path-wise
symbolic executor (stack machine) over the same region memory / solver core as the QBE front end.

Linear memory is modelled as regions with 32-bit pointers: region 0 is the module's data segment (addresses
0 .. __data_end; the first 1024 bytes are the unused null page), every `ferret_alloc` gives a fresh region at
`id << 20`.  The real `runtime.js` is a bump allocator over one flat memory, so an access that leaves its region is
reported here as `oob` although a real run would silently touch a neighbour - that is stricter than wasm itself and
is only ever used to classify a path as undefined behaviour.

Semantics follow the WebAssembly 1.0 core specification: i32/i64 arithmetic wraps, `div_s` traps on zero and on
MIN/-1, `rem_s` traps on zero only (MIN rem -1 = 0), shift counts are taken modulo the width, `unreachable` traps,
comparison results are i32 0/1.  Floating-point instructions are decoded but not executed (Inconclusive).
"""
import struct
import z3
from .core import (Memory, Region, PathEnd, Inconclusive, Solver, Stats, bv, conc_val, fresh_bv, simp)
from .rtsum import ArrObj, TAGS

I32, I64, F32, F64 = 0x7f, 0x7e, 0x7d, 0x7c
VT_BITS = {I32: 32, I64: 64, F32: 32, F64: 64}
NULL_PAGE = 1024
PUSHED = object()


class WasmError(Exception):
    pass


class Reader:
    def __init__(self, b, pos=0, end=None):
        self.b = b
        self.pos = pos
        self.end = len(b) if end is None else end

    def byte(self):
        if self.pos >= self.end:
            raise WasmError('unexpected end of section')
        v = self.b[self.pos]
        self.pos += 1
        return v

    def u32(self):
        r = 0
        s = 0
        while True:
            x = self.byte()
            r |= (x & 0x7f) << s
            s += 7
            if not x & 0x80:
                break
            if s > 35:
                raise WasmError('u32 LEB too long')
        return r

    def sleb(self, bits):
        r = 0
        s = 0
        while True:
            x = self.byte()
            r |= (x & 0x7f) << s
            s += 7
            if not x & 0x80:
                if x & 0x40:
                    r -= 1 << s
                break
            if s > bits + 7:
                raise WasmError('sleb too long')
        return r

    def name(self):
        n = self.u32()
        s = self.b[self.pos:self.pos + n]
        self.pos += n
        return s.decode('utf-8', errors='replace')

    def take(self, n):
        s = self.b[self.pos:self.pos + n]
        self.pos += n
        return s


class Func:
    def __init__(self, index, typeidx):
        self.index = index
        self.typeidx = typeidx
        self.locals = []     # value types of declared locals (after the parameters)
        self.code = []       # list of (op, imm)
        self.match = {}      # pc of block/loop/if -> (else_pc or None, end_pc)
        self.name = None
        self.params = []
        self.results = []

    @property
    def ninstr(self):
        return len(self.code)


class Module:
    def __init__(self):
        self.types = []
        self.imports = []    # (module, name, typeidx)
        self.funcs = []      # defined functions
        self.exports = {}    # name -> (kind, index)
        self.globals = []    # (valtype, mutable, init value)
        self.data = []       # (offset, bytes)
        self.mem_min = 0

    def func(self, idx):
        n = len(self.imports)
        if idx < n:
            return None
        return self.funcs[idx - n]

    @property
    def data_end(self):
        g = self.exports.get('__data_end')
        if g and g[0] == 3:
            return self.globals[g[1]][2] & 0xffffffff
        return max([o + len(b) for o, b in self.data] + [NULL_PAGE])


_MEM_OPS = {
    0x28: ('load', 32, 4, None), 0x29: ('load', 64, 8, None), 0x2a: ('fload', 32, 4, None), 0x2b: ('fload', 64, 8, None),
    0x2c: ('load', 32, 1, 's'), 0x2d: ('load', 32, 1, 'u'), 0x2e: ('load', 32, 2, 's'), 0x2f: ('load', 32, 2, 'u'),
    0x30: ('load', 64, 1, 's'), 0x31: ('load', 64, 1, 'u'), 0x32: ('load', 64, 2, 's'), 0x33: ('load', 64, 2, 'u'),
    0x34: ('load', 64, 4, 's'), 0x35: ('load', 64, 4, 'u'),
    0x36: ('store', 32, 4, None), 0x37: ('store', 64, 8, None), 0x38: ('fstore', 32, 4, None), 0x39: ('fstore', 64, 8, None),
    0x3a: ('store', 32, 1, None), 0x3b: ('store', 32, 2, None),
    0x3c: ('store', 64, 1, None), 0x3d: ('store', 64, 2, None), 0x3e: ('store', 64, 4, None),
}


def _decode_code(r, end, fn):
    code = []
    ctl = []
    while r.pos < end:
        op = r.byte()
        pc = len(code)
        if op in (0x02, 0x03, 0x04):
            bt = r.byte()
            if bt != 0x40 and bt not in VT_BITS:
                raise WasmError('block type %#x not supported' % bt)
            code.append((op, bt))
            ctl.append(pc)
            fn.match[pc] = [None, None]
        elif op == 0x05:
            code.append((op, None))
            fn.match[ctl[-1]][0] = pc
        elif op == 0x0b:
            code.append((op, None))
            if ctl:
                fn.match[ctl.pop()][1] = pc
            else:
                if r.pos != end:
                    raise WasmError('code after function end')
        elif op in (0x0c, 0x0d, 0x10, 0x20, 0x21, 0x22, 0x23, 0x24):
            code.append((op, r.u32()))
        elif op == 0x11:
            code.append((op, (r.u32(), r.byte())))
        elif op in _MEM_OPS:
            al = r.u32()
            off = r.u32()
            code.append((op, off))
        elif op == 0x41:
            code.append((op, r.sleb(32) & 0xffffffff))
        elif op == 0x42:
            code.append((op, r.sleb(64) & 0xffffffffffffffff))
        elif op == 0x43:
            code.append((op, struct.unpack('<I', r.take(4))[0]))
        elif op == 0x44:
            code.append((op, struct.unpack('<Q', r.take(8))[0]))
        elif op in (0x3f, 0x40):
            r.byte()
            code.append((op, None))
        elif op in (0x00, 0x01, 0x0f, 0x1a, 0x1b) or 0x45 <= op <= 0xc4:
            code.append((op, None))
        else:
            raise WasmError('opcode %#x not supported' % op)
    if ctl:
        raise WasmError('unbalanced control structure')
    return code


def decode(data):
    if data[:8] != b'\x00asm\x01\x00\x00\x00':
        raise WasmError('bad magic / version')
    m = Module()
    r = Reader(data, 8)
    functypes = []
    while r.pos < len(data):
        sid = r.byte()
        size = r.u32()
        end = r.pos + size
        s = Reader(data, r.pos, end)
        if sid == 1:
            for _ in range(s.u32()):
                if s.byte() != 0x60:
                    raise WasmError('bad func type')
                ps = [s.byte() for _ in range(s.u32())]
                rs = [s.byte() for _ in range(s.u32())]
                m.types.append((ps, rs))
        elif sid == 2:
            for _ in range(s.u32()):
                mod = s.name()
                nm = s.name()
                kind = s.byte()
                if kind != 0:
                    raise WasmError('non-function import')
                m.imports.append((mod, nm, s.u32()))
        elif sid == 3:
            functypes = [s.u32() for _ in range(s.u32())]
        elif sid == 5:
            n = s.u32()
            flag = s.byte()
            m.mem_min = s.u32()
            if flag & 1:
                s.u32()
        elif sid == 6:
            for _ in range(s.u32()):
                vt = s.byte()
                mut = s.byte()
                op = s.byte()
                if op == 0x41:
                    v = s.sleb(32)
                elif op == 0x42:
                    v = s.sleb(64)
                else:
                    raise WasmError('global init opcode %#x' % op)
                if s.byte() != 0x0b:
                    raise WasmError('global init not terminated')
                m.globals.append((vt, mut, v))
        elif sid == 7:
            for _ in range(s.u32()):
                nm = s.name()
                kind = s.byte()
                m.exports[nm] = (kind, s.u32())
        elif sid == 10:
            n = s.u32()
            if n != len(functypes):
                raise WasmError('function and code section lengths differ')
            for i in range(n):
                bsize = s.u32()
                bend = s.pos + bsize
                fn = Func(len(m.imports) + i, functypes[i])
                fn.params, fn.results = m.types[functypes[i]]
                for _ in range(s.u32()):
                    cnt = s.u32()
                    vt = s.byte()
                    fn.locals.extend([vt] * cnt)
                fn.code = _decode_code(s, bend, fn)
                m.funcs.append(fn)
        elif sid == 11:
            for _ in range(s.u32()):
                if s.byte() != 0:
                    raise WasmError('data segment kind')
                if s.byte() != 0x41:
                    raise WasmError('data offset expr')
                off = s.sleb(32) & 0xffffffff
                if s.byte() != 0x0b:
                    raise WasmError('data offset not terminated')
                n = s.u32()
                m.data.append((off, bytes(s.take(n))))
        elif sid == 0:
            pass
        else:
            raise WasmError('section %d not supported' % sid)
        r.pos = end
    return m


# ------------------------------------------------------------------------------------------------ executor
class Frame:
    __slots__ = ('fn', 'locals', 'stack', 'ctl', 'pc', 'visits', 'ret_arity')

    def __init__(self, fn, args):
        self.fn = fn
        self.locals = list(args) + [bv(0, VT_BITS[t]) for t in fn.locals]
        self.stack = []
        self.ctl = []      # (kind, start_pc, end_pc, stack height)
        self.pc = 0
        self.visits = {}

    def clone(self):
        f = Frame.__new__(Frame)
        f.fn = self.fn
        f.locals = list(self.locals)
        f.stack = list(self.stack)
        f.ctl = list(self.ctl)
        f.pc = self.pc
        f.visits = dict(self.visits)
        return f


class State:
    def __init__(self, solver, mem):
        self.solver = solver
        self.mem = mem
        self.pc = []
        self.frames = []
        self.events = []
        self.aux = {}
        self.pending = None

    def clone(self):
        s = State(self.solver, self.mem.clone())
        s.pc = list(self.pc)
        s.frames = [f.clone() for f in self.frames]
        s.events = list(self.events)
        s.aux = dict(self.aux)
        s.pending = self.pending
        return s


class Outcome:
    def __init__(self, kind, pc, ret, events, detail=None, mem=None):
        self.kind, self.pc, self.ret, self.events, self.detail, self.mem = kind, pc, ret, events, detail, mem

    def __repr__(self):
        return 'Outcome(%s, ret=%s, ev=%s, %s)' % (self.kind, self.ret, self.events, self.detail)


def _b2i(c, w=32):
    return z3.If(c, bv(1, w), bv(0, w))


_ICMP = {0x46: lambda a, b: a == b, 0x47: lambda a, b: a != b, 0x48: lambda a, b: a < b, 0x49: z3.ULT,
         0x4a: lambda a, b: a > b, 0x4b: z3.UGT, 0x4c: lambda a, b: a <= b, 0x4d: z3.ULE,
         0x4e: lambda a, b: a >= b, 0x4f: z3.UGE}


class Executor:
    def __init__(self, mod, summaries, solver=None, unroll=4, max_paths=4000, max_steps=400000):
        self.mod = mod
        self.summaries = summaries
        self.solver = solver or Solver()
        self.stats = self.solver.stats
        self.unroll = unroll
        self.max_paths = max_paths
        self.max_steps = max_steps
        self.called = set()
        self.encoded = set()

    def new_state(self):
        mem = Memory(32, 20)
        st = State(self.solver, mem)
        size = max(self.mod.data_end, NULL_PAGE)
        if size >= 1 << 20:
            raise Inconclusive('wasm data segment larger than 1 MiB')
        r = Region(0, size, 'data', 'data', [bv(0, 8)] * size)
        for off, b in self.mod.data:
            if off + len(b) > size:
                raise PathEnd('oob', 'data segment beyond __data_end')
            for i, c in enumerate(b):
                r.bytes[off + i] = bv(c, 8)
        mem.regions[0] = r
        return st

    # -- memory access (null page guard) ---------------------------------------------------
    def _guard(self, p):
        v = conc_val(p)
        if v is not None and v < NULL_PAGE:
            raise PathEnd('oob', 'access to address %d inside the null page' % v)

    def load(self, st, p, nb):
        self._guard(p)
        return st.mem.load(st, p, nb)

    def store(self, st, p, v, nb):
        self._guard(p)
        st.mem.store(st, p, v, nb)

    # -- driver ----------------------------------------------------------------------------
    def run(self, fidx, args, pre=None, st=None):
        if st is None:
            st = self.new_state()
        if pre is not None:
            st.pc.append(pre)
        fn = self.mod.func(fidx)
        if fn is None:
            raise Inconclusive('entry function is an import')
        if len(args) != len(fn.params):
            raise Inconclusive('wasm entry arity %d, given %d' % (len(fn.params), len(args)))
        for a, t in zip(args, fn.params):
            if t not in (I32, I64) or a.size() != VT_BITS[t]:
                raise Inconclusive('wasm entry parameter type')
        st.frames.append(Frame(fn, args))
        self.encoded.add(fidx)
        outcomes = []
        work = [st]
        steps = 0
        while work:
            s = work.pop()
            try:
                while True:
                    steps += 1
                    if steps > self.max_steps:
                        raise Inconclusive('step budget exceeded in wasm function %d' % fidx)
                    r = self.step(s, work)
                    if r is not None:
                        outcomes.append(r)
                        break
            except PathEnd as e:
                if e.kind != 'infeasible':
                    outcomes.append(Outcome(e.kind, s.pc, None, s.events, e.detail, s.mem))
            self.stats.paths += 1
            if len(outcomes) + len(work) > self.max_paths:
                raise Inconclusive('path budget exceeded in wasm function %d' % fidx)
        return outcomes

    def _side(self, s, fn):
        try:
            fn(s)
        except PathEnd as e:
            s.pending = e

    def branch(self, st, work, cond, then_fn, else_fn):
        c = z3.simplify(cond)
        if z3.is_true(c):
            return then_fn(st)
        if z3.is_false(c):
            return else_fn(st)
        t_ok, _ = st.solver.feasible(st.pc, c)
        f_ok, _ = st.solver.feasible(st.pc, z3.Not(c))
        if t_ok and f_ok:
            other = st.clone()
            other.pc.append(z3.Not(c))
            self._side(other, else_fn)
            work.append(other)
            st.pc.append(c)
            return then_fn(st)
        if t_ok:
            st.pc.append(c)
            return then_fn(st)
        if f_ok:
            st.pc.append(z3.Not(c))
            return else_fn(st)
        raise PathEnd('infeasible')

    def fork_value(self, st, work, cond, on_true, on_false):
        """For summaries: fork on cond; each side computes the call's result, which is pushed on that side's stack."""
        def push(fn):
            def go(s):
                r = fn(s)
                if r is not None:
                    s.frames[-1].stack.append(r)
                return None
            return go
        self.branch(st, work, cond, push(on_true), push(on_false))
        return PUSHED

    # -- helpers ---------------------------------------------------------------------------
    def pop(self, fr, bits):
        if not fr.stack:
            raise PathEnd('illtyped', 'operand stack underflow')
        v = fr.stack.pop()
        if v.size() != bits:
            raise PathEnd('illtyped', 'operand of %d bits where %d expected (function %d, pc %d)' % (v.size(), bits, fr.fn.index, fr.pc))
        return v

    def enter_then(self, fr, pc):
        n = fr.visits.get(pc, 0) + 1
        fr.visits[pc] = n
        if n > self.unroll + 1:
            raise PathEnd('bound', 'if-body at pc %d of function %d entered more than %d times' % (pc, fr.fn.index, self.unroll + 1))

    def do_br(self, st, depth):
        fr = st.frames[-1]
        if depth >= len(fr.ctl):
            # branch to the function label = return
            return self.do_return(st)
        for _ in range(depth):
            fr.ctl.pop()
        kind, start, end, height, arity = fr.ctl[-1]
        if kind == 'loop':
            del fr.stack[height:]
            fr.pc = start + 1
            n = fr.visits.get(('loop', start), 0) + 1
            fr.visits[('loop', start)] = n
            if n > 64 * (self.unroll + 2):
                raise PathEnd('bound', 'loop at pc %d iterated more than %d times' % (start, n - 1))
        else:
            vals = fr.stack[len(fr.stack) - arity:] if arity else []
            del fr.stack[height:]
            fr.stack.extend(vals)
            fr.ctl.pop()
            fr.pc = end + 1
        return None

    def do_return(self, st):
        fr = st.frames.pop()
        v = None
        if fr.fn.results:
            bits = VT_BITS[fr.fn.results[0]]
            if not fr.stack:
                raise PathEnd('illtyped', 'return without a value on the stack (function %d)' % fr.fn.index)
            v = fr.stack.pop()
            if v.size() != bits:
                raise PathEnd('illtyped', 'return value of %d bits where %d expected' % (v.size(), bits))
        if not st.frames:
            return Outcome('ret', st.pc, simp(v) if v is not None else None, st.events, None, st.mem)
        if v is not None:
            st.frames[-1].stack.append(v)
        return None

    def step(self, st, work):
        if st.pending is not None:
            e = st.pending
            st.pending = None
            raise e
        fr = st.frames[-1]
        code = fr.fn.code
        if fr.pc >= len(code):
            return self.do_return(st)
        op, imm = code[fr.pc]
        pc = fr.pc
        fr.pc += 1
        self.stats.instrs += 1
        S = fr.stack
        if op == 0x20:
            if imm >= len(fr.locals):
                raise PathEnd('illtyped', 'local index %d out of range' % imm)
            S.append(fr.locals[imm])
            return None
        if op in (0x21, 0x22):
            if imm >= len(fr.locals):
                raise PathEnd('illtyped', 'local index %d out of range' % imm)
            v = self.pop(fr, fr.locals[imm].size())
            fr.locals[imm] = simp(v)
            if op == 0x22:
                S.append(fr.locals[imm])
            return None
        if op == 0x41:
            S.append(bv(imm, 32))
            return None
        if op == 0x42:
            S.append(bv(imm, 64))
            return None
        if op in (0x43, 0x44) or 0x5b <= op <= 0x66 or 0x8b <= op <= 0xa6 or 0xa8 <= op <= 0xab or 0xae <= op <= 0xbf:
            raise Inconclusive('wasm floating-point instruction %#x' % op)
        if op in (0x02, 0x03):
            arity = 0 if imm == 0x40 else 1
            e = fr.fn.match[pc][1]
            fr.ctl.append(('loop' if op == 0x03 else 'block', pc, e, len(S), 0 if op == 0x03 else arity))
            return None
        if op == 0x04:
            c = self.pop(fr, 32)
            els, end = fr.fn.match[pc]
            arity = 0 if imm == 0x40 else 1

            def then(s):
                f = s.frames[-1]
                self.enter_then(f, pc)
                f.ctl.append(('if', pc, end, len(f.stack), arity))

            def other(s):
                f = s.frames[-1]
                if els is None:
                    f.pc = end + 1
                else:
                    f.ctl.append(('if', pc, end, len(f.stack), arity))
                    f.pc = els + 1
            self.branch(st, work, c != bv(0, 32), then, other)
            return None
        if op == 0x05:
            # end of the then-part: skip the else-part
            kind, start, end, height, arity = fr.ctl.pop()
            fr.pc = end + 1
            return None
        if op == 0x0b:
            if fr.ctl:
                fr.ctl.pop()
                return None
            return self.do_return(st)
        if op == 0x0c:
            return self.do_br(st, imm)
        if op == 0x0d:
            c = self.pop(fr, 32)
            res = []

            def taken(s):
                r = self.do_br(s, imm)
                if r is not None:
                    res.append(r)
            self.branch(st, work, c != bv(0, 32), taken, lambda s: None)
            return res[0] if res else None
        if op == 0x0f:
            return self.do_return(st)
        if op == 0x00:
            raise PathEnd('trap', 'unreachable executed in function %d' % fr.fn.index)
        if op == 0x01:
            return None
        if op == 0x1a:
            if not S:
                raise PathEnd('illtyped', 'drop on empty stack')
            S.pop()
            return None
        if op == 0x1b:
            c = self.pop(fr, 32)
            b = S.pop()
            a = S.pop()
            if a.size() != b.size():
                raise PathEnd('illtyped', 'select operands differ in type')
            S.append(z3.If(c != bv(0, 32), a, b))
            return None
        if op == 0x23:
            g = self.mod.globals[imm]
            S.append(bv(g[2], VT_BITS[g[0]]))
            return None
        if op in _MEM_OPS:
            kind, bits, nb, ext = _MEM_OPS[op]
            if kind in ('fload', 'fstore'):
                raise Inconclusive('wasm floating-point memory instruction')
            if kind == 'load':
                p = self.pop(fr, 32) + bv(imm, 32)
                v = self.load(st, p, nb)
                if nb * 8 < bits:
                    v = z3.SignExt(bits - nb * 8, v) if ext == 's' else z3.ZeroExt(bits - nb * 8, v)
                S.append(simp(v))
            else:
                v = self.pop(fr, bits)
                p = self.pop(fr, 32) + bv(imm, 32)
                if nb * 8 < bits:
                    v = z3.Extract(nb * 8 - 1, 0, v)
                self.store(st, p, v, nb)
            return None
        if op == 0x45 or op == 0x50:
            w = 32 if op == 0x45 else 64
            a = self.pop(fr, w)
            S.append(_b2i(a == bv(0, w)))
            return None
        if 0x46 <= op <= 0x4f or 0x51 <= op <= 0x5a:
            w = 32 if op <= 0x4f else 64
            k = op if w == 32 else op - 0x51 + 0x46
            b = self.pop(fr, w)
            a = self.pop(fr, w)
            S.append(_b2i(_ICMP[k](a, b)))
            return None
        if 0x67 <= op <= 0x69 or 0x79 <= op <= 0x7b:
            raise Inconclusive('wasm clz/ctz/popcnt')
        if 0x6a <= op <= 0x78 or 0x7c <= op <= 0x8a:
            w = 32 if op <= 0x78 else 64
            k = op - (0x6a if w == 32 else 0x7c)
            b = self.pop(fr, w)
            a = self.pop(fr, w)
            if k in (3, 4, 5, 6):
                signed = k in (3, 5)
                isdiv = k in (3, 4)
                bad = b == bv(0, w)
                if k == 3:
                    bad = z3.Or(bad, z3.And(a == bv(1 << (w - 1), w), b == bv(-1, w)))
                fidx = fr.fn.index

                def ok(s):
                    if k == 3:
                        r = a / b
                    elif k == 4:
                        r = z3.UDiv(a, b)
                    elif k == 5:
                        r = z3.If(b == bv(-1, w), bv(0, w), z3.SRem(a, b))
                    else:
                        r = z3.URem(a, b)
                    s.frames[-1].stack.append(simp(r))

                def trap(s):
                    raise PathEnd('trap', 'integer divide by zero / overflow in function %d' % fidx)
                self.branch(st, work, z3.Not(bad), ok, trap)
                return None
            cnt = b & bv(w - 1, w)
            r = {0: lambda: a + b, 1: lambda: a - b, 2: lambda: a * b, 7: lambda: a & b, 8: lambda: a | b, 9: lambda: a ^ b,
                 10: lambda: a << cnt, 11: lambda: a >> cnt, 12: lambda: z3.LShR(a, cnt),
                 13: lambda: z3.RotateLeft(a, cnt), 14: lambda: z3.RotateRight(a, cnt)}[k]()
            S.append(simp(r))
            return None
        if op == 0xa7:
            S.append(z3.Extract(31, 0, self.pop(fr, 64)))
            return None
        if op == 0xac:
            S.append(z3.SignExt(32, self.pop(fr, 32)))
            return None
        if op == 0xad:
            S.append(z3.ZeroExt(32, self.pop(fr, 32)))
            return None
        if op in (0xc0, 0xc1):
            n = 8 if op == 0xc0 else 16
            a = self.pop(fr, 32)
            S.append(z3.SignExt(32 - n, z3.Extract(n - 1, 0, a)))
            return None
        if op in (0xc2, 0xc3, 0xc4):
            n = {0xc2: 8, 0xc3: 16, 0xc4: 32}[op]
            a = self.pop(fr, 64)
            S.append(z3.SignExt(64 - n, z3.Extract(n - 1, 0, a)))
            return None
        if op == 0x10:
            return self.do_call(st, work, imm)
        raise Inconclusive('wasm opcode %#x not supported' % op)

    def do_call(self, st, work, idx):
        fr = st.frames[-1]
        nimp = len(self.mod.imports)
        if idx < nimp:
            _, name, ti = self.mod.imports[idx]
            ps, rs = self.mod.types[ti]
        else:
            fn = self.mod.func(idx)
            ps, rs = fn.params, fn.results
        argv = []
        for t in reversed(ps):
            argv.append(self.pop(fr, VT_BITS[t]))
        argv.reverse()
        if idx >= nimp:
            if len(st.frames) > 24:
                raise PathEnd('bound', 'call depth > 24')
            nf = Frame(fn, argv)
            st.frames.append(nf)
            self.encoded.add(idx)
            return None
        self.called.add(name)
        summ = self.summaries.get(name)
        if summ is None:
            raise Inconclusive('call to import %s: no summary' % name)
        r = summ(self, st, argv, work)
        if r is PUSHED:
            return None
        if rs:
            if r is None:
                raise Inconclusive('summary of %s returned no value' % name)
            w = VT_BITS[rs[0]]
            if r.size() != w:
                raise Inconclusive('summary of %s returned %d bits, import declares %d' % (name, r.size(), w))
            st.frames[-1].stack.append(r)
        return None


# ------------------------------------------------------------------------------------------------ import summaries
# Contracts for the functions runtime/wasm/runtime.js provides, at the same abstraction as lirsym/rtsum.py gives the C
# runtime (an array handle is a header region whose `meta` is the abstract ArrObj).  runtime.js never frees.

def _arr(ex, st, p, who):
    v = conc_val(p)
    if v is None:
        raise Inconclusive('%s: symbolic array handle' % who)
    if v == 0:
        return None, None
    rid = v >> st.mem.shift
    r = st.mem.regions.get(rid)
    if r is None or not isinstance(r.meta, ArrObj) or (v & ((1 << st.mem.shift) - 1)) != 0:
        raise PathEnd('oob', '%s: handle %#x is not an array header' % (who, v))
    return r.meta, r


def _sync_header(st, h, o):
    d = st.mem.regions[o.data] if o.data is not None else None
    vals = [(st.mem.base(d.id) if d is not None else 0), o.length, o.cap, o.elem_size]
    for k, v in enumerate(vals):
        for i in range(4):
            h.bytes[4 * k + i] = bv((v >> (8 * i)) & 0xff, 8)


def w_alloc(ex, st, a, work):
    n = conc_val(a[0])
    if n is None:
        raise Inconclusive('ferret_alloc with symbolic size')
    r = st.mem.alloc(max(n, 1), name='heap', kind='heap', init=[bv(0, 8)] * max(n, 1))
    return st.mem.ptr(r)


def w_memcpy(ex, st, a, work):
    n = conc_val(a[2])
    if n is None:
        raise Inconclusive('ferret_memcpy with symbolic length')
    if n:
        v = ex.load(st, a[1], n)
        ex.store(st, a[0], v, n)
    return None


def w_array_new(ex, st, a, work):
    es, cap = conc_val(a[0]), conc_val(a[1])
    if es is None or cap is None:
        raise Inconclusive('ferret_array_new with symbolic size')
    if cap >= 1 << 31:
        cap -= 1 << 32
    cap = max(cap, 0)
    data = st.mem.alloc(max(es * cap, 1), name='arrdata', kind='heap', init=[bv(0, 8)] * max(es * cap, 1)) if es * cap > 0 else None
    h = st.mem.alloc(16, name='arrhdr', kind='heap')
    o = ArrObj(es, cap, data.id if data is not None else None)
    h.meta = o
    _sync_header(st, h, o)
    return st.mem.ptr(h)


def w_array_append(ex, st, a, work):
    o, h = _arr(ex, st, a[0], 'ferret_array_append')
    if o is None:
        raise PathEnd('oob', 'ferret_array_append on a null array')
    if o.length >= o.cap:
        ncap = o.cap * 2 if o.cap > 0 else 1
        new = st.mem.alloc(max(o.elem_size * ncap, 1), name='arrdata', kind='heap', init=[bv(0, 8)] * max(o.elem_size * ncap, 1))
        if o.data is not None:
            old = st.mem.regions[o.data]
            for i in range(min(old.size, o.length * o.elem_size)):
                new.bytes[i] = old.get(i)
        o.data = new.id
        o.cap = ncap
    d = st.mem.regions[o.data]
    if o.elem_size:
        v = ex.load(st, a[1], o.elem_size)
        ex.store(st, st.mem.ptr(d, o.length * o.elem_size), v, o.elem_size)
    o.length += 1
    _sync_header(st, h, o)
    return bv(1, 32)


def w_array_len(ex, st, a, work):
    o, h = _arr(ex, st, a[0], 'ferret_array_len')
    if o is None:
        raise PathEnd('oob', 'ferret_array_len on a null array')
    return bv(o.length, 32)


def w_array_get(ex, st, a, work):
    o, h = _arr(ex, st, a[0], 'ferret_array_get')
    if o is None:
        raise PathEnd('oob', 'ferret_array_get on a null array')
    idx = a[1]
    n = o.length
    inr = z3.And(idx >= 0, idx < bv(n, 32)) if n > 0 else z3.BoolVal(False)

    def on_in(s):
        oo, _ = _arr(ex, s, a[0], 'ferret_array_get')
        d = s.mem.regions[oo.data]
        return s.mem.ptr(d) + idx * bv(oo.elem_size, 32)

    def on_out(s):
        s.events.append(('rt_refused', 'array_get'))
        return bv(0, 32)
    return ex.fork_value(st, work, inr, on_in, on_out)


def w_array_set(ex, st, a, work):
    o, h = _arr(ex, st, a[0], 'ferret_array_set')
    if o is None:
        raise PathEnd('oob', 'ferret_array_set on a null array')
    idx = a[1]
    n = o.length
    inr = z3.And(idx >= 0, idx < bv(n, 32)) if n > 0 else z3.BoolVal(False)

    def on_in(s):
        oo, _ = _arr(ex, s, a[0], 'ferret_array_set')
        d = s.mem.regions[oo.data]
        p = s.mem.ptr(d) + idx * bv(oo.elem_size, 32)
        v = ex.load(s, a[2], oo.elem_size)
        ex.store(s, p, v, oo.elem_size)
        return bv(1, 32)

    def on_out(s):
        s.events.append(('rt_refused', 'array_set'))
        return bv(0, 32)
    return ex.fork_value(st, work, inr, on_in, on_out)


def w_string_len(ex, st, a, work):
    s = st.mem.read_cstr(st, a[0])
    if s is None:
        raise Inconclusive('ferret_string_len on a non-concrete string')
    return bv(len(s), 32)


def w_panic(ex, st, a, work):
    msg = st.mem.read_cstr(st, a[0]) if conc_val(a[0]) not in (None, 0) else b'panic'
    st.events.append(('panic', msg))
    raise PathEnd('panic', msg)


def _print(ex, st, a, nl):
    if conc_val(a[0]) == 0:
        return None
    o, h = _arr(ex, st, a[0], 'ferret_std_io_Print')
    items = []
    d = st.mem.regions[o.data] if o.data is not None else None
    for i in range(o.length):
        base = st.mem.ptr(d, i * o.elem_size)
        tag = conc_val(ex.load(st, base, 4))
        if tag is None or tag not in TAGS:
            raise Inconclusive('print of a value with symbolic or unknown tag %r' % tag)
        kind, bits = TAGS[tag]
        if kind == 'str':
            p = ex.load(st, base + 4, 4)
            s = st.mem.read_cstr(st, p)
            if s is None:
                raise Inconclusive('print of a non-concrete string')
            items.append(('str', s))
        elif kind == 'bool':
            items.append(('bool', ex.load(st, base + 4, 1) != 0))
        elif bits > 64:
            raise Inconclusive('print of a %d-bit integer on wasm (runtime.js prints a placeholder)' % bits)
        else:
            items.append((kind + str(bits), z3.simplify(ex.load(st, base + 4, bits // 8))))
    st.events.append(('print', items, nl))
    return None


def w_println(ex, st, a, work):
    return _print(ex, st, a, True)


def w_print(ex, st, a, work):
    return _print(ex, st, a, True)   # runtime.js: Print and Println both emit one console.log line


WASM_SUMMARIES = {
    'ferret_alloc': w_alloc,
    'ferret_memcpy': w_memcpy,
    'ferret_array_new': w_array_new,
    'ferret_array_append': w_array_append,
    'ferret_array_len': w_array_len,
    'ferret_array_get': w_array_get,
    'ferret_array_set': w_array_set,
    'ferret_string_len': w_string_len,
    'ferret_global_panic': w_panic,
    'ferret_std_io_Println': w_println,
    'ferret_std_io_Print': w_print,
}
