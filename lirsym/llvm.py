"""LLVM IR front end for lirsym: parser for clang-14 -O0 typed-pointer IR of the runtime C sources and a path-wise
symbolic executor over the region memory of core.py.

nsw/nuw flags are ignored (wrapping semantics); floating point is supported only on concrete operands."""
import re
import struct as _struct
import z3
from .core import Memory, PathEnd, Inconclusive, Solver, Stats, bv, conc_val, fresh_bv, simp

_TOK = re.compile(r'\s*(c"(?:[^"\\]|\\.)*"|"(?:[^"\\]|\\.)*"|[%@][-a-zA-Z$._0-9]+|[%@]"[^"]*"|-?\d+\.\d+(?:e[+-]?\d+)?|0x[0-9A-Fa-f]+|-?\d+|\.\.\.|[a-zA-Z_][a-zA-Z0-9_.]*|[=,(){}\[\]<>*!#])')


def tokenize(s):
    out = []
    pos = 0
    n = len(s)
    while pos < n:
        m = _TOK.match(s, pos)
        if not m:
            if s[pos:].strip() == '' or s[pos:].lstrip().startswith(';'):
                break
            raise ValueError('llvm: cannot tokenize %r' % s[pos:pos + 40])
        out.append(m.group(1))
        pos = m.end()
    return out


# ---------------------------------------------------------------------------------------------- types
class TypeCtx:
    def __init__(self):
        self.named = {}

    def parse(self, t, i):
        """parse a type starting at tokens t[i]; returns (type, next_index)."""
        tok = t[i]
        if tok == 'void':
            ty = ('void',)
            i += 1
        elif re.fullmatch(r'i\d+', tok):
            ty = ('int', int(tok[1:]))
            i += 1
        elif tok in ('double', 'float', 'x86_fp80', 'fp128', 'half'):
            ty = ('fp', {'double': 64, 'float': 32, 'x86_fp80': 128, 'fp128': 128, 'half': 16}[tok])
            i += 1
        elif tok == '[':
            n = int(t[i + 1])
            assert t[i + 2] == 'x'
            el, j = self.parse(t, i + 3)
            assert t[j] == ']'
            ty = ('arr', n, el)
            i = j + 1
        elif tok == '{':
            fields = []
            j = i + 1
            while t[j] != '}':
                if t[j] == ',':
                    j += 1
                    continue
                f, j = self.parse(t, j)
                fields.append(f)
            ty = ('struct', tuple(fields))
            i = j + 1
        elif tok == '<':
            raise Inconclusive('llvm vector/packed types')
        elif tok.startswith('%'):
            ty = ('named', tok)
            i += 1
        elif tok == 'ptr':
            ty = ('ptr', ('int', 8))
            i += 1
        elif tok == 'opaque':
            ty = ('struct', ())
            i += 1
        else:
            raise ValueError('llvm: type expected at %r' % t[i:i + 6])
        # suffixes: pointers and function types
        while i < len(t):
            if t[i] == '*':
                ty = ('ptr', ty)
                i += 1
            elif t[i] == '(':
                # function type: ret (params)
                j = i + 1
                params = []
                while t[j] != ')':
                    if t[j] == ',':
                        j += 1
                        continue
                    if t[j] == '...':
                        j += 1
                        continue
                    p, j = self.parse(t, j)
                    params.append(p)
                ty = ('func', ty, tuple(params))
                i = j + 1
            else:
                break
        return ty, i

    def resolve(self, ty):
        while ty[0] == 'named':
            ty = self.named[ty[1]]
        return ty

    def align(self, ty):
        ty = self.resolve(ty)
        k = ty[0]
        if k == 'int':
            b = (ty[1] + 7) // 8
            a = 1
            while a < b:
                a *= 2
            return min(a, 16)
        if k == 'fp':
            return min(ty[1] // 8, 16)
        if k in ('ptr', 'func'):
            return 8
        if k == 'arr':
            return self.align(ty[2])
        if k == 'struct':
            return max([self.align(f) for f in ty[1]] or [1])
        raise ValueError(ty)

    def size(self, ty):
        ty = self.resolve(ty)
        k = ty[0]
        if k == 'int':
            b = (ty[1] + 7) // 8
            a = 1
            while a < b:
                a *= 2
            return a
        if k == 'fp':
            return ty[1] // 8
        if k in ('ptr', 'func'):
            return 8
        if k == 'arr':
            return ty[1] * self.size(ty[2])
        if k == 'struct':
            off = 0
            for f in ty[1]:
                a = self.align(f)
                off = (off + a - 1) // a * a
                off += self.size(f)
            a = self.align(ty)
            return (off + a - 1) // a * a
        if k == 'void':
            return 1
        raise ValueError(ty)

    def field_offset(self, ty, idx):
        ty = self.resolve(ty)
        off = 0
        for k, f in enumerate(ty[1]):
            a = self.align(f)
            off = (off + a - 1) // a * a
            if k == idx:
                return off, f
            off += self.size(f)
        raise IndexError(idx)

    def bits(self, ty):
        ty = self.resolve(ty)
        if ty[0] == 'int':
            return ty[1]
        if ty[0] in ('ptr', 'func'):
            return 64
        return self.size(ty) * 8


class Instr:
    __slots__ = ('dst', 'op', 't', 'line')

    def __init__(self, dst, op, toks, line):
        self.dst, self.op, self.t, self.line = dst, op, toks, line

    def __repr__(self):
        return self.line.strip()


class Block:
    def __init__(self, name):
        self.name = name
        self.instrs = []


class Function:
    def __init__(self, name, ret, params):
        self.name, self.ret, self.params = name, ret, params  # params: list of (type, name, attrs)
        self.blocks = {}
        self.order = []
        self.ninstr = 0


class Module:
    def __init__(self):
        self.tc = TypeCtx()
        self.funcs = {}
        self.globals = {}   # name -> (type, init tokens)
        self.declared = set()


_ATTRS = {'noundef', 'nonnull', 'noalias', 'nocapture', 'readonly', 'writeonly', 'signext', 'zeroext', 'returned', 'immarg', 'inreg', 'readnone', 'nofree', 'nest'}


def _skip_attrs(t, i, attrs=None):
    while i < len(t):
        if t[i] in _ATTRS:
            if attrs is not None:
                attrs.add(t[i])
            i += 1
        elif t[i] in ('align', 'dereferenceable', 'dereferenceable_or_null'):
            i += 1
            if t[i] == '(':
                while t[i] != ')':
                    i += 1
                i += 1
            else:
                i += 1
        elif t[i] in ('byval', 'sret', 'byref', 'inalloca', 'preallocated', 'elementtype'):
            if attrs is not None:
                attrs.add(t[i])
            i += 1
            if i < len(t) and t[i] == '(':
                d = 0
                while True:
                    if t[i] == '(':
                        d += 1
                    elif t[i] == ')':
                        d -= 1
                        if d == 0:
                            break
                    i += 1
                i += 1
        else:
            break
    return i


def parse(text):
    mod = Module()
    tc = mod.tc
    lines = text.split('\n')
    i = 0
    cur = None
    blk = None
    while i < len(lines):
        raw = lines[i]
        i += 1
        s = raw.strip()
        if not s or s.startswith(';') or s.startswith('source_filename') or s.startswith('target ') or s.startswith('attributes ') or s.startswith('!'):
            continue
        if cur is None:
            if s.startswith('%') and ' = type ' in s:
                name = s.split(' = type ')[0].strip()
                t = tokenize(s.split(' = type ', 1)[1])
                ty, _ = tc.parse(t, 0)
                tc.named[name] = ty
                continue
            if s.startswith('@'):
                t = tokenize(s)
                name = t[0]
                j = 2
                while t[j] in ('private', 'internal', 'external', 'dso_local', 'unnamed_addr', 'local_unnamed_addr', 'constant', 'global', 'common', 'hidden', 'linkonce_odr', 'weak', 'available_externally', 'thread_local'):
                    j += 1
                ty, j = tc.parse(t, j)
                init = t[j:]
                # cut trailing ", align N" etc.
                mod.globals[name] = (ty, init)
                continue
            if s.startswith('declare'):
                m = re.search(r'(@[-a-zA-Z$._0-9]+)\s*\(', s)
                if m:
                    mod.declared.add(m.group(1))
                continue
            if s.startswith('define'):
                t = tokenize(s)
                j = 1
                while t[j] in ('internal', 'dso_local', 'private', 'hidden', 'linkonce_odr', 'weak', 'available_externally', 'noundef', 'signext', 'zeroext', 'noalias', 'nonnull', 'unnamed_addr', 'local_unnamed_addr'):
                    j += 1
                j = _skip_attrs(t, j)
                ret, j = tc.parse(t, j)
                # careful: the parser above may have swallowed "(params)" as a function type
                if ret[0] == 'func' and t[j].startswith('@') is False:
                    pass
                name = t[j]
                j += 1
                assert t[j] == '(', s
                j += 1
                params = []
                while t[j] != ')':
                    if t[j] == ',':
                        j += 1
                        continue
                    if t[j] == '...':
                        j += 1
                        continue
                    pty, j = tc.parse(t, j)
                    attrs = set()
                    j = _skip_attrs(t, j, attrs)
                    pname = None
                    if t[j].startswith('%'):
                        pname = t[j]
                        j += 1
                    params.append((pty, pname, attrs))
                # unnamed params are numbered %0, %1 ...
                k = 0
                fixed = []
                for pty, pname, attrs in params:
                    if pname is None:
                        pname = '%%%d' % k
                    if re.fullmatch(r'%\d+', pname):
                        k = int(pname[1:]) + 1
                    fixed.append((pty, pname, attrs))
                cur = Function(name, ret, fixed)
                blk = Block('%%%d' % k if True else 'entry')
                cur._entry_num = k
                cur.blocks[blk.name] = blk
                cur.order.append(blk.name)
                continue
            continue
        if s == '}':
            mod.funcs[cur.name] = cur
            cur = None
            continue
        m = re.match(r'^([-a-zA-Z$._0-9]+):', s)
        if m:
            blk = Block('%' + m.group(1))
            cur.blocks[blk.name] = blk
            cur.order.append(blk.name)
            continue
        code = s.split(' ;')[0] if ' ;' in s and 'c"' not in s else s
        code = re.sub(r',\s*![a-zA-Z.]+\s+!\d+', '', code)
        t = tokenize(code)
        if len(t) > 2 and t[1] == '=':
            dst = t[0]
            op = t[2]
            rest = t[3:]
        else:
            dst = None
            op = t[0]
            rest = t[1:]
        if op in ('tail', 'musttail', 'notail'):
            op = rest[0]
            rest = rest[1:]
        blk.instrs.append(Instr(dst, op, rest, s))
        cur.ninstr += 1
    return mod


UMUL64 = z3.Function('umul64', z3.BitVecSort(64), z3.BitVecSort(64), z3.BitVecSort(128))


def _zext64(t):
    """x if t is ZeroExt(64, x) with x of 64 bits (possibly after simplification into Concat(0, x))."""
    t = z3.simplify(t)
    if z3.is_bv_value(t) and t.as_long() < (1 << 64):
        return bv(t.as_long(), 64)
    if z3.is_app_of(t, z3.Z3_OP_ZERO_EXT) and t.arg(0).size() == 64:
        return t.arg(0)
    if z3.is_app_of(t, z3.Z3_OP_CONCAT) and t.num_args() == 2 and z3.is_bv_value(t.arg(0)) and t.arg(0).as_long() == 0 and t.arg(1).size() == 64:
        return t.arg(1)
    if t.size() == 128:
        hi = z3.simplify(z3.Extract(127, 64, t))
        if z3.is_bv_value(hi) and hi.as_long() == 0:
            return z3.simplify(z3.Extract(63, 0, t))
    return None


class Frame:
    def __init__(self, fn):
        self.fn = fn
        self.regs = {}
        self.block = fn.order[0]
        self.prev = None
        self.idx = 0
        self.visits = {}
        self.allocas = []
        self.ret_dst = None

    def clone(self):
        f = Frame.__new__(Frame)
        f.fn, f.regs, f.block, f.prev, f.idx = self.fn, dict(self.regs), self.block, self.prev, self.idx
        f.visits = dict(self.visits)
        f.allocas = list(self.allocas)
        f.ret_dst = self.ret_dst
        return f


class State:
    def __init__(self, solver, mem):
        self.solver, self.mem = solver, mem
        self.pc = []
        self.frames = []
        self.events = []
        self.pending = None
        self.aux = {}

    def clone(self):
        s = State(self.solver, self.mem.clone())
        s.pc = list(self.pc)
        s.frames = [f.clone() for f in self.frames]
        s.events = list(self.events)
        s.pending = self.pending
        s.aux = dict(self.aux)
        return s


class Outcome:
    def __init__(self, kind, st, ret=None, detail=None):
        self.kind, self.pc, self.ret, self.events, self.detail, self.mem, self.state = kind, st.pc, ret, st.events, detail, st.mem, st

    def __repr__(self):
        return 'Outcome(%s ret=%s %s)' % (self.kind, self.ret, self.detail)


_ICMP = {'eq': lambda a, b: a == b, 'ne': lambda a, b: a != b, 'ult': z3.ULT, 'ule': z3.ULE, 'ugt': z3.UGT, 'uge': z3.UGE,
         'slt': lambda a, b: a < b, 'sle': lambda a, b: a <= b, 'sgt': lambda a, b: a > b, 'sge': lambda a, b: a >= b}
_FLAGS = {'nsw', 'nuw', 'exact', 'inbounds', 'volatile', 'fast', 'nnan', 'ninf', 'nsz', 'arcp', 'contract', 'afn', 'reassoc', 'disjoint', 'nneg', 'samesign'}


class Executor:
    def __init__(self, mod, summaries, solver=None, unroll=64, max_paths=20000, max_steps=3000000):
        self.mod = mod
        self.tc = mod.tc
        self.summaries = summaries
        self.solver = solver or Solver()
        self.stats = self.solver.stats
        self.unroll = unroll
        self.max_paths = max_paths
        self.max_steps = max_steps
        self.global_regions = {}
        self.faddr = {}
        self.encoded = set()
        self.called = set()
        self.axiom_div = False  # 128-bit udiv/urem as fresh (q, r) constrained by a = q*b + r, r < b
        self._divcache = {}
        self.uf_mul = False    # abstract 64x64->128 products by an uninterpreted function (sound: equal for every interpretation)
        self.uf_terms = []
        self.overrides = {}    # defined functions replaced by a contract (assume-guarantee)
        self.stop_at = None   # (function name, block label) : pause a path when it enters this block
        self.on_stop = None

    # ------------------------------------------------------------------ setup
    def func_addr(self, name):
        if name not in self.faddr:
            self.faddr[name] = 0x7ff0000000000000 + 16 * (len(self.faddr) + 1)
        return self.faddr[name]

    def func_by_addr(self, v):
        for k, a in self.faddr.items():
            if a == v:
                return k
        return None

    def new_state(self):
        mem = Memory(64, 32)
        st = State(self.solver, mem)
        self.global_regions = {}
        for name, (ty, init) in self.mod.globals.items():
            n = max(self.tc.size(ty), 1)
            self.global_regions[name] = mem.alloc(n, name=name, kind='data')
        for name, (ty, init) in self.mod.globals.items():
            r = self.global_regions[name]
            data = self._const_bytes(ty, init, 0)[0]
            for k in range(r.size):
                r.bytes[k] = bv(data[k] if k < len(data) else 0, 8)
        return st

    def _const_bytes(self, ty, t, i):
        """bytes of a constant initialiser of type ty at tokens t[i:]; returns (list of ints, next index)."""
        tc = self.tc
        rt = tc.resolve(ty)
        n = tc.size(ty)
        tok = t[i] if i < len(t) else 'zeroinitializer'
        if tok in ('zeroinitializer', 'undef', 'null', 'poison'):
            return [0] * n, i + 1
        if tok.startswith('c"'):
            raw = tok[2:-1]
            out = []
            k = 0
            while k < len(raw):
                if raw[k] == '\\':
                    out.append(int(raw[k + 1:k + 3], 16))
                    k += 3
                else:
                    out.append(ord(raw[k]))
                    k += 1
            return out + [0] * (n - len(out)), i + 1
        if rt[0] == 'int':
            if tok in ('true', 'false'):
                v = 1 if tok == 'true' else 0
            else:
                v = int(tok)
            return [(v >> (8 * k)) & 0xff for k in range(n)], i + 1
        if rt[0] == 'ptr' or rt[0] == 'func':
            if tok.startswith('@'):
                if tok in self.global_regions:
                    v = (self.global_regions[tok].id) << 32
                else:
                    v = self.func_addr(tok)
                return [(v >> (8 * k)) & 0xff for k in range(8)], i + 1
            if tok in ('getelementptr', 'bitcast'):
                # constant expression: evaluate to a concrete pointer
                v, j = self._constexpr(t, i)
                return [(v >> (8 * k)) & 0xff for k in range(8)], j
        if rt[0] == 'arr' and tok == '[':
            out = []
            j = i + 1
            while t[j] != ']':
                if t[j] == ',':
                    j += 1
                    continue
                ety, j = tc.parse(t, j)
                b, j = self._const_bytes(ety, t, j)
                out += b
            return out + [0] * (n - len(out)), j + 1
        if rt[0] == 'struct' and tok == '{':
            out = [0] * n
            j = i + 1
            k = 0
            while t[j] != '}':
                if t[j] == ',':
                    j += 1
                    continue
                fty, j = tc.parse(t, j)
                b, j = self._const_bytes(fty, t, j)
                off, _ = tc.field_offset(ty, k)
                out[off:off + len(b)] = b
                k += 1
            return out, j + 1
        if rt[0] == 'fp':
            if tok.startswith('0x'):
                v = int(tok, 16)
            else:
                v = _struct.unpack('<Q', _struct.pack('<d', float(tok)))[0]
            if rt[1] == 32:
                v = _struct.unpack('<I', _struct.pack('<f', _struct.unpack('<d', _struct.pack('<Q', v))[0]))[0]
            return [(v >> (8 * k)) & 0xff for k in range(n)], i + 1
        raise Inconclusive('llvm: global initialiser %r' % t[i:i + 5])

    def _constexpr(self, t, i):
        """evaluate `getelementptr inbounds (T, T* @g, i64 0, i64 k)` / `bitcast (T* @g to U*)` -> (int, next)."""
        if t[i] == 'bitcast':
            assert t[i + 1] == '('
            ty, j = self.tc.parse(t, i + 2)
            v, j = self._constval(ty, t, j)
            assert t[j] == 'to'
            _, j = self.tc.parse(t, j + 1)
            assert t[j] == ')'
            return v, j + 1
        if t[i] == 'getelementptr':
            j = i + 1
            while t[j] in _FLAGS:
                j += 1
            assert t[j] == '('
            base_ty, j = self.tc.parse(t, j + 1)
            assert t[j] == ','
            pty, j = self.tc.parse(t, j + 1)
            v, j = self._constval(pty, t, j)
            idxs = []
            while t[j] == ',':
                ity, j = self.tc.parse(t, j + 1)
                idxs.append(int(t[j]))
                j += 1
            assert t[j] == ')'
            off = self._gep_offset_conc(base_ty, idxs)
            return v + off, j + 1
        raise Inconclusive('llvm constant expression %s' % t[i])

    def _constval(self, ty, t, j):
        tok = t[j]
        if tok.startswith('@'):
            if tok in self.global_regions:
                return self.global_regions[tok].id << 32, j + 1
            return self.func_addr(tok), j + 1
        if tok == 'null':
            return 0, j + 1
        if tok in ('getelementptr', 'bitcast'):
            return self._constexpr(t, j)
        return int(tok), j + 1

    def _gep_offset_conc(self, base_ty, idxs):
        tc = self.tc
        off = idxs[0] * tc.size(base_ty)
        ty = base_ty
        for ix in idxs[1:]:
            rt = tc.resolve(ty)
            if rt[0] == 'struct':
                o, ty = tc.field_offset(ty, ix)
                off += o
            elif rt[0] == 'arr':
                ty = rt[2]
                off += ix * tc.size(ty)
            else:
                raise Inconclusive('gep into %s' % (rt,))
        return off

    # ------------------------------------------------------------------ operands
    def operand(self, st, fr, ty, t, j):
        """value of the operand at t[j] having type ty; returns (z3 term, next index)."""
        tok = t[j]
        bits = self.tc.bits(ty)
        if tok.startswith('%'):
            if tok not in fr.regs:
                raise Inconclusive('llvm: use of undefined value %s in %s' % (tok, fr.fn.name))
            return fr.regs[tok], j + 1
        if tok.startswith('@'):
            if tok in self.global_regions:
                return bv(self.global_regions[tok].id << 32, 64), j + 1
            return bv(self.func_addr(tok), 64), j + 1
        if tok in ('null', 'zeroinitializer'):
            return bv(0, bits), j + 1
        if tok in ('undef', 'poison'):
            return fresh_bv('undef', bits), j + 1
        if tok == 'true':
            return bv(1, 1), j + 1
        if tok == 'false':
            return bv(0, 1), j + 1
        if tok in ('getelementptr', 'bitcast'):
            v, j2 = self._constexpr(t, j)
            return bv(v, 64), j2
        rt = self.tc.resolve(ty)
        if rt[0] == 'fp':
            if tok.startswith('0x'):
                v = int(tok, 16)
            else:
                v = _struct.unpack('<Q', _struct.pack('<d', float(tok)))[0]
            if rt[1] == 32:
                v = _struct.unpack('<I', _struct.pack('<f', _struct.unpack('<d', _struct.pack('<Q', v))[0]))[0]
            return bv(v, rt[1]), j + 1
        return bv(int(tok), bits), j + 1

    def typed_operand(self, st, fr, t, j):
        ty, j = self.tc.parse(t, j)
        j = _skip_attrs(t, j)
        v, j = self.operand(st, fr, ty, t, j)
        return ty, v, j

    # ------------------------------------------------------------------ running
    def run(self, fname, args, pre=None, st=None, setup=None):
        if st is None:
            st = self.new_state()
        if pre is not None:
            st.pc.append(pre)
        fn = self.mod.funcs[fname]
        fr = Frame(fn)
        for (pty, pname, attrs), a in zip(fn.params, args):
            fr.regs[pname] = a
        st.frames.append(fr)
        fr.visits[fr.block] = 1
        self.encoded.add(fname)
        if setup:
            setup(st)
        return self.explore([st])

    def explore(self, work):
        outcomes = []
        steps = 0
        while work:
            s = work.pop()
            try:
                while True:
                    steps += 1
                    if steps > self.max_steps:
                        raise Inconclusive('step budget exceeded')
                    r = self.step(s, work)
                    if r is not None:
                        outcomes.append(r)
                        break
            except PathEnd as e:
                if e.kind != 'infeasible':
                    outcomes.append(Outcome(e.kind, s, None, e.detail))
            self.stats.paths += 1
            if len(outcomes) + len(work) > self.max_paths:
                raise Inconclusive('path budget exceeded')
        return outcomes

    def _side(self, s, fn):
        try:
            fn(s)
        except PathEnd as e:
            s.pending = e

    def branch(self, st, work, cond, then_fn, else_fn):
        c = z3.simplify(cond)
        if z3.is_true(c):
            then_fn(st)
            return
        if z3.is_false(c):
            else_fn(st)
            return
        t_ok, _ = st.solver.feasible(st.pc, c)
        f_ok, _ = st.solver.feasible(st.pc, z3.Not(c))
        if t_ok and f_ok:
            other = st.clone()
            other.pc.append(z3.Not(c))
            self._side(other, else_fn)
            work.append(other)
            st.pc.append(c)
            then_fn(st)
        elif t_ok:
            st.pc.append(c)
            then_fn(st)
        elif f_ok:
            st.pc.append(z3.Not(c))
            else_fn(st)
        else:
            raise PathEnd('infeasible')

    def fork_value(self, st, work, cond, on_true, on_false):
        ins = self._cur_ins
        c = z3.simplify(cond)
        if z3.is_true(c):
            return on_true(st)
        if z3.is_false(c):
            return on_false(st)
        t_ok, _ = st.solver.feasible(st.pc, c)
        f_ok, _ = st.solver.feasible(st.pc, z3.Not(c))
        if t_ok and f_ok:
            other = st.clone()
            other.pc.append(z3.Not(c))

            def deliver(s):
                r = on_false(s)
                if ins.dst is not None:
                    s.frames[-1].regs[ins.dst] = r
            self._side(other, deliver)
            work.append(other)
            st.pc.append(c)
            return on_true(st)
        if t_ok:
            st.pc.append(c)
            return on_true(st)
        if f_ok:
            st.pc.append(z3.Not(c))
            return on_false(st)
        raise PathEnd('infeasible')

    def goto(self, st, label):
        fr = st.frames[-1]
        if label not in fr.fn.blocks:
            raise Inconclusive('llvm: jump to unknown label %s in %s' % (label, fr.fn.name))
        fr.prev = fr.block
        fr.block = label
        fr.idx = 0
        n = fr.visits.get(label, 0) + 1
        fr.visits[label] = n
        if n > self.unroll + 1:
            raise PathEnd('bound', 'block %s of %s entered more than %d times' % (label, fr.fn.name, self.unroll + 1))
        if self.stop_at and self.stop_at == (fr.fn.name, label):
            raise PathEnd('stopped', (fr.fn.name, label))

    def load_typed(self, st, p, ty):
        n = self.tc.size(ty)
        v = st.mem.load(st, p, n)
        b = self.tc.bits(ty)
        if b < n * 8:
            v = z3.Extract(b - 1, 0, v)
        return v

    def store_typed(self, st, p, v, ty):
        n = self.tc.size(ty)
        if v.size() < n * 8:
            v = z3.ZeroExt(n * 8 - v.size(), v)
        st.mem.store(st, p, v, n)

    def step(self, st, work):
        if st.pending is not None:
            e = st.pending
            st.pending = None
            raise e
        fr = st.frames[-1]
        blk = fr.fn.blocks[fr.block]
        if fr.idx >= len(blk.instrs):
            raise Inconclusive('llvm: block %s of %s has no terminator' % (fr.block, fr.fn.name))
        ins = blk.instrs[fr.idx]
        fr.idx += 1
        self.stats.instrs += 1
        op = ins.op
        t = ins.t
        tc = self.tc
        if op == 'phi':
            vals = {}
            j = fr.idx - 1
            while j < len(blk.instrs) and blk.instrs[j].op == 'phi':
                p = blk.instrs[j]
                pt = p.t
                ty, k = tc.parse(pt, 0)
                found = None
                while k < len(pt):
                    if pt[k] == '[':
                        v_tok_idx = k + 1
                        # [ value, %label ]
                        lab = pt[k + 3] if pt[k + 2] == ',' else None
                        if lab is None:
                            # value may be multi-token (constexpr); find the label before ']'
                            e = k
                            while pt[e] != ']':
                                e += 1
                            lab = pt[e - 1]
                        if lab == fr.prev:
                            found, _ = self.operand(st, fr, ty, pt, v_tok_idx)
                        while pt[k] != ']':
                            k += 1
                    k += 1
                if found is None:
                    raise Inconclusive('phi without entry for %s' % fr.prev)
                vals[p.dst] = found
                j += 1
            fr.regs.update(vals)
            fr.idx = j
            return None
        if op == 'alloca':
            ty, j = tc.parse(t, 0)
            cnt = 1
            if j < len(t) and t[j] == ',' and t[j + 1] != 'align':
                cty, v, j = self.typed_operand(st, fr, t, j + 1)
                cnt = conc_val(v)
                if cnt is None:
                    raise Inconclusive('alloca with symbolic count')
            r = st.mem.alloc(max(tc.size(ty) * cnt, 1), name='%s.%s' % (fr.fn.name, ins.dst), kind='stack')
            fr.allocas.append(r)
            fr.regs[ins.dst] = st.mem.ptr(r)
            return None
        if op == 'load':
            j = 0
            while t[j] in _FLAGS or t[j] == 'atomic':
                j += 1
            ty, j = tc.parse(t, j)
            assert t[j] == ','
            pty, p, j = self.typed_operand(st, fr, t, j + 1)
            fr.regs[ins.dst] = simp(self.load_typed(st, p, ty))
            return None
        if op == 'store':
            j = 0
            while t[j] in _FLAGS or t[j] == 'atomic':
                j += 1
            ty, v, j = self.typed_operand(st, fr, t, j)
            assert t[j] == ','
            pty, p, j = self.typed_operand(st, fr, t, j + 1)
            self.store_typed(st, p, v, ty)
            return None
        if op == 'getelementptr':
            j = 0
            while t[j] in _FLAGS:
                j += 1
            base_ty, j = tc.parse(t, j)
            assert t[j] == ','
            pty, p, j = self.typed_operand(st, fr, t, j + 1)
            idxs = []
            while j < len(t) and t[j] == ',':
                ity, iv, j = self.typed_operand(st, fr, t, j + 1)
                idxs.append((ity, iv))
            off = None
            ty = base_ty
            for n_, (ity, iv) in enumerate(idxs):
                iv64 = z3.SignExt(64 - iv.size(), iv) if iv.size() < 64 else iv
                if n_ == 0:
                    term = iv64 * bv(tc.size(base_ty), 64)
                else:
                    rt = tc.resolve(ty)
                    if rt[0] == 'struct':
                        k = conc_val(iv)
                        o, ty = tc.field_offset(ty, k)
                        term = bv(o, 64)
                    elif rt[0] == 'arr':
                        ty = rt[2]
                        term = iv64 * bv(tc.size(ty), 64)
                    else:
                        raise Inconclusive('gep into %s' % (rt,))
                off = term if off is None else off + term
            fr.regs[ins.dst] = simp(p + off) if off is not None else p
            return None
        if op in ('bitcast', 'ptrtoint', 'inttoptr', 'addrspacecast'):
            ty, v, j = self.typed_operand(st, fr, t, 0)
            assert t[j] == 'to'
            dty, j = tc.parse(t, j + 1)
            db = tc.bits(dty)
            if v.size() > db:
                v = z3.Extract(db - 1, 0, v)
            elif v.size() < db:
                v = z3.ZeroExt(db - v.size(), v)
            fr.regs[ins.dst] = v
            return None
        if op in ('zext', 'sext', 'trunc'):
            ty, v, j = self.typed_operand(st, fr, t, 0)
            assert t[j] == 'to'
            dty, j = tc.parse(t, j + 1)
            db = tc.bits(dty)
            if op == 'zext':
                v = z3.ZeroExt(db - v.size(), v)
            elif op == 'sext':
                v = z3.SignExt(db - v.size(), v)
            else:
                v = z3.Extract(db - 1, 0, v)
            fr.regs[ins.dst] = simp(v)
            return None
        if op in ('add', 'sub', 'mul', 'and', 'or', 'xor', 'shl', 'lshr', 'ashr', 'udiv', 'sdiv', 'urem', 'srem'):
            j = 0
            while t[j] in _FLAGS:
                j += 1
            ty, a, j = self.typed_operand(st, fr, t, j)
            assert t[j] == ','
            b, j = self.operand(st, fr, ty, t, j + 1)
            if op in ('udiv', 'sdiv', 'urem', 'srem'):
                w = a.size()
                bad = b == bv(0, w)
                if op in ('sdiv', 'srem'):
                    bad = z3.Or(bad, z3.And(a == bv(1 << (w - 1), w), b == bv(-1, w)))
                dst = ins.dst
                fname = fr.fn.name

                def ok(s):
                    if self.axiom_div and op in ('udiv', 'urem') and w >= 128:
                        # quotient and remainder as fresh variables pinned by the division identity a = q*b + r, r < b
                        # (evaluated without wrap-around at double width): the definition of truncating unsigned
                        # division for b != 0, and far cheaper than a bit-blasted 128-bit divider
                        key = (a.get_id(), b.get_id())
                        if key not in self._divcache:
                            k = len(self._divcache)
                            q, r_ = z3.BitVec('divq%d' % k, w), z3.BitVec('divr%d' % k, w)
                            wide = lambda x: z3.ZeroExt(w, x)
                            self._divcache[key] = (q, r_, [wide(q) * wide(b) + wide(r_) == wide(a), z3.ULT(r_, b)])
                        q, r_, cons = self._divcache[key]
                        have = {x.get_id() for x in s.pc if hasattr(x, 'get_id')}
                        for c in cons:
                            if c.get_id() not in have:
                                s.pc.append(c)
                        s.frames[-1].regs[dst] = q if op == 'udiv' else r_
                        return
                    r = {'udiv': lambda: z3.UDiv(a, b), 'sdiv': lambda: a / b, 'urem': lambda: z3.URem(a, b), 'srem': lambda: z3.SRem(a, b)}[op]()
                    s.frames[-1].regs[dst] = simp(r)

                def trap(s):
                    raise PathEnd('trap', '%s by zero or overflow in %s' % (op, fname))
                self.branch(st, work, z3.Not(bad), ok, trap)
                return None
            if op == 'mul' and self.uf_mul and a.size() == 128:
                xa, xb = _zext64(a), _zext64(b)
                if xa is not None and xb is not None:
                    pterm = UMUL64(xa, xb)
                    fr.regs[ins.dst] = pterm
                    self.uf_terms.append(pterm)
                    return None
            r = {'add': lambda: a + b, 'sub': lambda: a - b, 'mul': lambda: a * b, 'and': lambda: a & b, 'or': lambda: a | b, 'xor': lambda: a ^ b,
                 'shl': lambda: a << b, 'lshr': lambda: z3.LShR(a, b), 'ashr': lambda: a >> b}[op]()
            fr.regs[ins.dst] = simp(r)
            return None
        if op == 'icmp':
            pred = t[0]
            ty, a, j = self.typed_operand(st, fr, t, 1)
            assert t[j] == ','
            b, j = self.operand(st, fr, ty, t, j + 1)
            fr.regs[ins.dst] = simp(z3.If(_ICMP[pred](a, b), bv(1, 1), bv(0, 1)))
            return None
        if op == 'select':
            cty, c, j = self.typed_operand(st, fr, t, 0)
            ty, a, j = self.typed_operand(st, fr, t, j + 1)
            ty2, b, j = self.typed_operand(st, fr, t, j + 1)
            fr.regs[ins.dst] = simp(z3.If(c == bv(1, 1), a, b))
            return None
        if op == 'br':
            if t[0] == 'label':
                self.goto(st, t[1])
                return None
            cty, c, j = self.typed_operand(st, fr, t, 0)
            l1 = t[j + 2]
            l2 = t[j + 5]
            self.branch(st, work, c == bv(1, 1), lambda s: self.goto(s, l1), lambda s: self.goto(s, l2))
            return None
        if op == 'switch':
            ty, v, j = self.typed_operand(st, fr, t, 0)
            assert t[j] == ',' and t[j + 1] == 'label'
            default = t[j + 2]
            j += 3
            cases = []
            assert t[j] == '['
            j += 1
            while t[j] != ']':
                cty, cv, j = self.typed_operand(st, fr, t, j)
                assert t[j] == ',' and t[j + 1] == 'label'
                cases.append((cv, t[j + 2]))
                j += 3
            self._switch(st, work, v, cases, default)
            return None
        if op == 'ret':
            if t[0] == 'void':
                return self.do_return(st, None)
            ty, v, j = self.typed_operand(st, fr, t, 0)
            return self.do_return(st, v)
        if op == 'extractvalue':
            ty, v, j = self.typed_operand(st, fr, t, 0)
            idxs = []
            while j < len(t) and t[j] == ',':
                idxs.append(int(t[j + 1]))
                j += 2
            off = 0
            cur = ty
            for ix in idxs:
                rt = tc.resolve(cur)
                if rt[0] == 'struct':
                    o, cur = tc.field_offset(cur, ix)
                else:
                    cur = rt[2]
                    o = ix * tc.size(cur)
                off += o
            nb = tc.bits(cur)
            fr.regs[ins.dst] = simp(z3.Extract(off * 8 + nb - 1, off * 8, v))
            return None
        if op == 'insertvalue':
            ty, v, j = self.typed_operand(st, fr, t, 0)
            ety, ev, j = self.typed_operand(st, fr, t, j + 1)
            idxs = []
            while j < len(t) and t[j] == ',':
                idxs.append(int(t[j + 1]))
                j += 2
            off = 0
            cur = ty
            for ix in idxs:
                rt = tc.resolve(cur)
                if rt[0] == 'struct':
                    o, cur = tc.field_offset(cur, ix)
                else:
                    cur = rt[2]
                    o = ix * tc.size(cur)
                off += o
            total = v.size()
            nb = ev.size()
            parts = []
            if off * 8 + nb < total:
                parts.append(z3.Extract(total - 1, off * 8 + nb, v))
            parts.append(ev)
            if off > 0:
                parts.append(z3.Extract(off * 8 - 1, 0, v))
            fr.regs[ins.dst] = simp(z3.Concat(*parts) if len(parts) > 1 else parts[0])
            return None
        if op == 'call':
            return self.do_call(st, work, ins)
        if op == 'unreachable':
            raise PathEnd('unreachable', 'unreachable executed in %s' % fr.fn.name)
        if op in ('fadd', 'fsub', 'fmul', 'fdiv', 'fcmp', 'fpext', 'fptrunc', 'sitofp', 'uitofp', 'fptosi', 'fptoui', 'fneg'):
            return self._fp(st, fr, ins)
        raise Inconclusive('llvm op %r not supported (%s)' % (op, ins.line))

    def _switch(self, st, work, v, cases, default):
        if not cases:
            self.goto(st, default)
            return
        (cv, lab), rest = cases[0], cases[1:]
        self.branch(st, work, v == cv, lambda s: self.goto(s, lab), lambda s: self._switch(s, work, v, rest, default))

    def _fp(self, st, fr, ins):
        """floating point only on concrete operands (the runtime's load-factor product etc.)."""
        t = ins.t
        tc = self.tc
        op = ins.op

        def f_of(v, bits):
            c = conc_val(v)
            if c is None:
                raise Inconclusive('floating point on symbolic data (%s)' % ins.line)
            return _struct.unpack('<d', _struct.pack('<Q', c))[0] if bits == 64 else _struct.unpack('<f', _struct.pack('<I', c))[0]

        def to_bits(x, bits):
            return bv(_struct.unpack('<Q', _struct.pack('<d', x))[0], 64) if bits == 64 else bv(_struct.unpack('<I', _struct.pack('<f', x))[0], 32)
        j = 0
        while t[j] in _FLAGS:
            j += 1
        if op in ('fadd', 'fsub', 'fmul', 'fdiv'):
            ty, a, j = self.typed_operand(st, fr, t, j)
            b, j = self.operand(st, fr, ty, t, j + 1)
            bits = tc.bits(ty)
            x, y = f_of(a, bits), f_of(b, bits)
            r = {'fadd': x + y, 'fsub': x - y, 'fmul': x * y, 'fdiv': (x / y if y != 0 else float('inf'))}[op]
            fr.regs[ins.dst] = to_bits(r, bits)
            return None
        if op == 'fcmp':
            pred = t[j]
            ty, a, j = self.typed_operand(st, fr, t, j + 1)
            b, j = self.operand(st, fr, ty, t, j + 1)
            bits = tc.bits(ty)
            x, y = f_of(a, bits), f_of(b, bits)
            r = {'oeq': x == y, 'one': x != y, 'olt': x < y, 'ole': x <= y, 'ogt': x > y, 'oge': x >= y, 'une': x != y, 'ueq': x == y,
                 'ult': x < y, 'ule': x <= y, 'ugt': x > y, 'uge': x >= y}[pred]
            fr.regs[ins.dst] = bv(1 if r else 0, 1)
            return None
        ty, a, j = self.typed_operand(st, fr, t, j)
        assert t[j] == 'to'
        dty, j = tc.parse(t, j + 1)
        sb, db = tc.bits(ty), tc.bits(dty)
        if op in ('sitofp', 'uitofp'):
            c = conc_val(a)
            if c is None:
                raise Inconclusive('int->float on symbolic data (%s)' % ins.line)
            if op == 'sitofp' and c >= 1 << (sb - 1):
                c -= 1 << sb
            fr.regs[ins.dst] = to_bits(float(c), db)
            return None
        if op in ('fptosi', 'fptoui'):
            x = f_of(a, sb)
            fr.regs[ins.dst] = bv(int(x), db)
            return None
        if op in ('fpext', 'fptrunc'):
            fr.regs[ins.dst] = to_bits(f_of(a, sb), db)
            return None
        raise Inconclusive('llvm fp op %s' % op)

    def do_return(self, st, v):
        fr = st.frames.pop()
        for r in fr.allocas:
            r.alive = False
        if not st.frames:
            return Outcome('ret', st, v)
        caller = st.frames[-1]
        if fr.ret_dst is not None:
            if v is None:
                raise Inconclusive('void return consumed')
            caller.regs[fr.ret_dst] = v
        return None

    def do_call(self, st, work, ins):
        fr = st.frames[-1]
        t = ins.t
        tc = self.tc
        j = 0
        while t[j] in _FLAGS or t[j] in ('fastcc', 'ccc', 'coldcc'):
            j += 1
        j = _skip_attrs(t, j)
        rty, j = tc.parse(t, j)
        # for calls through function-pointer types the parser above consumed "ret (params)*"
        target = t[j]
        j += 1
        assert t[j] == '(', ins.line
        j += 1
        args = []
        while t[j] != ')':
            if t[j] == ',':
                j += 1
                continue
            aty, j2 = tc.parse(t, j)
            attrs = set()
            j2 = _skip_attrs(t, j2, attrs)
            v, j = self.operand(st, fr, aty, t, j2)
            args.append((aty, v, attrs))
        if target.startswith('%'):
            tv = conc_val(fr.regs[target])
            if tv is None:
                raise Inconclusive('indirect call through a symbolic pointer')
            target = self.func_by_addr(tv)
            if target is None:
                raise PathEnd('oob', 'indirect call to a non-function address')
        if rty[0] == 'func':
            rty = rty[1]
            while rty[0] == 'ptr' and False:
                pass
        self.called.add(target)
        if target in self.overrides:
            self._cur_ins = ins
            r = self.overrides[target](self, st, [a[1] for a in args], work)
            if ins.dst is not None:
                fr.regs[ins.dst] = r
            return None
        if target in self.mod.funcs:
            fn = self.mod.funcs[target]
            if len(st.frames) > 40:
                raise PathEnd('bound', 'call depth > 40')
            nf = Frame(fn)
            for (pty, pname, pattrs), (aty, v, aattrs) in zip(fn.params, args):
                if 'byval' in pattrs or 'byval' in aattrs:
                    el = tc.resolve(pty)[1]
                    n = tc.size(el)
                    r = st.mem.alloc(n, name='%s.byval' % fn.name, kind='stack')
                    nf.allocas.append(r)
                    st.mem.copy(st, st.mem.ptr(r), v, n)
                    v = st.mem.ptr(r)
                nf.regs[pname] = v
            nf.ret_dst = ins.dst
            nf.visits[nf.block] = 1
            st.frames.append(nf)
            self.encoded.add(target)
            return None
        name = target[1:]
        if name.startswith('llvm.memcpy') or name.startswith('llvm.memmove'):
            n = conc_val(args[2][1])
            if n is None:
                raise Inconclusive('memcpy with symbolic length')
            st.mem.copy(st, args[0][1], args[1][1], n)
            return None
        if name.startswith('llvm.memset'):
            n = conc_val(args[2][1])
            if n is None:
                raise Inconclusive('memset with symbolic length')
            for k in range(n):
                st.mem.store(st, args[0][1] + bv(k, 64), z3.Extract(7, 0, args[1][1]), 1)
            return None
        if name.startswith('llvm.lifetime') or name.startswith('llvm.dbg') or name.startswith('llvm.assume') or name.startswith('llvm.stack'):
            if ins.dst:
                fr.regs[ins.dst] = bv(0, 64)
            return None
        summ = self.summaries.get(name)
        if summ is None:
            raise Inconclusive('call to %s: no summary' % name)
        self._cur_ins = ins
        r = summ(self, st, [a[1] for a in args], work)
        if ins.dst is not None:
            if r is None:
                raise Inconclusive('summary of %s returned no value' % name)
            b = tc.bits(rty)
            if r.size() > b:
                r = z3.Extract(b - 1, 0, r)
            elif r.size() < b:
                r = z3.ZeroExt(b - r.size(), r)
            fr.regs[ins.dst] = r
        return None


# ---------------------------------------------------------------------------------------------- libc summaries
def _malloc(ex, st, a, work):
    n = conc_val(a[0])
    if n is None:
        raise Inconclusive('malloc with symbolic size')
    r = st.mem.alloc(max(n, 1), name='malloc', kind='heap')
    return st.mem.ptr(r)


def _calloc(ex, st, a, work):
    n, m = conc_val(a[0]), conc_val(a[1])
    if n is None or m is None:
        raise Inconclusive('calloc with symbolic size')
    r = st.mem.alloc(max(n * m, 1), name='calloc', kind='heap', init=[bv(0, 8)] * max(n * m, 1))
    return st.mem.ptr(r)


def _region_of(st, p, who):
    v = conc_val(p)
    if v is None:
        raise Inconclusive('%s of a symbolic pointer' % who)
    if v == 0:
        return None
    r = st.mem.regions.get(v >> st.mem.shift)
    if r is None or (v & ((1 << st.mem.shift) - 1)) != 0 or r.kind != 'heap':
        raise PathEnd('oob', '%s of a pointer that is not the start of a heap block' % who)
    if not r.alive:
        raise PathEnd('uaf', 'double %s' % who)
    return r


def _free(ex, st, a, work):
    if conc_val(a[0]) is None:
        return _free_symbolic(ex, st, a[0], work, 0)
    r = _region_of(st, a[0], 'free')
    if r is not None:
        r.alive = False
    return None


def _free_symbolic(ex, st, p, work, depth):
    """free of a pointer that is a symbolic choice among a few blocks (a chain link read back from memory): fork on its
    possible values, one at a time"""
    if depth > 12:
        raise Inconclusive('free of a symbolic pointer with more than 12 possible values')
    r, m = st.solver.check(list(st.pc))
    if r != 'sat':
        raise Inconclusive('free of a symbolic pointer: path condition %s' % r)
    val = m.eval(p, model_completion=True)

    def this(s):
        rg = _region_of(s, val, 'free')
        if rg is not None:
            rg.alive = False
        return None
    return ex.fork_value(st, work, p == val, this, lambda s: _free_symbolic(ex, s, p, work, depth + 1))


def _realloc(ex, st, a, work):
    n = conc_val(a[1])
    if n is None:
        raise Inconclusive('realloc with symbolic size')
    old = _region_of(st, a[0], 'realloc')
    new = st.mem.alloc(max(n, 1), name='realloc', kind='heap')
    if old is not None:
        for k in range(min(old.size, new.size)):
            new.bytes[k] = old.bytes[k]
        old.alive = False
    return st.mem.ptr(new)


def _memcmp(ex, st, a, work):
    n = conc_val(a[2])
    if n is None:
        raise Inconclusive('memcmp with symbolic length')
    res = bv(0, 32)
    for k in range(n - 1, -1, -1):
        x = st.mem.load(st, a[0] + bv(k, 64), 1)
        y = st.mem.load(st, a[1] + bv(k, 64), 1)
        res = z3.If(x == y, res, z3.If(z3.ULT(x, y), bv(-1, 32), bv(1, 32)))
    return res


def _strlen(ex, st, a, work):
    s = st.mem.read_cstr(st, a[0])
    if s is not None:
        return bv(len(s), 64)
    # symbolic bytes: fork on the position of the first NUL (reading past the object ends the path as out of bounds)

    def at(k):
        def f(s_):
            if k > 160:
                raise Inconclusive('strlen: no NUL within 160 bytes')
            b = s_.mem.load(s_, a[0] + bv(k, 64), 1)
            return ex.fork_value(s_, work, b == bv(0, 8), lambda s2: bv(k, 64), at(k + 1))
        return f
    return at(0)(st)


def _strcmp(ex, st, a, work):
    s1 = st.mem.read_cstr(st, a[0])
    s2 = st.mem.read_cstr(st, a[1])
    if s1 is None or s2 is None:
        raise Inconclusive('strcmp of a non-concrete string')
    return bv((s1 > s2) - (s1 < s2), 32)


def _ctype_b_loc(ex, st, a, work):
    """glibc __ctype_b_loc(): pointer to a pointer into a table of 384 uint16 class masks (C locale)."""
    if 'ctype' not in st.aux:
        tbl = []
        for c in range(-128, 256):
            m = 0
            if 0 <= c < 128:
                ch = chr(c)
                if ch.isupper():
                    m |= 0x100
                if ch.islower():
                    m |= 0x200
                if ch.isalpha():
                    m |= 0x400
                if ch.isdigit():
                    m |= 0x800
                if ch in '0123456789abcdefABCDEF':
                    m |= 0x1000
                if ch in ' \t\n\v\f\r':
                    m |= 0x2000
                if 32 <= c < 127:
                    m |= 0x4000
                if 33 <= c < 127:
                    m |= 0x8000
                if ch in ' \t':
                    m |= 0x1
                if c < 32 or c == 127:
                    m |= 0x2
                if 33 <= c < 127 and not ch.isalnum():
                    m |= 0x4
                if ch.isalnum():
                    m |= 0x8
            tbl += [m & 0xff, m >> 8]
        r = st.mem.alloc(len(tbl), name='ctype_table', kind='data', init=[bv(x, 8) for x in tbl])
        r.meta = ('table', 2)
        pp = st.mem.alloc(8, name='ctype_ptr', kind='data')
        st.mem.store(st, st.mem.ptr(pp), st.mem.ptr(r, 256), 8)
        st.aux['ctype'] = pp.id
    return st.mem.ptr(st.mem.regions[st.aux['ctype']])


def _abort(ex, st, a, work):
    raise PathEnd('abort', 'abort()')


LIBC = {'__ctype_b_loc': _ctype_b_loc, 'malloc': _malloc, 'calloc': _calloc, 'free': _free, 'realloc': _realloc, 'memcmp': _memcmp, 'strlen': _strlen, 'strcmp': _strcmp, 'abort': _abort}
