"""QBE IL front end for lirsym: parser for the IL subset Ferret emits and a path-wise symbolic executor.

Semantics follow the QBE reference (/repo/qbe/doc/il.txt): `w` results are 32 bit, `l` 64 bit; an `l`
temporary used by a `w` instruction denotes its low 32 bits; a `w` temporary used where `l` is required is a
type error (QBE rejects the function) and is reported as event `illtyped`.
"""
import re
import z3
from .core import (Memory, Region, PathEnd, Inconclusive, Solver, Stats, bv, conc_val, fresh_bv, simp)

_TOK = re.compile(r'\s*(?:("(?:[^"\\]|\\.)*")|([%$@:][A-Za-z0-9_.]+)|(-?\d+(?:\.\d+)?)|([sd]_-?[0-9.eE+\-infa]+)|(\.\.\.)|([A-Za-z_][A-Za-z0-9_]*)|([=,(){}]))')


def _tokens(line):
    out = []
    pos = 0
    line = line.split('#', 1)[0] if '"' not in line else line
    while pos < len(line):
        m = _TOK.match(line, pos)
        if not m:
            if line[pos:].strip() == '':
                break
            raise ValueError('qbe: cannot tokenize %r at %d' % (line, pos))
        pos = m.end()
        out.append(m.group(m.lastindex))
    return out


class Instr:
    __slots__ = ('dst', 'cls', 'op', 'args', 'line')

    def __init__(self, dst, cls, op, args, line):
        self.dst, self.cls, self.op, self.args, self.line = dst, cls, op, args, line

    def __repr__(self):
        return self.line.strip()


class Block:
    def __init__(self, name):
        self.name = name
        self.instrs = []


class Function:
    def __init__(self, name, retcls, params, exported):
        self.name = name
        self.retcls = retcls  # None, 'w', 'l', 's', 'd'
        self.params = params  # list of (cls, name)
        self.exported = exported
        self.blocks = {}
        self.order = []
        self.ninstr = 0


class Module:
    def __init__(self):
        self.funcs = {}
        self.data = {}  # name -> list of items
        self.text = ''


def _unescape(s):
    s = s[1:-1]
    out = bytearray()
    i = 0
    while i < len(s):
        c = s[i]
        if c == '\\' and i + 1 < len(s):
            n = s[i + 1]
            if n == 'n':
                out.append(10); i += 2
            elif n == 't':
                out.append(9); i += 2
            elif n == 'r':
                out.append(13); i += 2
            elif n == '0':
                out.append(0); i += 2
            elif n == 'x':
                out.append(int(s[i + 2:i + 4], 16)); i += 4
            elif n in '"\\':
                out.append(ord(n)); i += 2
            else:
                out.append(ord(n)); i += 2
        else:
            out.extend(c.encode('utf-8')); i += 1
    return bytes(out)


def parse(text):
    mod = Module()
    mod.text = text
    lines = text.split('\n')
    i = 0
    cur = None
    blk = None
    while i < len(lines):
        raw = lines[i]
        i += 1
        s = raw.strip()
        if not s or s.startswith('#'):
            continue
        if cur is None:
            if s.startswith('data') or s.startswith('export data'):
                # may span lines until closing }
                full = s
                while '}' not in full:
                    full += ' ' + lines[i].strip()
                    i += 1
                toks = _tokens(full)
                k = toks.index('data')
                name = toks[k + 1]
                lb = toks.index('{')
                rb = len(toks) - 1 - toks[::-1].index('}')
                items = []
                ty = None
                for t in toks[lb + 1:rb]:
                    if t == ',':
                        ty = None
                        continue
                    if ty is None:
                        ty = t
                        continue
                    items.append((ty, t))
                mod.data[name] = items
                continue
            if s.startswith('type'):
                continue
            if 'function' in s.split('(')[0].split():
                toks = _tokens(s)
                exported = 'export' in toks[:toks.index('function')]
                k = toks.index('function')
                j = k + 1
                retcls = None
                if not toks[j].startswith('$'):
                    retcls = toks[j]
                    j += 1
                name = toks[j]
                j += 1
                assert toks[j] == '('
                j += 1
                params = []
                while toks[j] != ')':
                    if toks[j] == ',':
                        j += 1
                        continue
                    if toks[j] == '...':
                        j += 1
                        continue
                    if toks[j] == 'env':
                        params.append(('env', toks[j + 1]))
                        j += 2
                        continue
                    params.append((toks[j], toks[j + 1]))
                    j += 2
                cur = Function(name, retcls, params, exported)
                blk = None
                continue
            raise ValueError('qbe: unexpected top-level line %r' % s)
        # inside function
        if s == '}':
            mod.funcs[cur.name] = cur
            cur = None
            continue
        if s.startswith('@'):
            blk = Block(s.split()[0])
            cur.blocks[blk.name] = blk
            cur.order.append(blk.name)
            continue
        toks = _tokens(s)
        if blk is None:
            blk = Block('@start')
            cur.blocks[blk.name] = blk
            cur.order.append(blk.name)
        if len(toks) >= 3 and toks[1].startswith('=') or (len(toks) >= 3 and toks[1] == '='):
            dst = toks[0]
            # forms: %x =w op ...   tokenised as ['%x', '=', 'w', 'op', ...]
            cls = toks[2]
            op = toks[3]
            args = toks[4:]
        else:
            dst = None
            cls = None
            op = toks[0]
            args = toks[1:]
        blk.instrs.append(Instr(dst, cls, op, args, s))
        cur.ninstr += 1
    return mod


def _split_args(args):
    out = []
    cur = []
    depth = 0
    for a in args:
        if a == '(':
            depth += 1
        elif a == ')':
            depth -= 1
        if a == ',' and depth == 0:
            out.append(cur)
            cur = []
        else:
            cur.append(a)
    if cur:
        out.append(cur)
    return out


class Frame:
    def __init__(self, fn):
        self.fn = fn
        self.regs = {}
        self.regcls = {}
        self.block = fn.order[0]
        self.prev = None
        self.idx = 0
        self.visits = {}
        self.allocs = []
        self.ret_dst = None  # (dst, cls) in caller

    def clone(self):
        f = Frame.__new__(Frame)
        f.fn = self.fn
        f.regs = dict(self.regs)
        f.regcls = dict(self.regcls)
        f.block = self.block
        f.prev = self.prev
        f.idx = self.idx
        f.visits = dict(self.visits)
        f.allocs = list(self.allocs)
        f.ret_dst = self.ret_dst
        return f


class State:
    def __init__(self, solver, mem):
        self.solver = solver
        self.mem = mem
        self.pc = []
        self.frames = []
        self.events = []
        self.aux = {}  # summaries' abstract objects
        self.pending = None

    def clone(self):
        s = State(self.solver, self.mem.clone())
        s.pc = list(self.pc)
        s.frames = [f.clone() for f in self.frames]
        s.events = list(self.events)
        s.aux = {k: (v.clone() if hasattr(v, 'clone') else v) for k, v in self.aux.items()}
        s.pending = self.pending
        return s


class Outcome:
    """One finished path."""

    def __init__(self, kind, pc, ret, events, detail=None, mem=None):
        self.kind = kind  # ret | panic | falloff | trap | oob | uaf | illtyped | bound | abort
        self.pc = pc
        self.ret = ret
        self.events = events
        self.detail = detail
        self.mem = mem

    def __repr__(self):
        return 'Outcome(%s, ret=%s, ev=%s, %s)' % (self.kind, self.ret, self.events, self.detail)


WIDTH = {'w': 32, 'l': 64}

_CMP = {
    'eq': lambda a, b: a == b, 'ne': lambda a, b: a != b,
    'slt': lambda a, b: a < b, 'sle': lambda a, b: a <= b, 'sgt': lambda a, b: a > b, 'sge': lambda a, b: a >= b,
    'ult': z3.ULT, 'ule': z3.ULE, 'ugt': z3.UGT, 'uge': z3.UGE,
}


class Executor:
    def __init__(self, mod, summaries, solver=None, unroll=4, max_paths=4000, max_steps=200000, extra_mods=()):
        self.mod = mod
        self.funcs = dict(mod.funcs)
        for m in extra_mods:
            for k, v in m.funcs.items():
                self.funcs.setdefault(k, v)
        self.summaries = summaries
        self.solver = solver or Solver()
        self.stats = self.solver.stats
        self.unroll = unroll
        self.max_paths = max_paths
        self.max_steps = max_steps
        self.data_regions = {}
        self.called = set()
        self.encoded = set()

    # -- setup ---------------------------------------------------------------------------
    def new_state(self):
        mem = Memory(64, 32)
        st = State(self.solver, mem)
        self.data_regions = {}
        # two passes: allocate, then fill (data may reference other data symbols)
        sizes = {}
        allmods = [self.mod]
        for name, items in self.mod.data.items():
            n = 0
            for ty, v in items:
                if ty == 'b':
                    n += len(_unescape(v)) if v.startswith('"') else 1
                elif ty == 'h':
                    n += 2
                elif ty == 'w':
                    n += 4
                elif ty == 'l':
                    n += 8
                elif ty == 'z':
                    n += int(v)
                else:
                    raise Inconclusive('qbe data item type %s' % ty)
            sizes[name] = n
            self.data_regions[name] = mem.alloc(max(n, 1), name=name, kind='data')
        for name, items in self.mod.data.items():
            r = self.data_regions[name]
            off = 0

            def put(val, nb):
                nonlocal off
                for i in range(nb):
                    r.bytes[off + i] = bv((val >> (8 * i)) & 0xff, 8)
                off += nb
            for ty, v in items:
                if ty == 'b':
                    if v.startswith('"'):
                        for c in _unescape(v):
                            put(c, 1)
                    else:
                        put(int(v), 1)
                elif ty == 'h':
                    put(int(v), 2)
                elif ty == 'w':
                    put(int(v) & 0xffffffff, 4)
                elif ty == 'l':
                    if v.startswith('$'):
                        if v in self.data_regions:
                            put(mem.base(self.data_regions[v].id), 8)
                        else:
                            put(self.func_addr(v), 8)
                    else:
                        put(int(v) & (2**64 - 1), 8)
                elif ty == 'z':
                    put(0, int(v))
            for k in range(r.size):
                if r.bytes[k] is None:
                    r.bytes[k] = bv(0, 8)
        return st

    _faddr = {}

    def func_addr(self, name):
        # function "addresses": distinct concrete values in a reserved range (top of address space)
        tbl = self._faddr
        if name not in tbl:
            tbl[name] = 0x7ff0000000000000 + 16 * (len(tbl) + 1)
        return tbl[name]

    def func_by_addr(self, v):
        for k, a in self._faddr.items():
            if a == v:
                return k
        return None

    # -- operand evaluation --------------------------------------------------------------
    def val(self, st, fr, tok, cls):
        """Value of operand `tok` as used by an instruction of class cls ('w' or 'l')."""
        w = WIDTH[cls]
        if tok.startswith('%'):
            if tok not in fr.regs:
                # read of a never-assigned temporary: undefined value
                v = fresh_bv('undefreg', w)
                return v
            v = fr.regs[tok]
            vw = v.size()
            if vw == w:
                return v
            if vw == 64 and w == 32:
                if z3.is_bv_value(v) and (1 << 32) <= v.as_long() < (1 << 56):
                    raise PathEnd('illtyped', 'pointer %s truncated to 32 bits (used as a w operand) in %s' % (tok, fr.fn.name))
                return z3.Extract(31, 0, v)
            raise PathEnd('illtyped', 'temporary %s of class w used as l in %s' % (tok, fr.fn.name))
        if tok.startswith('$'):
            if tok in self.data_regions:
                return bv(st.mem.base(self.data_regions[tok].id), 64) if w == 64 else bv(st.mem.base(self.data_regions[tok].id) & 0xffffffff, 32)
            return bv(self.func_addr(tok), w)
        try:
            return bv(int(tok), w)
        except ValueError:
            raise Inconclusive('qbe operand %r' % tok)

    def setreg(self, fr, dst, cls, v):
        if cls not in WIDTH:
            raise Inconclusive('qbe class %r (floating point) not supported' % cls)
        assert v.size() == WIDTH[cls], (dst, cls, v.size())
        fr.regs[dst] = simp(v)

    # -- running -------------------------------------------------------------------------
    def run(self, fname, args, pre=None, st=None):
        """Execute function `fname` on z3 argument terms; returns list of Outcome."""
        if st is None:
            st = self.new_state()
        if pre is not None:
            st.pc.append(pre)
        fn = self.funcs[fname]
        fr = Frame(fn)
        for (cls, name), a in zip(fn.params, args):
            if cls == 'env':
                cls = 'l'
            cw = WIDTH.get(cls if cls in WIDTH else 'w')
            if a.size() != cw:
                raise Inconclusive('argument width mismatch for %s' % name)
            fr.regs[name] = a
        st.frames.append(fr)
        outcomes = []
        work = [st]
        steps = 0
        while work:
            s = work.pop()
            try:
                while True:
                    steps += 1
                    if steps > self.max_steps:
                        raise Inconclusive('step budget exceeded in %s' % fname)
                    r = self.step(s, work)
                    if r is not None:
                        outcomes.append(r)
                        break
            except PathEnd as e:
                if e.kind != 'infeasible':
                    outcomes.append(Outcome(e.kind, s.pc, None, s.events, e.detail, s.mem))
            self.stats.paths += 1
            if len(outcomes) + len(work) > self.max_paths:
                raise Inconclusive('path budget exceeded in %s' % fname)
        return outcomes

    def _side(self, s, fn):
        """Run fn on a forked state; a PathEnd raised there is kept as the state's pending end."""
        try:
            fn(s)
        except PathEnd as e:
            s.pending = e

    def branch(self, st, work, cond, then_fn, else_fn):
        """Fork on z3 Bool cond; then_fn/else_fn mutate the state to take the respective side."""
        c = z3.simplify(cond)
        if z3.is_true(c):
            then_fn(st)
            return
        if z3.is_false(c):
            else_fn(st)
            return
        t_ok, _ = st.solver.feasible(st.pc, c)
        f_ok, _ = st.solver.feasible(st.pc, z3.Not(c))
        if t_ok and f_ok:
            other = st.clone()
            other.pc.append(z3.Not(c))
            self._side(other, else_fn)
            work.append(other)
            st.pc.append(c)
            then_fn(st)
        elif t_ok:
            st.pc.append(c)
            then_fn(st)
        elif f_ok:
            st.pc.append(z3.Not(c))
            else_fn(st)
        else:
            raise PathEnd('infeasible')

    def deliver(self, st, ins, r):
        """Store a call's result into its destination register."""
        if ins.dst is None:
            return
        fr = st.frames[-1]
        if r is None:
            raise Inconclusive('summary returned no value for %s' % ins.line)
        w = WIDTH[ins.cls]
        if r.size() > w:
            r = z3.Extract(w - 1, 0, r)
        elif r.size() < w:
            r = z3.ZeroExt(w - r.size(), r)
        self.setreg(fr, ins.dst, ins.cls, r)

    def fork_value(self, st, work, cond, on_true, on_false):
        """For summaries: fork on cond, each side computing the call's return value."""
        ins = self._cur_ins
        c = z3.simplify(cond)
        if z3.is_true(c):
            return on_true(st)
        if z3.is_false(c):
            return on_false(st)
        t_ok, _ = st.solver.feasible(st.pc, c)
        f_ok, _ = st.solver.feasible(st.pc, z3.Not(c))
        if t_ok and f_ok:
            other = st.clone()
            other.pc.append(z3.Not(c))
            self._side(other, lambda s: self.deliver(s, ins, on_false(s)))
            work.append(other)
            st.pc.append(c)
            return on_true(st)
        if t_ok:
            st.pc.append(c)
            return on_true(st)
        if f_ok:
            st.pc.append(z3.Not(c))
            return on_false(st)
        raise PathEnd('infeasible')

    def goto(self, st, label):
        fr = st.frames[-1]
        if label not in fr.fn.blocks:
            raise Inconclusive('qbe: jump to unknown label %s' % label)
        fr.prev = fr.block
        fr.block = label
        fr.idx = 0
        n = fr.visits.get(label, 0) + 1
        fr.visits[label] = n
        if n > self.unroll + 1:
            raise PathEnd('bound', 'block %s of %s entered more than %d times' % (label, fr.fn.name, self.unroll + 1))

    def do_return(self, st, v):
        fr = st.frames.pop()
        for r in fr.allocs:
            r.alive = False
        if not st.frames:
            return Outcome('ret', st.pc, v, st.events, None, st.mem)
        caller = st.frames[-1]
        if fr.ret_dst is not None:
            dst, cls = fr.ret_dst
            if v is None:
                # callee fell off its end but the caller consumes a value
                raise PathEnd('falloff', 'call of %s returned without a value' % fr.fn.name)
            if cls in WIDTH and v.size() != WIDTH[cls]:
                if v.size() == 64 and cls == 'w':
                    v = z3.Extract(31, 0, v)
                else:
                    raise PathEnd('illtyped', 'return class mismatch calling %s' % fr.fn.name)
            self.setreg(caller, dst, cls, v)
        return None

    def step(self, st, work):
        if st.pending is not None:
            e = st.pending
            st.pending = None
            raise e
        fr = st.frames[-1]
        blk = fr.fn.blocks[fr.block]
        if fr.idx >= len(blk.instrs):
            # fall through to next block in layout order
            k = fr.fn.order.index(fr.block)
            if k + 1 >= len(fr.fn.order):
                raise PathEnd('falloff', 'control runs off the end of %s' % fr.fn.name)
            self.goto(st, fr.fn.order[k + 1])
            return None
        ins = blk.instrs[fr.idx]
        fr.idx += 1
        self.stats.instrs += 1
        op = ins.op
        a = ins.args
        # phi must be evaluated against prev block; handle sequentially (all phis at block start read old values)
        if op == 'phi':
            # gather all phis of this block at once
            vals = {}
            j = fr.idx - 1
            while j < len(blk.instrs) and blk.instrs[j].op == 'phi':
                p = blk.instrs[j]
                parts = _split_args(p.args)
                found = None
                for part in parts:
                    if part[0] == fr.prev:
                        found = part[1]
                if found is None:
                    raise Inconclusive('phi without entry for predecessor %s in %s' % (fr.prev, fr.fn.name))
                vals[p.dst] = (p.cls, self.val(st, fr, found, p.cls))
                j += 1
            for d, (c, v) in vals.items():
                self.setreg(fr, d, c, v)
            fr.idx = j
            return None
        if op in ('add', 'sub', 'mul', 'and', 'or', 'xor'):
            x = self.val(st, fr, a[0], ins.cls)
            y = self.val(st, fr, a[2], ins.cls)
            r = {'add': lambda: x + y, 'sub': lambda: x - y, 'mul': lambda: x * y, 'and': lambda: x & y,
                 'or': lambda: x | y, 'xor': lambda: x ^ y}[op]()
            self.setreg(fr, ins.dst, ins.cls, r)
            return None
        if op in ('div', 'rem', 'udiv', 'urem'):
            x = self.val(st, fr, a[0], ins.cls)
            y = self.val(st, fr, a[2], ins.cls)
            w = WIDTH[ins.cls]
            dst, cls = ins.dst, ins.cls

            bad = y == bv(0, w)
            if op in ('div', 'rem'):
                bad = z3.Or(bad, z3.And(x == bv(1 << (w - 1), w), y == bv(-1, w)))
            fname = fr.fn.name

            def ok(s):
                f = s.frames[-1]
                r = {'div': lambda: x / y, 'rem': lambda: z3.SRem(x, y), 'udiv': lambda: z3.UDiv(x, y), 'urem': lambda: z3.URem(x, y)}[op]()
                self.setreg(f, dst, cls, r)

            def trap(s):
                raise PathEnd('trap', '%s by zero or overflow in %s' % (op, fname))
            self.branch(st, work, z3.Not(bad), ok, trap)
            return None
        if op in ('shl', 'shr', 'sar'):
            x = self.val(st, fr, a[0], ins.cls)
            y = self.val(st, fr, a[2], 'w')
            w = WIDTH[ins.cls]
            cnt = y & bv(w - 1, 32)
            cnt = z3.ZeroExt(32, cnt) if w == 64 else cnt
            r = {'shl': lambda: x << cnt, 'shr': lambda: z3.LShR(x, cnt), 'sar': lambda: x >> cnt}[op]()
            self.setreg(fr, ins.dst, ins.cls, r)
            return None
        if op == 'neg':
            x = self.val(st, fr, a[0], ins.cls)
            self.setreg(fr, ins.dst, ins.cls, -x)
            return None
        if op == 'copy':
            self.setreg(fr, ins.dst, ins.cls, self.val(st, fr, a[0], ins.cls))
            return None
        if op in ('extsw', 'extuw', 'extsh', 'extuh', 'extsb', 'extub'):
            src_w = {'w': 32, 'h': 16, 'b': 8}[op[4]]
            x = self.val(st, fr, a[0], 'w')
            x = z3.Extract(src_w - 1, 0, x)
            w = WIDTH[ins.cls]
            r = z3.SignExt(w - src_w, x) if op[3] == 's' else z3.ZeroExt(w - src_w, x)
            self.setreg(fr, ins.dst, ins.cls, r)
            return None
        if len(op) >= 4 and op[0] == 'c' and op[-1] in 'wl' and op[1:-1] in _CMP:
            ocls = op[-1]
            x = self.val(st, fr, a[0], ocls)
            y = self.val(st, fr, a[2], ocls)
            c = _CMP[op[1:-1]](x, y)
            w = WIDTH[ins.cls]
            self.setreg(fr, ins.dst, ins.cls, z3.If(c, bv(1, w), bv(0, w)))
            return None
        if op.startswith('alloc'):
            n = conc_val(self.val(st, fr, a[0], 'l'))
            if n is None:
                raise Inconclusive('alloc with symbolic size')
            r = st.mem.alloc(n, name='%s.%s' % (fr.fn.name, ins.dst), kind='stack')
            fr.allocs.append(r)
            self.setreg(fr, ins.dst, 'l', st.mem.ptr(r))
            return None
        if op.startswith('load'):
            kind = op[4:]
            p = self.val(st, fr, a[0], 'l')
            nb = {'l': 8, 'w': 4, 'sw': 4, 'uw': 4, 'sh': 2, 'uh': 2, 'sb': 1, 'ub': 1}.get(kind)
            if nb is None:
                raise Inconclusive('qbe op %s' % op)
            v = st.mem.load(st, p, nb)
            w = WIDTH[ins.cls]
            if nb * 8 < w:
                v = z3.SignExt(w - nb * 8, v) if kind[0] == 's' or kind == 'w' else z3.ZeroExt(w - nb * 8, v)
            elif nb * 8 > w:
                v = z3.Extract(w - 1, 0, v)
            self.setreg(fr, ins.dst, ins.cls, v)
            return None
        if op in ('storel', 'storew', 'storeh', 'storeb'):
            nb = {'l': 8, 'w': 4, 'h': 2, 'b': 1}[op[5]]
            v = self.val(st, fr, a[0], 'l' if nb == 8 else 'w')
            p = self.val(st, fr, a[2], 'l')
            if nb * 8 < v.size():
                v = z3.Extract(nb * 8 - 1, 0, v)
            st.mem.store(st, p, v, nb)
            return None
        if op == 'jmp':
            self.goto(st, a[0])
            return None
        if op == 'jnz':
            c = self.val(st, fr, a[0], 'w')
            t, f = a[2], a[4]
            self.branch(st, work, c != bv(0, 32), lambda s: self.goto(s, t), lambda s: self.goto(s, f))
            return None
        if op == 'ret':
            if not a:
                if fr.fn.retcls is not None:
                    if len(st.frames) == 1:
                        raise PathEnd('falloff', 'ret without value in %s (declared %s)' % (fr.fn.name, fr.fn.retcls))
                    return self.do_return(st, None)
                return self.do_return(st, None)
            if fr.fn.retcls is None:
                raise PathEnd('illtyped', 'ret with value in void function %s' % fr.fn.name)
            rc = fr.fn.retcls
            if rc not in WIDTH:
                raise Inconclusive('return class %s' % rc)
            v = self.val(st, fr, a[0], rc)
            return self.do_return(st, simp(v))
        if op == 'call':
            return self.do_call(st, work, ins)
        if op in ('hlt',):
            raise PathEnd('abort', 'hlt')
        raise Inconclusive('qbe op %r not supported (%s)' % (op, ins.line))

    def do_call(self, st, work, ins):
        fr = st.frames[-1]
        a = ins.args
        target = a[0]
        lp = a.index('(')
        rp = len(a) - 1 - a[::-1].index(')')
        parts = _split_args(a[lp + 1:rp])
        argv = []
        for part in parts:
            if not part or part[0] == '...':
                continue
            cls, tok = part[0], part[1]
            if cls == 'env':
                cls = 'l'
            if cls not in WIDTH:
                raise Inconclusive('call argument class %s' % cls)
            argv.append(self.val(st, fr, tok, cls))
        if target.startswith('%'):
            tv = conc_val(self.val(st, fr, target, 'l'))
            if tv is None:
                raise Inconclusive('indirect call through symbolic pointer')
            target = self.func_by_addr(tv)
            if target is None:
                raise PathEnd('oob', 'indirect call to non-function address')
        self.called.add(target)
        if target in self.funcs:
            fn = self.funcs[target]
            if len(st.frames) > 24:
                raise PathEnd('bound', 'call depth > 24')
            nf = Frame(fn)
            if len(argv) != len(fn.params):
                raise PathEnd('illtyped', 'call of %s with %d args, declared %d' % (target, len(argv), len(fn.params)))
            for (cls, name), v in zip(fn.params, argv):
                cw = 64 if cls in ('l', 'env') else 32
                if v.size() != cw:
                    if v.size() == 64 and cw == 32:
                        v = z3.Extract(31, 0, v)
                    else:
                        raise PathEnd('illtyped', 'argument class mismatch calling %s' % target)
                nf.regs[name] = v
            nf.ret_dst = (ins.dst, ins.cls) if ins.dst else None
            nf.visits[nf.block] = 1
            st.frames.append(nf)
            self.encoded.add(target)
            return None
        name = target[1:]
        summ = self.summaries.get(name)
        if summ is None:
            raise Inconclusive('call to %s: no summary' % name)
        self._cur_ins = ins
        r = summ(self, st, argv, work)
        if ins.dst:
            self.deliver(st, ins, r)
        return None
